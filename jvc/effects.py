"""Effect obligations decided on the AST / call graph of the repository (the `cfg` back end of DESIGN 2.5):
finite questions about which calls are syntactically reachable and which arguments flow where.  Each obligation is
reported like a VC (named, discharged / refuted with the offending site as the counter-example)."""
import ast
import os

from . import extract

MODULES = ["thejoker.thejoker", "thejoker.likelihood_helpers", "thejoker.multiproc_helpers", "thejoker.utils", "thejoker.prior",
           "thejoker.samples", "thejoker.samples_helpers", "thejoker.data", "thejoker.data_helpers", "thejoker.samples_analysis",
           "thejoker.distributions", "thejoker.prior_helpers", "thejoker.src.fast_likelihood"]

FORBIDDEN_RANDOM = {"np.random.seed", "np.random.rand", "np.random.randn", "np.random.uniform", "np.random.normal", "np.random.choice",
                    "np.random.random", "np.random.randint", "np.random.shuffle", "np.random.permutation", "np.random.multivariate_normal",
                    "np.random.set_state", "np.random.set_bit_generator", "np.random.RandomState", "numpy.random.seed",
                    "random.random", "random.seed", "random.choice", "random.shuffle", "random.uniform", "random.randint", "random.sample",
                    "os.urandom", "time.time", "uuid.uuid4", "secrets.token_bytes"}
RNG_PARAMS = ("rng", "random_seed", "random_state")


def dotted(node):
    if isinstance(node, ast.Name):
        return node.id
    if isinstance(node, ast.Attribute):
        b = dotted(node.value)
        return f"{b}.{node.attr}" if b else None
    return None


def functions(mod):
    tree, path, text, raw = extract.module_ast(mod)
    out = []

    def walk(node, prefix):
        for ch in ast.iter_child_nodes(node):
            if isinstance(ch, ast.FunctionDef):
                out.append((f"{prefix}{ch.name}", ch))
                walk(ch, f"{prefix}{ch.name}.")
            elif isinstance(ch, ast.ClassDef):
                walk(ch, f"{prefix}{ch.name}.")
            elif isinstance(ch, (ast.If, ast.With, ast.Try)):
                walk(ch, prefix)
    walk(tree, "")
    return out, path


def repo_signatures():
    """short name -> list of (qual, param names) for every repository function (call edges are resolved by short name)"""
    sigs = {}
    for mod in MODULES:
        try:
            fns, _ = functions(mod)
        except FileNotFoundError:
            continue
        for q, node in fns:
            params = [a.arg for a in node.args.args] + [a.arg for a in node.args.kwonlyargs]
            sigs.setdefault(q.split(".")[-1], []).append((f"{mod}.{q}", params, node))
    return sigs


def _rng_sources(fn):
    """names inside fn that denote the caller's generator: parameters named rng/random_seed, self.rng, and names assigned from them"""
    names = {a.arg for a in fn.args.args + fn.args.kwonlyargs if a.arg in RNG_PARAMS}
    exprs = {"self.rng"}
    changed = True
    while changed:
        changed = False
        for n in ast.walk(fn):
            if isinstance(n, ast.Assign) and len(n.targets) == 1 and isinstance(n.targets[0], ast.Name):
                src = dotted(n.value)
                if src is not None and (src in names or src in exprs) and n.targets[0].id not in names:
                    names.add(n.targets[0].id)
                    changed = True
    return names, exprs


def check_randomness(allow_files=()):
    """-> list of obligation results for C10"""
    res = []
    sigs = repo_signatures()
    for mod in MODULES:
        try:
            fns, path = functions(mod)
        except FileNotFoundError:
            res.append({"name": f"C10/effects/{mod}/module-present", "status": "unknown", "reason": "module not found"})
            continue
        rel = os.path.relpath(path, extract.REPO)
        for q, fn in fns:
            if q.startswith("rng_context"):
                # a context manager that swaps numpy's *global* bit generator; it must not be used by any sampling function (checked below)
                pass
            names, exprs = _rng_sources(fn)
            bad_calls, bad_edges, n_calls, n_edges = [], [], 0, 0
            for n in ast.walk(fn):
                if not isinstance(n, ast.Call):
                    continue
                d = dotted(n.func)
                if d is None:
                    continue
                n_calls += 1
                if d in FORBIDDEN_RANDOM and not q.startswith("rng_context"):
                    bad_calls.append(f"{rel}:{n.lineno} {d}")
                if d.endswith("rng_context"):
                    bad_calls.append(f"{rel}:{n.lineno} {d} (swaps numpy's global bit generator)")
                if d in ("np.random.default_rng", "numpy.random.default_rng") and not n.args and not n.keywords:
                    # allowed only as the documented fallback `if rng is None: rng = default_rng()`
                    par = getattr(n, "_parent", None)
                    ok = False
                    p = par
                    while p is not None and not isinstance(p, ast.FunctionDef):
                        if isinstance(p, ast.If) and isinstance(p.test, ast.Compare) and dotted(p.test.left) in ("rng",) \
                                and isinstance(p.test.ops[0], ast.Is) and isinstance(p.test.comparators[0], ast.Constant) and p.test.comparators[0].value is None:
                            ok = True
                        p = getattr(p, "_parent", None)
                    if not ok:
                        bad_calls.append(f"{rel}:{n.lineno} default_rng() outside an `if rng is None` fallback")
                # pymc draws: the generator itself must be handed over (random_seed=<the generator>): an integer derived from it (its seed,
                # one of its outputs) restarts the same stream on every call and leaves the generator where it was
                if d in ("pm.draw", "pymc.draw", "pm.sample_prior_predictive", "pm.sample"):
                    n_edges += 1
                    arg = None
                    for kw in n.keywords:
                        if kw.arg == "random_seed":
                            arg = kw.value
                    a = dotted(arg) if arg is not None else None
                    if not (a is not None and (a in names or a in exprs)):
                        bad_edges.append(f"{rel}:{n.lineno} {d}(...) is not given the caller's generator itself "
                                         f"(random_seed={ast.unparse(arg) if arg is not None else '<missing>'})")
                # forwarding: a call to a repository function that accepts a generator must be given this function's generator
                short = d.split(".")[-1]
                cands = sigs.get(short, [])
                targets = [c for c in cands if any(p_ in RNG_PARAMS for p_ in c[1])]
                if short == q.split(".")[-1]:
                    targets = []      # self-recursion (read_batch re-dispatching a tuple as a slice): the recursive branch draws nothing
                if targets and (names or q.split(".")[0] == "TheJoker"):
                    n_edges += 1
                    cq, params, cnode = targets[0]
                    pname = [p_ for p_ in params if p_ in RNG_PARAMS][0]
                    k = params.index(pname)
                    if params and params[0] in ("self", "cls") and isinstance(n.func, ast.Attribute):
                        k -= 1
                    arg = None
                    for kw in n.keywords:
                        if kw.arg == pname:
                            arg = kw.value
                        if kw.arg is None:
                            arg = kw.value      # **kwargs forwarding: cannot be decided syntactically
                    if arg is None and 0 <= k < len(n.args):
                        arg = n.args[k]
                    a = dotted(arg) if arg is not None else None
                    kw_star = any(kw.arg is None for kw in n.keywords)
                    if not kw_star and not (a is not None and (a in names or a in exprs)):
                        bad_edges.append(f"{rel}:{n.lineno} call to {short}(...) without the caller's generator ({pname}={ast.unparse(arg) if arg is not None else '<missing>'})")
            res.append({"name": f"C10/effects/{mod.split('.', 1)[1]}.{q}/no-ambient-randomness", "status": "refuted" if bad_calls else "discharged",
                        "reason": "; ".join(bad_calls) or None, "calls": n_calls})
            if n_edges:
                res.append({"name": f"C10/effects/{mod.split('.', 1)[1]}.{q}/generator-forwarded-on-every-call-edge",
                            "status": "refuted" if bad_edges else "discharged", "reason": "; ".join(bad_edges) or None, "edges": n_edges})
    return res


def check_no_sticky_state(quals):
    """C13: the listed functions assign no attribute of `self` and no module global (so the next call starts from the same object state)"""
    res = []
    for qual in quals:
        fs = extract.locate(qual)
        bad = []
        for n in ast.walk(fs.node):
            if isinstance(n, (ast.Assign, ast.AugAssign)):
                ts = n.targets if isinstance(n, ast.Assign) else [n.target]
                for t in ts:
                    for e in (t.elts if isinstance(t, (ast.Tuple, ast.List)) else [t]):
                        base = e
                        while isinstance(base, (ast.Attribute, ast.Subscript)):
                            base = base.value
                        if isinstance(e, (ast.Attribute, ast.Subscript)) and isinstance(base, ast.Name) and base.id == "self":
                            bad.append(f"line {n.lineno}: {ast.unparse(e)}")
            if isinstance(n, ast.Global):
                bad.append(f"line {n.lineno}: global {', '.join(n.names)}")
        res.append({"name": f"C13/effects/{qual.split('.', 1)[1]}/no-state-kept-between-calls", "status": "refuted" if bad else "discharged",
                    "reason": "; ".join(bad) or None})
    return res


def check_module_state(mods):
    """C05/C13: no function of the listed modules writes a module-level mutable (cache) - results cannot depend on earlier calls"""
    res = []
    for mod in mods:
        tree, path, text, raw = extract.module_ast(mod)
        glob = {t.id for st in tree.body if isinstance(st, ast.Assign) for t in st.targets if isinstance(t, ast.Name)}
        fns, _ = functions(mod)
        bad = []
        for q, fn in fns:
            local = {a.arg for a in fn.args.args + fn.args.kwonlyargs}
            for n in ast.walk(fn):
                if isinstance(n, ast.Assign):
                    for t in n.targets:
                        if isinstance(t, ast.Name):
                            local.add(t.id)
            for n in ast.walk(fn):
                tgt = None
                if isinstance(n, (ast.Assign, ast.AugAssign)):
                    for t in (n.targets if isinstance(n, ast.Assign) else [n.target]):
                        if isinstance(t, ast.Subscript):
                            base = t.value
                            while isinstance(base, (ast.Attribute, ast.Subscript)):
                                base = base.value
                            if isinstance(base, ast.Name) and base.id in glob and base.id not in local:
                                bad.append(f"{q} line {n.lineno}: writes module-level {base.id}")
                if isinstance(n, ast.Global):
                    bad.append(f"{q} line {n.lineno}: global {', '.join(n.names)}")
                if isinstance(n, ast.Call) and isinstance(n.func, ast.Attribute) and n.func.attr in ("append", "update", "setdefault", "add", "pop", "clear") \
                        and isinstance(n.func.value, ast.Name) and n.func.value.id in glob and n.func.value.id not in local:
                    bad.append(f"{q} line {n.lineno}: mutates module-level {n.func.value.id}")
        # memoising decorators keep results across calls in a module-level cache (a later call may get an answer computed for an earlier state of
        # the world: another file content under the same name, a mutated object)
        for q, fn in fns:
            for d in fn.decorator_list:
                dn = dotted(d.func) if isinstance(d, ast.Call) else dotted(d)
                if dn and dn.split(".")[-1] in ("lru_cache", "cache", "cached_property", "memoize"):
                    bad.append(f"{q} line {fn.lineno}: results are memoised across calls (@{dn})")
        res.append({"name": f"{mod.split('.', 1)[1]}/no-module-level-state-written", "status": "refuted" if bad else "discharged", "reason": "; ".join(bad) or None})
    return res


def check_option_forwarding(quals, prop, skip=("self", "data", "prior_samples", "joker_samples"), must_flow=(), only_callees=None):
    """The public entry points hand their options to the helper that does the work: for every call from a listed method to a repository function,
    every option of the method that the callee ALSO accepts under the same name must be passed on, as an expression that mentions the option
    (so `max_posterior_samples=max_posterior_samples`, or a value computed from it, but not a constant and not nothing).
    One obligation per (method, callee, option)."""
    res = []
    sigs = repo_signatures()
    for qual in quals:
        fs = extract.locate(qual)
        fn = fs.node
        opts = [a.arg for a in fn.args.args + fn.args.kwonlyargs if a.arg not in skip]
        # names assigned from an option inside the method still carry it (prior_samples = prior_samples[:n_prior_samples] etc.)
        carries = {o: {o} for o in opts}
        for n in ast.walk(fn):
            if isinstance(n, ast.Assign) and len(n.targets) == 1 and isinstance(n.targets[0], ast.Name):
                used = {x.id for x in ast.walk(n.value) if isinstance(x, ast.Name)}
                for o in opts:
                    if used & carries[o]:
                        carries[o].add(n.targets[0].id)
        for n in ast.walk(fn):
            if not isinstance(n, ast.Call):
                continue
            d = dotted(n.func)
            if d is None:
                continue
            short = d.split(".")[-1]
            cands = [c for c in sigs.get(short, []) if not c[0].endswith("." + qual.split(".")[-1])]
            if not cands or short in ("__init__",) or (only_callees is not None and short not in only_callees):
                continue
            cq, params, cnode = cands[0]
            is_method = bool(params) and params[0] in ("self", "cls")
            for (o, callee, into) in must_flow:
                # an option the callee does not take by name but that the property requires it to honour: it must flow into one of the
                # call's arguments (e.g. the library is cut down to the first n rows before it is handed over)
                if callee == short and o in opts and o not in params:
                    ki = params.index(into) - (1 if (bool(params) and params[0] in ("self", "cls") and isinstance(n.func, ast.Attribute)) else 0)
                    arg_ = next((kw.value for kw in n.keywords if kw.arg == into), n.args[ki] if 0 <= ki < len(n.args) else None)
                    used = {x.id for x in ast.walk(arg_) if isinstance(x, ast.Name)} if arg_ is not None else set()
                    ok = bool(used & carries[o])
                    res.append({"name": f"{prop}/effects/{qual.split('.', 1)[1]}/option-{o}-limits-what-{short}-is-given@{n.lineno}",
                                "status": "discharged" if ok else "refuted",
                                "reason": None if ok else f"{os.path.relpath(fs.path, extract.REPO)}:{n.lineno} the `{into}` argument of {short}(...) does not depend on the caller's option `{o}`"})
            for o in opts:
                if o not in params:
                    continue
                k = params.index(o) - (1 if is_method and isinstance(n.func, ast.Attribute) else 0)
                arg = None
                for kw in n.keywords:
                    if kw.arg == o:
                        arg = kw.value
                star = any(kw.arg is None for kw in n.keywords)
                if arg is None and 0 <= k < len(n.args):
                    arg = n.args[k]
                ok = star or (arg is not None and bool({x.id for x in ast.walk(arg) if isinstance(x, ast.Name)} & carries[o]))
                res.append({"name": f"{prop}/effects/{qual.split('.', 1)[1]}/option-{o}-reaches-{short}@{n.lineno}",
                            "status": "discharged" if ok else "refuted",
                            "reason": None if ok else f"{os.path.relpath(fs.path, extract.REPO)}:{n.lineno} {short}(...) is called without the caller's option "
                                                      f"`{o}` ({o}={ast.unparse(arg) if arg is not None else '<missing: the callee default is used>'})"})
    return res


def check_no_inplace_on_borrowed(quals, prop):
    """Frame obligation for read-only functions: an augmented assignment `x op= ...` on a name that was bound directly to a piece of an argument
    (x = arg[...] / x = arg.attr, no copy, no arithmetic) updates the caller's object in place when it is an array - the encoding treats arrays as
    values (S4), so this aliasing effect is excluded syntactically instead."""
    res = []
    for qual in quals:
        fs = extract.locate(qual)
        fn = fs.node
        params = {a.arg for a in fn.args.args + fn.args.kwonlyargs}
        borrowed = {}
        VIEWISH = ("to_value", "view", "ravel", "reshape", "squeeze", "asarray", "asanyarray", "atleast_1d", "atleast_2d", "transpose")

        def root(e):
            """the name an expression is a piece / possible view of:  a[...]  a.attr  a.to_value(u)  np.asarray(a) ..."""
            while True:
                if isinstance(e, (ast.Subscript, ast.Attribute)):
                    e = e.value
                elif isinstance(e, ast.Call) and isinstance(e.func, ast.Attribute) and e.func.attr in VIEWISH:
                    # method of the object (x.to_value(u)) or numpy function of it (np.asarray(x))
                    inner = e.func.value
                    if isinstance(inner, ast.Name) and inner.id in ("np", "numpy") and e.args:
                        e = e.args[0]
                    else:
                        e = inner
                else:
                    return e
        for _ in range(3):
            for n in ast.walk(fn):
                if isinstance(n, ast.Assign) and len(n.targets) == 1 and isinstance(n.targets[0], ast.Name) \
                        and isinstance(n.value, (ast.Subscript, ast.Attribute, ast.Call)):
                    if isinstance(n.value, ast.Call) and not (isinstance(n.value.func, ast.Attribute) and n.value.func.attr in VIEWISH):
                        continue
                    base = root(n.value)
                    if isinstance(base, ast.Name) and (base.id in params or base.id in borrowed) and base.id not in ("self", "cls", "np", "numpy"):
                        borrowed.setdefault(n.targets[0].id, n.lineno)
        bad = []
        rel = os.path.relpath(fs.path, extract.REPO)
        # containers (dict / list: e.g. a table's metadata) handed in by the caller: x = arg.attr (no copy) followed by x.pop(..) / x.update(..) /
        # del x[..] empties or rewrites the CALLER's container.  Only names bound exactly once are considered (a rebinding `x = dict(x)` makes a
        # private object).
        nbind = {}
        for n in ast.walk(fn):
            if isinstance(n, (ast.Assign, ast.AugAssign, ast.AnnAssign)):
                for t in (n.targets if isinstance(n, ast.Assign) else [n.target]):
                    for nm in ast.walk(t):
                        if isinstance(nm, ast.Name) and isinstance(nm.ctx, ast.Store):
                            nbind[nm.id] = nbind.get(nm.id, 0) + 1
        CONTAINER = ("pop", "popitem", "update", "clear", "setdefault", "append", "extend", "insert", "remove", "reverse")
        for n in ast.walk(fn):
            if isinstance(n, ast.Call) and isinstance(n.func, ast.Attribute) and n.func.attr in CONTAINER:
                base = n.func.value
                if isinstance(base, ast.Name) and base.id in borrowed and nbind.get(base.id, 0) == 1:
                    bad.append(f"{rel}:{n.lineno} `{ast.unparse(n)}` changes the container bound at line {borrowed[base.id]} (a piece of an argument, not a copy)")
                elif isinstance(base, ast.Attribute) and isinstance(root(base), ast.Name) and root(base).id in params \
                        and root(base).id not in ("self", "cls") and nbind.get(root(base).id, 0) == 0:
                    bad.append(f"{rel}:{n.lineno} `{ast.unparse(n)}` changes a container of the caller's argument `{root(base).id}`")
            if isinstance(n, ast.Delete):
                for t in n.targets:
                    if isinstance(t, ast.Subscript) and isinstance(t.value, ast.Name) and t.value.id in borrowed and nbind.get(t.value.id, 0) == 1:
                        bad.append(f"{rel}:{n.lineno} `{ast.unparse(n)}` deletes from the container bound at line {borrowed[t.value.id]} (a piece of an argument)")
        for n in ast.walk(fn):
            if isinstance(n, ast.AugAssign) and isinstance(n.target, ast.Name) and n.target.id in borrowed:
                bad.append(f"{rel}:{n.lineno} `{ast.unparse(n)}` updates in place the object bound at line {borrowed[n.target.id]} (a piece of an argument)")
            # x.sort() / x.fill(..) / x.resize(..) / x.put(..) / x.itemset(..) on a borrowed array, and x[...] = ... / x[...] op= ...
            if (isinstance(n, ast.Call) and isinstance(n.func, ast.Attribute) and isinstance(n.func.value, ast.Name) and n.func.value.id in borrowed
                    and n.func.attr in ("sort", "fill", "resize", "put", "itemset", "partition", "byteswap")):
                bad.append(f"{rel}:{n.lineno} `{ast.unparse(n)}` reorders / overwrites in place the object bound at line {borrowed[n.func.value.id]} "
                           f"(a piece of an argument)")
            if isinstance(n, (ast.Assign, ast.AugAssign)):
                for t in (n.targets if isinstance(n, ast.Assign) else [n.target]):
                    if isinstance(t, ast.Subscript) and isinstance(t.value, ast.Name) and t.value.id in borrowed:
                        bad.append(f"{rel}:{n.lineno} `{ast.unparse(t)} = ...` writes into the object bound at line {borrowed[t.value.id]} (a piece of an argument)")
            # a parameter itself sorted / filled in place
            if (isinstance(n, ast.Call) and isinstance(n.func, ast.Attribute) and isinstance(n.func.value, ast.Name) and n.func.value.id in params
                    and n.func.value.id not in ("self", "cls") and n.func.attr in ("sort", "fill", "resize", "put", "itemset", "partition")):
                bad.append(f"{rel}:{n.lineno} `{ast.unparse(n)}` reorders / overwrites the caller's argument in place")
        res.append({"name": f"{prop}/effects/{qual.split('.', 1)[1]}/arguments-not-updated-in-place", "status": "refuted" if bad else "discharged",
                    "reason": "; ".join(bad) or None})
    return res


def check_no_set_order_dependence(prop):
    """Determinism: in a function that holds a generator (an rng / random_seed parameter), nothing may be iterated in SET order - the iteration order
    of a set of strings depends on the interpreter's hash seed, so the same seed would give different draws in different processes.  A set that
    is only tested for membership or passed through sorted() is fine."""
    res = []
    for mod in MODULES:
        try:
            fns, path = functions(mod)
        except FileNotFoundError:
            continue
        rel = os.path.relpath(path, extract.REPO)
        for q, fn in fns:
            names, _ = _rng_sources(fn)
            # ... and every function that assembles the prior (the ORDER of its parameters decides which draw each one gets)
            if not names and mod not in ("thejoker.prior", "thejoker.prior_helpers"):
                continue
            for n in ast.walk(fn):
                for ch in ast.iter_child_nodes(n):
                    ch._parent = n
            bad = []
            setnames = set()
            for n in ast.walk(fn):
                is_set = isinstance(n, (ast.Set, ast.SetComp)) or (isinstance(n, ast.Call) and dotted(n.func) in ("set", "frozenset")) or \
                    (isinstance(n, ast.BinOp) and isinstance(n.op, (ast.BitAnd, ast.BitOr, ast.Sub, ast.BitXor)) and any(
                        isinstance(x, ast.Call) and isinstance(x.func, ast.Attribute) and x.func.attr in ("keys", "items") for x in (n.left, n.right)))
                if not is_set:
                    continue
                par = getattr(n, "_parent", None)
                if isinstance(par, ast.Call) and dotted(par.func) == "sorted":
                    continue
                if isinstance(par, ast.Compare):
                    continue            # membership test
                if isinstance(par, ast.Assign) and len(par.targets) == 1 and isinstance(par.targets[0], ast.Name):
                    setnames.add(par.targets[0].id)
                    continue
                bad.append(f"{rel}:{n.lineno} a set is consumed in iteration order: `{ast.unparse(par)[:80]}`")
            for n in ast.walk(fn):
                it = None
                if isinstance(n, (ast.For, ast.comprehension)):
                    it = n.iter
                elif isinstance(n, ast.Call) and dotted(n.func) in ("list", "tuple") and n.args:
                    it = n.args[0]
                if isinstance(it, ast.Name) and it.id in setnames:
                    bad.append(f"{rel}:{getattr(n, 'lineno', getattr(it, 'lineno', 0))} the set `{it.id}` is consumed in iteration order")
            res.append({"name": f"{prop}/effects/{mod.split('.', 1)[1]}.{q}/no-dependence-on-set-iteration-order", "status": "refuted" if bad else "discharged",
                        "reason": "; ".join(bad) or None})
    return res


def check_pool_left_open(prop):
    """C13: the library never closes (or terminates) the pool the caller handed to it - a failed call must leave the sampler usable"""
    res = []
    for mod in ("thejoker.multiproc_helpers", "thejoker.thejoker", "thejoker.utils"):
        fns, path = functions(mod)
        rel = os.path.relpath(path, extract.REPO)
        bad = []
        for q, fn in fns:
            for n in ast.walk(fn):
                if isinstance(n, ast.Call) and isinstance(n.func, ast.Attribute) and n.func.attr in ("close", "terminate", "join") \
                        and dotted(n.func.value) in ("pool", "self.pool"):
                    bad.append(f"{rel}:{n.lineno} {q}: {ast.unparse(n)}")
        res.append({"name": f"{prop}/effects/{mod.split('.', 1)[1]}/callers-pool-never-closed", "status": "refuted" if bad else "discharged", "reason": "; ".join(bad) or None})
    return res
