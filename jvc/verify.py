"""Function-level driver: one real function + its sidecar contract -> list of VCs."""
import ast
import traceback

import z3

from . import extract
from .symexec import Contract, Ctx, Executor, Path, VC, truth, b_and, b_not, length
from .values import (Arr, NameRef, Obj, Opaque, PyList, SymSeq, Unsupported, fresh_arr, fresh_bool, fresh_int,
                     fresh_real, is_z3)


def build_param(spec, ex, path, name):
    """type strings for parameters: int, nat, pos, real, bool, none, opaque, seq, or a callable builder."""
    if callable(spec):
        return spec(ex, path, name)
    if spec == "int":
        return z3.Int(name)
    if spec == "nat":
        v = z3.Int(name)
        path.assume(v >= 0)
        return v
    if spec == "pos":
        v = z3.Int(name)
        path.assume(v >= 1)
        return v
    if spec == "real":
        return z3.Real(name)
    if spec == "bool":
        return z3.Bool(name)
    if spec == "none":
        return None
    if spec == "true":
        return True
    if spec == "false":
        return False
    if spec == "opaque":
        return Opaque(name)
    if spec == "seq":
        return Opaque(name)
    if spec == "intarr":
        a = fresh_arr(name, 1, "int")
        path.assume(a.shape[0] >= 0)
        return a
    if spec == "realarr":
        a = fresh_arr(name, 1, "real")
        path.assume(a.shape[0] >= 0)
        return a
    if isinstance(spec, (int, str)) and not isinstance(spec, bool) and isinstance(spec, int):
        return spec
    if isinstance(spec, tuple) and spec[0] == "const":
        return spec[1]
    raise ValueError(f"unknown parameter spec {spec!r} for {name}")


def module_env(fs, ex):
    """imports and simple constants of the function's module (read from the real module source)."""
    parts = fs.qual.split(".")
    for cut in range(len(parts) - 1, 0, -1):
        try:
            extract.module_path(".".join(parts[:cut]))
            mod = ".".join(parts[:cut])
            break
        except FileNotFoundError:
            continue
    tree, path, text, raw = extract.module_ast(mod)
    ex.imports = {}
    ex.module = mod
    p = Path()
    consts = {}
    for st in tree.body:
        try:
            if isinstance(st, (ast.Import, ast.ImportFrom)):
                ex.exec_stmt(st, p)
            elif isinstance(st, (ast.FunctionDef, ast.ClassDef)):
                ex.imports[st.name] = f"{mod}.{st.name}"
            elif isinstance(st, ast.Assign) and len(st.targets) == 1 and isinstance(st.targets[0], ast.Name):
                try:
                    consts[st.targets[0].id] = ex.ev(st.value, p)
                except Unsupported:
                    pass
        except Unsupported:
            pass
    ex.globals = dict(ex.globals)
    for k, v in consts.items():
        ex.globals.setdefault(k, v)
    return ex


class FnResult:
    def __init__(self, contract, fs):
        self.contract = contract
        self.fs = fs
        self.vcs = []
        self.error = None
        self.paths = 0
        self.covers = []


def verify_function(prop, contract, callees, lib, timeout_hint=None, hooks=None):
    """-> FnResult with VCs (not yet discharged)."""
    fs = extract.locate(contract.qual)
    res = FnResult(contract, fs)
    multi = len(contract.cases) > 1
    for ci, case in enumerate(contract.cases):
        ctx = Ctx(prop, lib, callees)
        cname = case.get("_name", str(ci) if multi else None)
        ctx.fnshort = contract.short + (f"[{cname}]" if cname else "")
        ex = Executor(ctx, fs, contract)
        if fs.is_pyx:
            ctx.cdivision = True
        ctx.strict_defined = bool(getattr(contract, "strict_defined", False))
        ctx.inline = set((hooks or {}).get("inline", ()))
        from . import symexec as _sx
        _sx.CFG_MODE[0] = bool(getattr(contract, "cfg_mode", False))
        _sx.SUM_CONGRUENCE[0] = bool(getattr(contract, "sum_congruence", False))
        ctx.calls_may_raise = bool(getattr(contract, "calls_may_raise", False))
        try:
            module_env(fs, ex)
            path = Path()
            fa = fs.node.args
            names = [a.arg for a in fa.args] + [a.arg for a in fa.kwonlyargs]
            specs = dict(contract.params)
            specs.update({k: v for k, v in case.items() if not k.startswith("_")})
            if hooks and "globals" in hooks:
                ex.globals.update(hooks["globals"](ex, path))
            # a parameter the contract does not mention but the source gives a default for (an optional parameter added later): the contract
            # speaks about the calls that omit it, so it is bound to its default
            _pos = list(fa.args)
            _defaults = {a.arg: d for a, d in zip(_pos[len(_pos) - len(fa.defaults):], fa.defaults)}
            _defaults.update({a.arg: d for a, d in zip(fa.kwonlyargs, fa.kw_defaults) if d is not None})
            for n in names:
                if n not in specs and n in _defaults:
                    path.env[n] = ex.ev(_defaults[n], path)
                    res.defaulted = getattr(res, "defaulted", []) + [n]
                    continue
                if n not in specs:
                    raise Unsupported(f"contract of {contract.qual} gives no type for parameter '{n}'")
                path.env[n] = build_param(specs[n], ex, path, n)
            if fa.vararg and fa.vararg.arg in specs:
                path.env[fa.vararg.arg] = build_param(specs[fa.vararg.arg], ex, path, fa.vararg.arg)
            if fa.kwarg and fa.kwarg.arg in specs:
                path.env[fa.kwarg.arg] = build_param(specs[fa.kwarg.arg], ex, path, fa.kwarg.arg)
            for g, b in specs.items():
                if g.startswith("ghost:"):
                    path.env[g[6:]] = build_param(b, ex, path, g[6:])
            if contract.ghost_pre:
                contract.ghost_pre(ex, path)
            ex.old_env = dict(path.env)
            for r in contract.requires:
                path.assume(ex.spec(r, path))
            for r in case.get("_requires", []):
                path.assume(ex.spec(r, path))
            res.pre_paths = getattr(res, "pre_paths", []) + [(ctx.fnshort, list(path.pc))]
            # vacuity: reachability witnesses
            for cv in contract.cover:
                res.covers.append((ctx.fnshort, cv, list(path.pc) + [ex.spec(cv, path)]))
            paths = ex.run(path)
            res.paths += len(paths)
            n_ret = 0
            for p in paths:
                if p.status == "return":
                    n_ret += 1
                    res.ret_paths = getattr(res, "ret_paths", []) + [(ctx.fnshort, list(p.pc))]
                    line = getattr(p, "ret_line", fs.end_lineno)
                    # postconditions: a parameter name denotes the value the caller passed (entry value) - a body that rebinds a
                    # parameter cannot thereby change what the contract is about.  Objects mutated through the parameter
                    # (self, functional update of fields) denote their final state; final(x) gives a rebound parameter's last value.
                    entry = {n_: v_ for n_, v_ in ex.old_env.items() if n_ in names and not isinstance(v_, Obj)}
                    ex.final_env = dict(p.env)
                    for label, e in contract.ensures.items():
                        try:
                            g = ex.spec(e, p, {**entry, "result": p.ret})
                        except Unsupported as err:
                            res.clause_errors = getattr(res, "clause_errors", []) + [
                                f"{ctx.fnshort}: clause '{label}' cannot be evaluated on the path returning at line {line}: {err}"]
                            continue
                        ctx.vc(f"{label}@{line}", p, g, "post", line, note=e)
                elif p.status == "raise":
                    for label, e in contract.exc_ensures.items():
                        g = ex.spec(e, p, {"exc": p.exc.cls})
                        ctx.vc(f"{label}@{p.exc.line}", p, g, "exc-post", p.exc.line, note=e)
            res.returns = getattr(res, "returns", 0) + n_ret
        except Unsupported as e:
            res.error = f"{ctx.fnshort}: outside the subset: {e}"
        except z3.Z3Exception as e:
            res.error = f"{ctx.fnshort}: term construction failed: {e}\n{traceback.format_exc()[-600:]}"
        if getattr(res, "clause_errors", None) and not res.error:
            res.error = "; ".join(res.clause_errors[:3])
        res.vcs += ctx.vcs
        res.trusted = getattr(res, "trusted", set()) | ctx.trusted_used
    return res
