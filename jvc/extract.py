"""Extraction of the real functions from /repo's *current working tree* (re-read on every run).

locate("thejoker.utils.batch_tasks") -> FnSrc(node, file, lines, sha256, source)
`.py` files are parsed with `ast`; the Cython kernel goes through jvc.depyx first (line preserving).
Nothing is imported from the repository: the prover only reads text.
"""
import ast
import hashlib
import os

from . import depyx as _depyx

REPO = os.environ.get("VERIF_REPO", "/repo")

_cache = {}


class FnSrc:
    def __init__(self, qual, node, path, text, is_pyx=False):
        self.qual = qual
        self.node = node
        self.path = path
        self.is_pyx = is_pyx
        self.lineno = node.lineno
        self.end_lineno = node.end_lineno
        lines = text.split("\n")[node.lineno - 1: node.end_lineno]
        self.source = "\n".join(lines)
        self.sha256 = hashlib.sha256(self.source.encode()).hexdigest()

    def describe(self):
        return {
            "function": self.qual,
            "file": os.path.relpath(self.path, REPO),
            "lines": [self.lineno, self.end_lineno],
            "sha256": self.sha256,
        }


def module_path(mod):
    rel = mod.replace(".", "/")
    for ext in (".py", ".pyx"):
        p = os.path.join(REPO, rel + ext)
        if os.path.exists(p):
            return p
    raise FileNotFoundError(f"module {mod} not found under {REPO}")


def module_ast(mod):
    """-> (tree, path, text(after depyx for pyx), raw_text)"""
    if mod in _cache:
        return _cache[mod]
    path = module_path(mod)
    raw = open(path).read()
    if path.endswith(".pyx"):
        text = _depyx.depyx(raw)
    else:
        text = raw
    tree = ast.parse(text)
    for parent in ast.walk(tree):
        for ch in ast.iter_child_nodes(parent):
            ch._parent = parent
    _cache[mod] = (tree, path, text, raw)
    return _cache[mod]


def locate(qualname):
    """qualname = "<module dotted>.<Class>.<func>" or "<module>.<func>" (nested: outer.inner)."""
    parts = qualname.split(".")
    # longest prefix that is a module
    for cut in range(len(parts) - 1, 0, -1):
        mod = ".".join(parts[:cut])
        try:
            module_path(mod)
        except FileNotFoundError:
            continue
        tree, path, text, raw = module_ast(mod)
        node = tree
        for name in parts[cut:]:
            found = None
            for ch in ast.walk(node) if node is not tree else node.body:
                if isinstance(ch, (ast.FunctionDef, ast.ClassDef)) and ch.name == name and ch is not node:
                    found = ch
                    break
            if found is None and node is tree:
                # functions defined under `if`/`else` at module level (distributions.py)
                for ch in ast.walk(tree):
                    if isinstance(ch, (ast.FunctionDef, ast.ClassDef)) and ch.name == name:
                        found = ch
                        break
            if found is None:
                raise KeyError(f"{qualname}: '{name}' not found in {path}")
            node = found
        return FnSrc(qualname, node, path, text, is_pyx=path.endswith(".pyx"))
    raise KeyError(f"cannot resolve {qualname}")


def pyx_ctypes():
    tree, path, text, raw = module_ast("thejoker.src.fast_likelihood")
    return _depyx.ctypes(raw)


def kernel_sync_status():
    """Compare the .pyx lines embedded in the generated fast_likelihood.c (comments of the form
    /* "thejoker/src/fast_likelihood.pyx":274 ... */) with the current .pyx; True when every embedded
    line still matches, i.e. the compiled extension was generated from this source."""
    import re
    cpath = os.path.join(REPO, "thejoker/src/fast_likelihood.c")
    ppath = os.path.join(REPO, "thejoker/src/fast_likelihood.pyx")
    sopath = None
    d = os.path.join(REPO, "thejoker/src")
    for f in os.listdir(d):
        if f.startswith("fast_likelihood") and f.endswith(".so"):
            sopath = os.path.join(d, f)
    if not os.path.exists(cpath) or sopath is None:
        return {"in_sync": False, "reason": "generated .c or .so missing"}
    pyx = open(ppath).read().split("\n")
    ctext = open(cpath, errors="replace").read()
    bad = 0
    checked = 0
    # blocks:  /* "thejoker/src/fast_likelihood.pyx":LINE\n * ctx\n * line  # <<<<<<<<<<<<<<\n
    for m in re.finditer(r'/\* "thejoker/src/fast_likelihood\.pyx":(\d+)\n((?: \*.*\n)+?) ?\*/', ctext):
        ln = int(m.group(1))
        for l in m.group(2).split("\n"):
            if l.rstrip().endswith("# <<<<<<<<<<<<<<"):
                emb = l[3:].rsplit("# <<<<<<<<<<<<<<", 1)[0].rstrip()
                cur = pyx[ln - 1].rstrip() if ln - 1 < len(pyx) else None
                checked += 1
                if cur is None or cur.strip() != emb.strip():
                    bad += 1
    newer = os.path.getmtime(sopath) >= os.path.getmtime(cpath) - 1
    return {"in_sync": bad == 0 and checked > 0 and newer, "embedded_lines_checked": checked,
            "mismatching_lines": bad, "so_not_older_than_c": newer}
