"""Discharge of verification conditions: z3 first, cvc5 for z3's unknowns (and for everything in the
thorough tier).  A VC  Gamma |- phi  is sent as  Gamma /\\ not phi :
  unsat   -> discharged
  sat     -> refuted (counter-model kept)
  unknown -> undecided; never reported as a violation (DESIGN 1 / 2.5)
"""
import os
import subprocess
import tempfile
import time

import z3

CVC5 = "/usr/bin/cvc5"


def _model_dict(m, limit=60):
    out = {}
    for d in m.decls():
        try:
            if d.arity() == 0:
                out[d.name()] = str(m[d])
            elif len(out) < limit:
                out[d.name()] = str(m[d])[:300]
        except z3.Z3Exception:
            pass
    return out


def check_z3(hyps, goal, timeout_ms, want_model=True):
    s = z3.Solver()
    s.set("timeout", int(timeout_ms))
    for h in hyps:
        if h is True:
            continue
        s.add(h)
    s.add(z3.Not(goal))
    t0 = time.time()
    r = s.check()
    dt = time.time() - t0
    if r == z3.unsat:
        return "discharged", None, dt, s
    if r == z3.sat:
        return "refuted", (s.model() if want_model else None), dt, s
    return "unknown", s.reason_unknown(), dt, s


def _symbols(e, cache):
    """names of the uninterpreted constants / functions occurring in e (quantifier bodies included)"""
    key = e.get_id()
    if key in cache:
        return cache[key]
    out, seen, stack = set(), set(), [e]
    while stack:
        t = stack.pop()
        if t.get_id() in seen:
            continue
        seen.add(t.get_id())
        if z3.is_quantifier(t):
            stack.append(t.body())
            for i in range(t.num_patterns()):
                stack.append(t.pattern(i))
            continue
        if z3.is_app(t):
            if t.decl().kind() == z3.Z3_OP_UNINTERPRETED:
                out.add(t.decl().name())
            stack.extend(t.children())
    cache[key] = out
    return out


def goal_component(hyps, goal):
    """the hypotheses connected to the goal through shared uninterpreted symbols (transitively).  The remaining hypotheses have a signature
    disjoint from goal + kept, so  kept /\ not goal  is satisfiable iff  hyps /\ not goal  is, provided the dropped hypotheses are consistent
    (they are the same hypotheses the vacuity canary guards)."""
    cache = {}
    hs = [h for h in hyps if h is not True and not isinstance(h, bool)]
    syms = [_symbols(h, cache) for h in hs]
    reach = set(_symbols(goal, cache))
    kept = [False] * len(hs)
    changed = True
    while changed:
        changed = False
        for i, sy in enumerate(syms):
            if not kept[i] and (sy & reach):
                kept[i] = True
                reach |= sy
                changed = True
    # hypotheses without any uninterpreted symbol (pure arithmetic facts) are kept as well
    return [h for i, h in enumerate(hs) if kept[i] or not syms[i]], sum(1 for k_ in kept if not k_)


def check_cvc5(solver, timeout_ms):
    """re-check the same query with cvc5 through SMT-LIB text."""
    text = solver.to_smt2()
    # z3 prints (check-sat) at the end; cvc5 needs a logic
    # z3 prints primed names (Ainv') unquoted, which is not a legal SMT-LIB simple symbol
    text = "(set-logic ALL)\n" + text.replace("'", "_prime")
    with tempfile.NamedTemporaryFile("w", suffix=".smt2", delete=False, dir=os.environ.get("VERIF_OUT", None)) as f:
        f.write(text)
        path = f.name
    t0 = time.time()
    try:
        p = subprocess.run([CVC5, f"--tlimit={int(timeout_ms)}", "--nl-ext-tplanes", "--full-saturate-quant", path],
                           capture_output=True, text=True, timeout=timeout_ms / 1000 + 10)
        out = p.stdout.strip().split("\n")[0] if p.stdout.strip() else "unknown"
        err = p.stderr.strip()[:200]
    except subprocess.TimeoutExpired:
        out, err = "unknown", "timeout"
    finally:
        os.unlink(path)
    dt = time.time() - t0
    if out == "unsat":
        return "discharged", None, dt
    if out == "sat":
        return "refuted", None, dt
    return "unknown", err or out, dt


def discharge(vc, timeout_ms=20000, use_cvc5=True, cross=False, light=False):
    """-> dict(status, backend, seconds, model, reason).  light: z3 only with a short budget (used once a contract already has several undecided
    obligations: its verdict is undecided either way, and the second solver / component attempts would only cost minutes)"""
    if light:
        timeout_ms, use_cvc5 = min(timeout_ms, 2000), False
    status, info, dt, s = check_z3(vc.hyps, vc.goal, timeout_ms)
    res = {"name": vc.name, "status": status, "backend": "z3", "seconds": round(dt, 4), "model": None, "reason": None}
    if status == "refuted":
        res["model"] = _model_dict(info) if info is not None else None
        res["z3model"] = info
    elif status == "unknown":
        res["reason"] = str(info)
        if use_cvc5:
            st2, info2, dt2 = check_cvc5(s, timeout_ms)
            res["seconds"] = round(dt + dt2, 4)
            if st2 == "discharged":
                res.update(status="discharged", backend="cvc5")
            elif st2 == "refuted":
                res.update(status="refuted", backend="cvc5", reason="cvc5: sat")
            else:
                res["reason"] = f"z3: {info}; cvc5: {info2}"
        if res["status"] == "unknown" and not light:
            # second attempt on the goal's own symbol-connected component of the hypotheses (sound in both directions, see goal_component)
            kept, dropped = goal_component(vc.hyps, vc.goal)
            if dropped:
                st3, info3, dt3, s3 = check_z3(kept, vc.goal, min(timeout_ms, 20000))
                res["seconds"] = round(res["seconds"] + dt3, 4)
                if st3 == "discharged":
                    res.update(status="discharged", backend="z3", reason=None)
                elif st3 == "refuted":
                    res.update(status="refuted", backend="z3", reason=f"counter-model of the goal's symbol-connected component ({dropped} unrelated hypotheses set aside)",
                               model=_model_dict(info3) if info3 is not None else None)
                    res["z3model"] = info3
    if cross and status == "discharged":
        st2, info2, dt2 = check_cvc5(s, timeout_ms)
        res["cross"] = st2
        res["cross_seconds"] = round(dt2, 4)
    return res


def satisfiable(hyps, timeout_ms=5000):
    s = z3.Solver()
    s.set("timeout", int(timeout_ms))
    for h in hyps:
        if h is not True:
            s.add(h)
    r = s.check()
    if r == z3.sat:
        return "sat", s.model()
    return ("unsat" if r == z3.unsat else "unknown"), None
