"""Library contracts (assumed, DESIGN Appendix A): Python builtins and numpy operations used by the
functions under contract.  Each model receives evaluated arguments and returns a symbolic value,
possibly adding *facts* (the library's postcondition) to the path.  Every model used in a run is
listed in the evidence under trusted_base.
"""
import ast

import z3

from .symexec import (EXP, FABS, LOG, PI, POW, SQRT, COS, SIN, arith, b_and, b_implies, b_not, b_or, compare, index, length, q_exists,
                      q_forall, truth, val_eq, where_of, z_max, z_min)
from .values import (Arr, BoundMethod, NameRef, Obj, Opaque, PyDict, PyList, SliceOf, SliceV, SymSeq, Unsupported,
                     fresh_arr, fresh_bool, fresh_fn, fresh_int, fresh_name, fresh_real, is_int, is_num, is_real, is_z3,
                     to_z3)

LIB = {}
DOC = {}


def model(*names, doc=""):
    def deco(f):
        for n in names:
            LIB[n] = f
            DOC[n] = doc or (f.__doc__ or "").strip()
        return f
    return deco


def kw(args, kwargs, pos, name, default=None):
    if len(args) > pos:
        return args[pos]
    return kwargs.get(name, default)


# ---- builtins ------------------------------------------------------------------------------
@model("len", doc="len(x): number of elements")
def _len(ex, path, args, kwargs, node, fn):
    n = length(args[0])
    if is_z3(n):
        path.assume(n >= 0)
    return n


@model("range", doc="range(a[,b]): a..b-1, step 1 only")
def _range(ex, path, args, kwargs, node, fn):
    if len(args) == 1:
        lo, hi = 0, args[0]
    elif len(args) == 2:
        lo, hi = args
    else:
        if not (isinstance(args[2], int) and args[2] == 1):
            raise Unsupported("range with step")
        lo, hi = args[0], args[1]
    return Obj("range", {"lo": lo, "hi": hi})


@model("enumerate")
def _enumerate(ex, path, args, kwargs, node, fn):
    return Obj("enumerate", {"it": args[0]})


@model("zip")
def _zip(ex, path, args, kwargs, node, fn):
    return Obj("zip", {"its": list(args)})


@model("list", "tuple", doc="list(x)/tuple(x): same elements in the same order")
def _list(ex, path, args, kwargs, node, fn):
    is_tuple = isinstance(fn, NameRef) and fn.dotted == "tuple"
    if not args:
        return PyList([], None, is_tuple)
    v = args[0]
    if isinstance(v, PyList):
        return PyList(v.items, v.tail, is_tuple)
    if isinstance(v, PyDict):
        return PyList(list(v.keys), None, is_tuple)
    if isinstance(v, (Opaque, SymSeq, SliceOf)):
        return PyList([], v, is_tuple)
    items = ex.iter_concrete(v)
    if items is not None:
        return PyList(items, None, is_tuple)
    if isinstance(v, BoundMethod) or isinstance(v, Obj):
        raise Unsupported(f"list() of {v!r}")
    raise Unsupported(f"list() of {v!r}")


@model("dict")
def _dict(ex, path, args, kwargs, node, fn):
    d = PyDict()
    if args:
        if isinstance(args[0], PyDict):
            d = args[0].copy()
        else:
            raise Unsupported("dict(x)")
    for k, v in kwargs.items():
        d = d.set(k, v)
    return d


@model("set")
def _set(ex, path, args, kwargs, node, fn):
    v = args[0] if args else PyList([])
    if isinstance(v, PyList) and v.tail is None:
        out = []
        for x in v.items:
            if not any(val_eq(x, y) is True for y in out):
                out.append(x)
        return PyList(out)
    raise Unsupported("set()")


@model("int", doc="int(x): identity on ints; on a real: *some* integer (truncation is abstracted, sound)")
def _int(ex, path, args, kwargs, node, fn):
    v = args[0]
    if is_int(v):
        return v
    if isinstance(v, bool):
        return int(v)
    if is_real(v):
        r = fresh_int("int_of_real")
        vz = to_z3(v, "real")
        # truncation toward zero: |r| <= |v| and |v - r| < 1, same sign
        path.assume(z3.If(vz >= 0, z3.And(z3.ToReal(r) <= vz, vz < z3.ToReal(r) + 1),
                          z3.And(z3.ToReal(r) >= vz, vz > z3.ToReal(r) - 1)))
        return r
    if isinstance(v, Opaque):
        r = fresh_int("int_of")
        return r
    raise Unsupported(f"int({v!r})")


@model("float")
def _float(ex, path, args, kwargs, node, fn):
    v = args[0]
    if isinstance(v, str):
        raise Unsupported("float(str)")
    return to_z3(v, "real") if is_z3(v) else v


@model("bool")
def _bool(ex, path, args, kwargs, node, fn):
    return truth(args[0])


@model("abs", "numpy.abs", "fabs")
def _abs(ex, path, args, kwargs, node, fn):
    v = args[0]
    if isinstance(v, Arr):
        r = Arr(v.shape, lambda *k: z3.If(v.at(*k) >= 0, v.at(*k), -v.at(*k)), v.dtype)
        r.facts = list(getattr(v, "facts", []))
        return r
    if not is_z3(v):
        return abs(v)
    return z3.If(v >= 0, v, -v)


@model("min")
def _min(ex, path, args, kwargs, node, fn):
    if len(args) == 1:
        items = ex.iter_concrete(args[0])
        if items is None:
            raise Unsupported("min of symbolic iterable")
        args = items
    r = args[0]
    for x in args[1:]:
        r = z_min(r, x)
    return r


@model("max")
def _max(ex, path, args, kwargs, node, fn):
    if len(args) == 1:
        items = ex.iter_concrete(args[0])
        if items is None:
            raise Unsupported("max of symbolic iterable")
        args = items
    r = args[0]
    for x in args[1:]:
        r = z_max(r, x)
    return r


@model("divmod", doc="divmod(a, b) == (a // b, a % b) (same encoding and the same positive-divisor obligation as the two operators)")
def _divmod(ex, path, args, kwargs, node, fn):
    a, b = args
    line = getattr(node, "lineno", None)
    return PyList([arith(ast.FloorDiv(), a, b, ex.ctx, path, line), arith(ast.Mod(), a, b, ex.ctx, path, line)], None, True)


@model("isinstance")
def _isinstance(ex, path, args, kwargs, node, fn):
    v, t = args
    ts = t.items if isinstance(t, PyList) else [t]
    names = [x.dotted if isinstance(x, NameRef) else str(x) for x in ts]
    return type_test(v, names)


def type_test(v, names):
    short = [n.split(".")[-1] for n in names]
    if isinstance(v, Obj):
        if getattr(v, "type_pred", None) is not None:
            return v.type_pred(short)
        return v.cls.split(".")[-1] in short or any(b in short for b in getattr(v, "bases", ()))
    if isinstance(v, Opaque):
        tp = getattr(v, "type_pred", None)
        if tp is not None:
            return tp(short)
        from .symexec import CFG_MODE
        if CFG_MODE[0]:
            cache = v.__dict__.setdefault("_isinst", {})
            key = tuple(sorted(short))
            if key not in cache:
                cache[key] = fresh_bool(f"{v.tag}.isinstance_{'_'.join(short)}")
            return cache[key]
        raise Unsupported(f"isinstance on untyped opaque {v!r}")
    if isinstance(v, bool):
        return "bool" in short or "int" in short
    if is_int(v):
        return "int" in short
    if is_real(v):
        return "float" in short
    if isinstance(v, str):
        return "str" in short
    if isinstance(v, PyList):
        return ("tuple" if v.is_tuple else "list") in short
    if isinstance(v, (SymSeq,)):
        return "list" in short
    if isinstance(v, Arr):
        return "ndarray" in short
    if isinstance(v, SliceOf):
        return type_test(v.base, names)        # a[lo:hi] has the type of a
    if isinstance(v, SliceV):
        return "slice" in short
    if isinstance(v, PyDict):
        return "dict" in short
    if v is None:
        return False
    raise Unsupported(f"isinstance({v!r}, {names})")


@model("hasattr")
def _hasattr(ex, path, args, kwargs, node, fn):
    v, a = args
    if isinstance(v, Obj):
        if "__hasattr__" in v.fields:
            return v.fields["__hasattr__"](a)
        return a in v.fields
    if isinstance(v, PyDict):
        return a in ("keys", "items", "values", "get")
    if isinstance(v, (PyList, SymSeq)):
        return a in ("append", "index")
    if isinstance(v, Opaque) and getattr(v, "hasattr_pred", None):
        return v.hasattr_pred(a)
    raise Unsupported(f"hasattr({v!r}, {a!r})")


@model("getattr")
def _getattr(ex, path, args, kwargs, node, fn):
    v, a = args[0], args[1]
    if isinstance(v, Obj) and a in v.fields:
        return v.fields[a]
    if len(args) > 2:
        return args[2]
    raise Unsupported(f"getattr({v!r}, {a!r})")


@model("slice")
def _slice(ex, path, args, kwargs, node, fn):
    if len(args) == 1:
        return SliceV(None, args[0], None)
    if len(args) == 2:
        return SliceV(args[0], args[1], None)
    return SliceV(*args)


@model("type")
def _type(ex, path, args, kwargs, node, fn):
    return "<type>"


@model("<PyDict>.keys")
def _keys(ex, path, args, kwargs, node, fn):
    return PyList(list(args[0].keys))


@model("<PyDict>.items")
def _items(ex, path, args, kwargs, node, fn):
    d = args[0]
    return PyList([PyList([k, d.vals[k]], None, True) for k in d.keys])


@model("<PyDict>.values")
def _values(ex, path, args, kwargs, node, fn):
    d = args[0]
    return PyList([d.vals[k] for k in d.keys])


@model("<PyDict>.get")
def _dget(ex, path, args, kwargs, node, fn):
    d, k = args[0], args[1]
    default = args[2] if len(args) > 2 else None
    return d.vals.get(k, default)


@model("<PyDict>.copy")
def _dcopy(ex, path, args, kwargs, node, fn):
    return args[0].copy()


@model("<str>.format", "<str>.join")
def _fmt(ex, path, args, kwargs, node, fn):
    if fn.name == "format" and all(isinstance(a, (str, int)) and not isinstance(a, bool) for a in args[1:]) and not kwargs:
        try:
            return args[0].format(*args[1:])
        except (IndexError, KeyError, ValueError):
            pass
    return "<string>"


# ---- math / numpy scalars ---------------------------------------------------------------------
def _elementwise(fun):
    def m(ex, path, args, kwargs, node, fn):
        v = args[0]
        if isinstance(v, Arr):
            r = Arr(v.shape, lambda *k: fun(to_z3(v.at(*k), "real")), "real")
            r.facts = list(getattr(v, "facts", []))
            return r
        return fun(to_z3(v, "real"))
    return m


LIB["numpy.exp"] = LIB["exp"] = LIB["math.exp"] = _elementwise(EXP)
LIB["numpy.log"] = LIB["log"] = LIB["math.log"] = LIB["pytensor.tensor.log"] = _elementwise(LOG)
LIB["numpy.sqrt"] = LIB["sqrt"] = LIB["math.sqrt"] = LIB["pytensor.tensor.sqrt"] = _elementwise(SQRT)
LIB["numpy.cos"] = LIB["cos"] = _elementwise(COS)
LIB["numpy.sin"] = LIB["sin"] = _elementwise(SIN)
for _n in ("numpy.exp", "numpy.log", "numpy.sqrt", "numpy.cos", "numpy.sin"):
    DOC[_n] = "uninterpreted real function (S3); only the axioms listed in contracts/axioms.py are available"


@model("pow")
def _pow(ex, path, args, kwargs, node, fn):
    return POW(to_z3(args[0], "real"), to_z3(args[1], "real"))


# ---- numpy arrays --------------------------------------------------------------------------------
@model("numpy.zeros", "numpy.ones", "numpy.full", doc="fresh array of the given shape filled with a constant")
def _zeros(ex, path, args, kwargs, node, fn):
    shp = args[0]
    shape = list(shp.items) if isinstance(shp, PyList) else [shp]
    name = fn.dotted.split(".")[-1]
    if name == "full":
        fill = args[1]
        if isinstance(fill, NameRef) and fill.dotted == "numpy.nan":
            f = fresh_real("nan")
            fill = f
    else:
        fill = 0 if name == "zeros" else 1
    dt = kwargs.get("dtype")
    dtype = "real"
    if isinstance(dt, NameRef) and dt.dotted in ("int", "numpy.int32", "numpy.int64"):
        dtype = "int"
    if isinstance(dt, str) and dt.startswith("i"):
        dtype = "int"
    fv = to_z3(fill, "real" if dtype == "real" else None)
    return Arr(shape, lambda *k: fv, dtype)


@model("numpy.array", "numpy.asarray", "numpy.ascontiguousarray", "numpy.atleast_1d",
       doc="identity on the values of an array argument; list -> array of the same elements")
def _array(ex, path, args, kwargs, node, fn):
    v = args[0]
    if isinstance(v, Arr):
        return v
    if isinstance(v, Obj) and v.cls in ("Quantity", "Time"):
        return v
    if isinstance(v, PyList) and v.tail is None:
        if not v.items:
            return Arr([0], lambda k: z3.RealVal(0), "real")
        if all(is_num(x) for x in v.items):
            real = any(is_real(x) for x in v.items)
            items = [to_z3(x, "real" if real else None) for x in v.items]

            def at(k, items=items):
                r = items[-1]
                for i in range(len(items) - 2, -1, -1):
                    r = z3.If(to_z3(k) == i, items[i], r)
                return r
            return Arr([len(items)], at, "real" if real else "int")
    if isinstance(v, (SymSeq, SliceOf)):
        return Arr([length(v)], lambda k: index(v, k), "int")
    raise Unsupported(f"np.array({v!r})")


@model("numpy.arange", doc="arange(a,b,1)[k] = a+k, length max(b-a,0)")
def _arange(ex, path, args, kwargs, node, fn):
    if len(args) == 1:
        lo, hi = 0, args[0]
    else:
        lo, hi = args[0], args[1]
        if len(args) > 2 and not (isinstance(args[2], int) and args[2] == 1):
            raise Unsupported("arange step")
    n = z_max(arith(ast.Sub(), hi, lo), 0)
    a = Arr([n], lambda k: arith(ast.Add(), lo, k), "int", "arange")
    a.injective = True
    return a


@model("numpy.where", doc="where(mask) -> (idx,): strictly increasing; range = exactly the true positions")
def _where(ex, path, args, kwargs, node, fn):
    if len(args) != 1:
        raise Unsupported("3-argument where")
    w = where_of(args[0])
    path.assume(*w.facts)
    return PyList([w], None, True)


@model("numpy.concatenate", doc="concatenate((a,b)): a then b")
def _concat(ex, path, args, kwargs, node, fn):
    seq = args[0]
    if isinstance(seq, PyList) and seq.tail is None and len(seq.items) == 2 and all(isinstance(x, Arr) and x.ndim == 1 for x in seq.items):
        a, b = seq.items
        # concatenate is a function: the same operands give the same array (functional consistency)
        cache = path.ghost.setdefault("concat_cache", {}) if path is not None else {}
        if (id(a), id(b)) in cache:
            return cache[(id(a), id(b))][2]
        r_ = _concat_pair(a, b)
        cache[(id(a), id(b))] = (a, b, r_)
        return r_
    raise Unsupported(f"np.concatenate({seq!r})")


def _concat_pair(a, b):
    if True:
        na = a.shape[0]
        dt = "real" if "real" in (a.dtype, b.dtype) else a.dtype
        r = Arr([arith(ast.Add(), na, b.shape[0])],
                lambda k: z3.If(to_z3(k) < to_z3(na), to_z3(a.at(k), "real" if dt == "real" else None),
                                to_z3(b.at(to_z3(k) - to_z3(na)), "real" if dt == "real" else None)), dt)
        r.facts = list(getattr(a, "facts", [])) + list(getattr(b, "facts", []))
        return r


def amax_of(ex, path, a, tag="amax"):
    """max of a non-empty 1-D real array: upper bound and attained (ghost witness argmax)."""
    if a.ndim != 1:
        raise Unsupported("max of n-d array")
    m = fresh_real(tag) if a.dtype == "real" else fresh_int(tag)
    w = fresh_int(tag + "_at")
    k = z3.Int(fresh_name("k"))
    n = a.shape[0]
    path.assume(q_forall([k], b_and(0 <= k, k < n), a.at(k) <= m, pats=None), 0 <= w, w < n, a.at(w) == m)
    a_w = getattr(path, "witness", None)
    path.ghost.setdefault("amax", []).append((m, w, a))
    return m


@model("<Arr>.max", "numpy.max", "numpy.amax", doc="x.max(): an element of x that bounds all elements (x non-empty)")
def _amax(ex, path, args, kwargs, node, fn):
    a = args[0]
    ex.ctx.vc(f"max-of-nonempty@{node.lineno}", path, to_z3(a.shape[0]) >= 1, "defined", node.lineno)
    return amax_of(ex, path, a)


@model("<Arr>.astype")
def _astype(ex, path, args, kwargs, node, fn):
    return args[0]


@model("<Arr>.sum", "numpy.sum", doc="x.sum(): Sum(x, n) with Sum(x,0)=0, Sum(x,k+1)=Sum(x,k)+x[k]; two sums over pointwise equal "
                                     "terms are equal (sum congruence, Lean: Finset.sum_congr)")
def _sum(ex, path, args, kwargs, node, fn):
    a = args[0]
    if isinstance(a, Obj) and a.cls == "Quantity":
        a0, u_ = _unwrap_q(a)
        return _rewrap(_sum(ex, path, [a0], kwargs, node, fn), u_)
    if a.ndim != 1:
        raise Unsupported("sum of n-d")
    if kwargs.get("axis") not in (None, -1, 0):
        raise Unsupported("sum over an axis")
    from .symexec import make_sum
    term = (lambda j: z3.If(a.at(j), z3.RealVal(1), z3.RealVal(0))) if a.dtype == "bool" else (lambda j: to_z3(a.at(j), "real"))
    n = to_z3(a.shape[0])
    total = make_sum(term, n, path)                     # canonical: the same summand expression denotes the same Sum function
    k = z3.Int(fresh_name("k"))
    if a.dtype == "bool":
        # a count lies between 0 and the number of terms (consequence of the recursion; stated to spare the solver an induction)
        path.assume(z3.And(total >= 0, total <= z3.ToReal(n)))
    # sum congruence (Lean: Finset.sum_congr): sums of pointwise equal terms over the same range are equal
    sums = path.ghost.setdefault("sums", [])
    for (term2, total2, n2) in sums:
        j = z3.Int(fresh_name("j"))
        path.assume(z3.Implies(z3.And(n == n2, q_forall([j], b_and(0 <= j, j < n), term(j) == term2(j))), total == total2))
    sums.append((term, total, n))
    if a.dtype == "int":
        r = fresh_int("isum")
        path.assume(z3.ToReal(r) == total)
        return r
    return total


@model("numpy.any")
def _any(ex, path, args, kwargs, node, fn):
    a = args[0]
    k = z3.Int(fresh_name("k"))
    return q_exists([k], b_and(0 <= k, k < a.shape[0]), a.at(k))


FINITE = z3.Function("finite", z3.RealSort(), z3.BoolSort())


@model("numpy.isfinite", doc="isfinite(x): elementwise uninterpreted predicate `finite` of the value (S2: reals carry no NaN/Inf, "
                             "so finiteness of an *input* value is a ghost fact; both outcomes stay reachable)")
def _isfinite(ex, path, args, kwargs, node, fn):
    a = args[0]
    if isinstance(a, Obj) and a.cls == "Quantity":
        a = a.fields["value"]
    fin = getattr(a, "finite", None)
    if fin is not None:
        return Arr(a.shape, lambda *k: fin(*k), "bool")
    if isinstance(a, Arr):
        r = Arr(a.shape, lambda *k: FINITE(to_z3(a.at(*k), "real")), "bool")
        r.facts = list(getattr(a, "facts", []))
        return r
    return FINITE(to_z3(a, "real"))


for _exc in ("RuntimeError", "ValueError", "TypeError", "Exception", "OSError", "NotImplementedError", "KeyError"):
    def _mk(ex, path, args, kwargs, node, fn, _exc=_exc):
        return Obj(_exc, {"is_exception": True, "cls_name": _exc})
    LIB[_exc] = _mk
    DOC[_exc] = "exception constructor: an object of that exception class"


def install(ctx_lib):
    ctx_lib.update(LIB)
    return ctx_lib


# ---- spec-only helpers ---------------------------------------------------------------------------
@model("slice_lo")
def _slice_lo(ex, path, args, kwargs, node, fn):
    return args[0].lo


@model("slice_hi")
def _slice_hi(ex, path, args, kwargs, node, fn):
    return args[0].hi


@model("slice_base")
def _slice_base(ex, path, args, kwargs, node, fn):
    return args[0].base


# ---- more numpy ------------------------------------------------------------------------------------------------------------
def _unwrap_q(v):
    if isinstance(v, Obj) and v.cls == "Quantity":
        return v.fields["value"], v.fields["unit"]
    return v, None


def _rewrap(v, u_):
    if u_ is None:
        return v
    from contracts.astromodel import quantity
    return quantity(v, u_)


def amin_of(ex, path, a, tag="amin"):
    m = fresh_real(tag) if a.dtype == "real" else fresh_int(tag)
    w = fresh_int(tag + "_at")
    k = z3.Int(fresh_name("k"))
    n = a.shape[0]
    path.assume(q_forall([k], b_and(0 <= k, k < n), a.at(k) >= m), 0 <= w, w < n, a.at(w) == m)
    return m


@model("<Arr>.min", "numpy.min", "numpy.amin", doc="x.min(): an element of x that is <= all elements (x non-empty)")
def _amin(ex, path, args, kwargs, node, fn):
    a, u_ = _unwrap_q(args[0])
    if node is not None:
        ex.ctx.vc(f"min-of-nonempty@{node.lineno}", path, to_z3(a.shape[0]) >= 1, "defined", node.lineno)
    return _rewrap(amin_of(ex, path, a), u_)


@model("numpy.argmax", doc="argmax(x): index of a maximal element (the first one)")
def _argmax(ex, path, args, kwargs, node, fn):
    a, u_ = _unwrap_q(args[0])
    ex.ctx.vc(f"argmax-of-nonempty@{node.lineno}", path, to_z3(a.shape[0]) >= 1, "defined", node.lineno)
    w = fresh_int("argmax")
    k = z3.Int(fresh_name("k"))
    n = a.shape[0]
    path.assume(0 <= w, w < n, q_forall([k], b_and(0 <= k, k < n), a.at(k) <= a.at(w)),
                q_forall([k], b_and(0 <= k, k < w), a.at(k) < a.at(w)))
    return w


@model("numpy.sort", doc="sort(x): a non-decreasing rearrangement of x (ghost permutation perm with inverse)")
def _sort(ex, path, args, kwargs, node, fn):
    a, u_ = _unwrap_q(args[0])
    if a.ndim != 1:
        raise Unsupported("sort of n-d array")
    n = a.shape[0]
    perm = fresh_fn("perm", z3.IntSort(), z3.IntSort())
    inv = fresh_fn("perm_inv", z3.IntSort(), z3.IntSort())
    r = Arr([n], lambda k: a.at(perm(to_z3(k))), a.dtype, "sorted")
    k = z3.Int(fresh_name("k"))
    i = z3.Int(fresh_name("i"))
    r.facts = list(getattr(a, "facts", [])) + [
        q_forall([k], b_and(0 <= k, k < n), b_and(0 <= perm(k), perm(k) < n, inv(perm(k)) == k), pats=[perm(k)]),
        q_forall([i], b_and(0 <= i, i < n), b_and(0 <= inv(i), inv(i) < n, perm(inv(i)) == i), pats=[inv(i)]),
        q_forall([k], b_and(0 <= k, k < n - 1), a.at(perm(k)) <= a.at(perm(k + 1)), pats=[perm(k)]),
    ]
    r.perm, r.perm_inv, r.sorted_from = perm, inv, a
    path.assume(*r.facts)
    return _rewrap(r, u_)


_prev_concat = LIB["numpy.concatenate"]


@model("numpy.concatenate", doc="concatenate((a,b)): a then b (units: both operands in the first one's unit)")
def _concat_q(ex, path, args, kwargs, node, fn):
    seq = args[0]
    if isinstance(seq, PyList) and seq.tail is None and any(isinstance(x, Obj) and x.cls == "Quantity" for x in seq.items):
        from contracts.astromodel import qval
        u0 = seq.items[0].fields["unit"]
        vals = [qval(x, u0) for x in seq.items]
        return _rewrap(_prev_concat(ex, path, [PyList(vals, None, True)], kwargs, node, fn), u0)
    return _prev_concat(ex, path, args, kwargs, node, fn)


@model("numpy.linspace", doc="linspace(a, b, n)[k] = a + k*(b-a)/(n-1)")
def _linspace(ex, path, args, kwargs, node, fn):
    a, b, n = args[0], args[1], args[2]
    nz = to_z3(n)
    r = Arr([n], lambda k: to_z3(a, "real") + z3.ToReal(to_z3(k)) * (to_z3(b, "real") - to_z3(a, "real")) / z3.ToReal(nz - 1), "real", "linspace")
    return r


@model("numpy.histogram", doc="histogram(x, bins=edges) -> (H, edges): H[j] = #{i : edges[j] <= x[i] < edges[j+1]} (last bin closed on "
                              "the right); stated through H[j] > 0 <=> some x[i] lies in bin j, and H[j] >= 0")
def _histogram(ex, path, args, kwargs, node, fn):
    x, _u = _unwrap_q(args[0])
    edges = kwargs.get("bins", args[1] if len(args) > 1 else None)
    if not isinstance(edges, Arr):
        raise Unsupported("histogram with an integer bin count")
    nb = to_z3(edges.shape[0]) - 1
    H = fresh_arr("hist", 1, "int", [nb])
    wit = fresh_fn("hist_wit", z3.IntSort(), z3.IntSort())
    j, i = z3.Int(fresh_name("j")), z3.Int(fresh_name("i"))

    def inbin(xi, jj):
        return z3.And(edges.at(jj) <= xi, z3.If(jj == nb - 1, xi <= edges.at(jj + 1), xi < edges.at(jj + 1)))
    H.inbin = inbin
    H.hist_of = x
    H.edges = edges
    facts = [q_forall([j], b_and(0 <= j, j < nb), H.at(j) >= 0, pats=[H.at(j)]),
             q_forall([j], b_and(0 <= j, j < nb, H.at(j) > 0), b_and(0 <= wit(j), wit(j) < x.shape[0], inbin(x.at(wit(j)), j)), pats=[H.at(j)]),
             q_forall([j, i], b_and(0 <= j, j < nb, 0 <= i, i < x.shape[0], inbin(x.at(i), j)), H.at(j) > 0)]
    H.facts = facts
    path.assume(*facts)
    return PyList([H, edges], None, True)


@model("<Arr>.argsort", "numpy.argsort", doc="argsort(x): a permutation p of 0..n-1 with x[p[k]] <= x[p[k+1]] (tie order unspecified; "
                                              "deterministic: two calls on the same array agree)")
def _argsort(ex, path, args, kwargs, node, fn):
    a, _u = _unwrap_q(args[0])
    if a.ndim != 1:
        raise Unsupported("argsort of n-d array")
    cache = path.ghost.setdefault("argsort_cache", {})
    if id(a) in cache:
        return cache[id(a)][1]
    n = a.shape[0]
    perm = fresh_fn("argsort", z3.IntSort(), z3.IntSort())
    inv = fresh_fn("argsort_inv", z3.IntSort(), z3.IntSort())
    r = Arr([n], lambda k: perm(to_z3(k)), "int", "argsort")
    k = z3.Int(fresh_name("k"))
    i = z3.Int(fresh_name("i"))
    r.facts = list(getattr(a, "facts", [])) + [
        q_forall([k], b_and(0 <= k, k < n), b_and(0 <= perm(k), perm(k) < n, inv(perm(k)) == k), pats=[perm(k)]),
        q_forall([i], b_and(0 <= i, i < n), b_and(0 <= inv(i), inv(i) < n, perm(inv(i)) == i), pats=[inv(i)]),
        q_forall([k], b_and(0 <= k, k < n - 1), a.at(perm(k)) <= a.at(perm(k + 1)), pats=[perm(k)]),
    ]
    r.perm_inv = inv
    r.injective = True
    path.assume(*r.facts)
    cache[id(a)] = (a, r)
    return r


@model("<Arr>.all", doc="x.all(axis=0) of a 2-d bool array: column-wise conjunction")
def _all_axis(ex, path, args, kwargs, node, fn):
    a = args[0]
    ax = kwargs.get("axis", args[1] if len(args) > 1 else None)
    if a.ndim == 2 and ax == 0:
        i = z3.Int(fresh_name("i"))
        return Arr([a.shape[1]], lambda c: q_forall([i], b_and(0 <= i, i < a.shape[0]), a.at(i, c)), "bool")
    if a.ndim == 1 and ax is None:
        i = z3.Int(fresh_name("i"))
        return q_forall([i], b_and(0 <= i, i < a.shape[0]), a.at(i))
    raise Unsupported("all() with this axis")


@model("numpy.all")
def _np_all(ex, path, args, kwargs, node, fn):
    v = args[0]
    if isinstance(v, Arr):
        return _all_axis(ex, path, [v], kwargs, node, fn)
    from .symexec import truth as _t
    return _t(v)


@model("numpy.diag", doc="diag(v): the diagonal matrix of a 1-d array")
def _diag(ex, path, args, kwargs, node, fn):
    a = args[0]
    if a.ndim == 1:
        zero = z3.RealVal(0) if a.dtype == "real" else z3.IntVal(0)
        return Arr([a.shape[0], a.shape[0]], lambda i, j: z3.If(to_z3(i) == to_z3(j), a.at(i), zero), a.dtype)
    raise Unsupported("diag of a matrix")


# ---- more numpy (C08 / C01 design matrix) ------------------------------------------------------------------------------------
_prev_argsort = LIB["<Arr>.argsort"]


@model("<Arr>.argsort", "numpy.argsort", doc="argsort(x[, kind='stable']): a sorting permutation; with kind='stable' equal elements keep their "
                                              "input order, hence the stable argsort of a non-decreasing array is the identity")
def _argsort_kind(ex, path, args, kwargs, node, fn):
    r = _prev_argsort(ex, path, args, kwargs, node, fn)
    if kwargs.get("kind") == "stable" and not getattr(r, "stable_done", False):
        a, _u = _unwrap_q(args[0])
        n = a.shape[0]
        k = z3.Int(fresh_name("k"))
        j = z3.Int(fresh_name("j"))
        facts = [q_forall([k], b_and(0 <= k, k < n - 1, a.at(r.at(k)) == a.at(r.at(k + 1))), r.at(k) < r.at(k + 1), pats=[r.at(k)]),
                 z3.Implies(q_forall([j], b_and(0 <= j, j < n - 1), a.at(j) <= a.at(j + 1)),
                            q_forall([k], b_and(0 <= k, k < n), r.at(k) == k, pats=[r.at(k)]))]
        r.facts = list(r.facts) + facts
        r.stable_done = True
        path.assume(*facts)
    return r


_IPOW = z3.Function("ipow", z3.RealSort(), z3.IntSort(), z3.RealSort())


def ipow_axioms():
    x = z3.Real("x!ip")
    c = z3.Int("c!ip")
    return [z3.ForAll([x], _IPOW(x, 0) == 1), z3.ForAll([x], _IPOW(x, 1) == x),
            z3.ForAll([x, c], z3.Implies(c >= 0, _IPOW(x, c + 1) == _IPOW(x, c) * x), patterns=[_IPOW(x, c + 1)])]


@model("numpy.vander", doc="vander(x, N, increasing=True)[r, c] = x[r]**c (integer power: ipow(x,0)=1, ipow(x,c+1)=ipow(x,c)*x)")
def _vander(ex, path, args, kwargs, node, fn):
    x = args[0]
    N = kwargs.get("N", args[1] if len(args) > 1 else None)
    if kwargs.get("increasing") is not True or N is None:
        raise Unsupported("vander without increasing=True / N")
    path.assume(*ipow_axioms())
    return Arr([x.shape[0], N], lambda r, c: _IPOW(to_z3(x.at(r), "real"), to_z3(c)), "real", "vander")


@model("ipow_", doc="spec: x**c for a natural number c")
def _ipow_spec(ex, path, args, kwargs, node, fn):
    return _IPOW(to_z3(args[0], "real"), to_z3(args[1]))


@model("numpy.hstack", doc="hstack((A, B)): columns of A then columns of B")
def _hstack(ex, path, args, kwargs, node, fn):
    seq = args[0]
    if not isinstance(seq, PyList) or seq.tail is not None or len(seq.items) < 1 or not all(isinstance(x, Arr) and x.ndim == 2 for x in seq.items):
        raise Unsupported("hstack of something other than a fixed sequence of matrices")

    def two(A, B):
        na = A.shape[1]
        return Arr([A.shape[0], arith_add(na, B.shape[1])],
                   lambda r, c: z3.If(to_z3(c) < to_z3(na), to_z3(A.at(r, c), "real"), to_z3(B.at(r, to_z3(c) - to_z3(na)), "real")), "real", "hstack")
    out = seq.items[0]
    for nxt in seq.items[1:]:
        out = two(out, nxt)
    return out


def arith_add(a, b):
    from .symexec import arith as _ar
    return _ar(ast.Add(), a, b)


@model("numpy.unique", doc="unique(x): the distinct values of x in increasing order (ghost: index of each value, a witness position of each)")
def _unique(ex, path, args, kwargs, node, fn):
    a = args[0]
    cache = path.ghost.setdefault("unique_cache", {})
    if id(a) in cache:
        return cache[id(a)][1]
    m = fresh_int("n_unique")
    uq = fresh_fn("unique", z3.IntSort(), z3.IntSort() if a.dtype == "int" else z3.RealSort())
    where_ = fresh_fn("unique_at", z3.IntSort(), z3.IntSort())      # a position in x holding unique[j]
    slot = fresh_fn("unique_slot", z3.IntSort(), z3.IntSort())      # the slot j of x[i]
    j, j2, i = z3.Int(fresh_name("j")), z3.Int(fresh_name("j")), z3.Int(fresh_name("i"))
    n = a.shape[0]
    r = Arr([m], lambda k: uq(to_z3(k)), a.dtype, "unique")
    r.facts = list(getattr(a, "facts", [])) + [
        m >= 0, m <= n, z3.Implies(n >= 1, m >= 1),
        q_forall([j, j2], b_and(0 <= j, j < j2, j2 < m), uq(j) < uq(j2), pats=[z3.MultiPattern(uq(j), uq(j2))]),
        q_forall([j], b_and(0 <= j, j < m), b_and(0 <= where_(j), where_(j) < n, a.at(where_(j)) == uq(j)), pats=[uq(j)]),
        q_forall([i], b_and(0 <= i, i < n), b_and(0 <= slot(i), slot(i) < m, uq(slot(i)) == a.at(i)), pats=[a.at(i)]),
    ]
    r.slot = slot
    path.assume(*r.facts)
    cache[id(a)] = (a, r)
    return r


_prev_concat3 = LIB["numpy.concatenate"]


@model("numpy.concatenate", doc="concatenate((a, b, ...)): the arrays one after the other")
def _concat_n(ex, path, args, kwargs, node, fn):
    seq = args[0]
    if isinstance(seq, PyList) and seq.tail is None and len(seq.items) >= 1 and all(isinstance(x, (Arr, SymSeq)) for x in seq.items):
        items = [x if isinstance(x, Arr) else Arr([x.length], (lambda k, x=x: x.elem(k)), "int") for x in seq.items]
        r = items[0]
        for nxt in items[1:]:
            r = _prev_concat3(ex, path, [PyList([r, nxt], None, True)], kwargs, node, fn)
        return r
    return _prev_concat3(ex, path, args, kwargs, node, fn)


LIB["numpy.pi"] = PI
DOC["numpy.pi"] = "the real constant pi (only the facts of lemmas/Axioms.lean are available)"


@model("numpy.squeeze", doc="squeeze(x): same values (only length-1 axes are dropped)")
def _squeeze(ex, path, args, kwargs, node, fn):
    return args[0]


@model("collections.OrderedDict", "OrderedDict", "thejoker.samples.OrderedDict")
def _odict(ex, path, args, kwargs, node, fn):
    if not args:
        return PyDict()
    a = args[0]
    if isinstance(a, PyList) and a.tail is None and all(isinstance(p, PyList) and p.tail is None and len(p.items) == 2 for p in a.items):
        d = PyDict()        # OrderedDict(iterable of (key, value) pairs): insertion order = iteration order
        for p in a.items:
            d = d.set(p.items[0], p.items[1])
        return d
    return a.copy()


@model("numpy.stack", doc="stack([a0, a1, ...], axis=1)[r, c] = a_c[r]")
def _stack(ex, path, args, kwargs, node, fn):
    seq = args[0]
    if kwargs.get("axis") != 1 or not (isinstance(seq, PyList) and seq.tail is None and seq.items):
        raise Unsupported("np.stack other than a list along axis=1")
    items = list(seq.items)
    n = items[0].shape[0]

    def at(r, c, items=items):
        out = to_z3(items[-1].at(r), "real")
        for i in range(len(items) - 2, -1, -1):
            out = z3.If(to_z3(c) == i, to_z3(items[i].at(r), "real"), out)
        return out
    a = Arr([n, len(items)], at, "real", "stacked")
    a.columns = items
    return a


@model("<PyList>.index")
def _list_index(ex, path, args, kwargs, node, fn):
    lst, x = args[0], args[1]
    for i, it in enumerate(lst.items):
        if val_eq(it, x) is True:
            return i
    raise Unsupported("list.index of an element that is not syntactically present")


@model("<PyList>.copy", "<PyList>.keys")
def _list_copy(ex, path, args, kwargs, node, fn):
    return args[0]
