"""setup helper: check every Lean lemma file once and record its hash in lemmas/.cache.json"""
import glob, importlib, os, sys
from . import main as M

class _Mod: pass
m = _Mod()
m.LEMMAS = sorted(os.path.basename(p) for p in glob.glob(os.path.join(M.ROOT, "lemmas", "*.lean")))
if m.LEMMAS:
    for r in M.run_lean(m, "thorough"):
        print("lean", r["file"], "ok" if r["ok"] else "FAILED", r.get("seconds"), r.get("msg", "")[-300:])
