"""depyx: mechanical, line-number-preserving rewrite of the Cython kernel source into plain Python
text that `ast` can parse.  The rule list below is the complete statement of what is dropped
(DESIGN 2.2): cimport lines, `cdef extern` blocks, C type declarations (types are recorded, not lost:
see ctypes()), `cdef`/`cpdef` keywords, np.import_array()/import cython; `&x` becomes `~x`.
Nothing else in the text is changed and no line moves."""
import re

CT = r'(?:unsigned\s+)?(?:double|int|long|float|char\s*\*|char|object|void|bint|size_t)(?:\s*\[[^\]]*\])?'

def depyx(text):
    src = text.split('\n'); out = []; block = None; extern = None; cont = 0
    ind = lambda s: len(s) - len(s.lstrip())
    def strip_decl(s, base):
        m = re.match(r'^(\s*)(?:cdef\s+)?(?:public\s+)?(' + CT + r')\s+(.*)$', s)
        if not m: return None
        rest = m.group(3)
        if '=' in rest and not re.match(r'^\w+(\s*,\s*\w+)*\s*$', rest):
            return ' '*base + rest, rest.count('(')+rest.count('[')-rest.count(')')-rest.count(']')
        return '', 0
    for s in src:
        s = s.rstrip(); st = s.strip()
        if extern is not None:
            if st == '' or ind(s) > extern: out.append(''); continue
            extern = None
        if block is not None:
            if st == '': out.append(''); continue
            if ind(s) > block:
                if cont > 0:
                    out.append(' '*block + st); cont += st.count('(')+st.count('[')-st.count(')')-st.count(']'); continue
                if st.startswith('#'): out.append(' '*block + st); continue
                r = strip_decl(s, block); assert r is not None, s
                out.append(r[0]); cont = r[1]; continue
            block = None
        if st in ('np.import_array()', 'import cython'): out.append(''); continue
        if st.startswith('cimport ') or re.match(r'^from\s+\S+\s+cimport\s', st): out.append(''); continue
        if st.startswith('cdef extern'): extern = ind(s); out.append(''); continue
        if st == 'cdef:': block = ind(s); cont = 0; out.append(''); continue
        m = re.match(r'^(\s*)cdef class (\w+):', s)
        if m: out.append(f'{m.group(1)}class {m.group(2)}:'); continue
        m = re.match(r'^(\s*)(?:cdef|cpdef)\s+(?:' + CT + r'\s+)?(\w+)\((.*)$', s)
        if m: s = f'{m.group(1)}def {m.group(2)}({m.group(3)}'
        elif re.match(r'^\s*cdef\s', s):
            r = strip_decl(s, ind(s)); assert r is not None, s
            out.append(r[0]); continue
        if re.match(r'^\s*def\s', s):
            s = re.sub(r'(?<=[(,\s])(' + CT + r')\s+(?=\w+\s*[,)=])', '', s)
        elif re.match(r'^\s+(' + CT + r')\s+\w+\s*[,)]', s) and out and out[-1].rstrip().endswith(','):
            s = re.sub(r'^(\s+)(' + CT + r')\s+', r'\1', s)
        s = re.sub(r'(?<=[(,\s])&', '~', s)
        out.append(s)
    return '\n'.join(out)



def ctypes(text):
    """C types recorded from the declarations that depyx() blanks: {name: ctype} for class attributes,
    and per-function locals/params (flat map; names are unique enough in this kernel)."""
    types = {}
    for line in text.split('\n'):
        m = re.match(r'^\s*(?:cdef\s+)?(?:public\s+)?(' + CT + r')\s+(\w+)', line)
        if m and m.group(2) not in ('class',):
            types.setdefault(m.group(2), m.group(1).replace(' ', ''))
        for mm in re.finditer(r'(' + CT + r')\s+(\w+)\s*[,)=]', line):
            types.setdefault(mm.group(2), mm.group(1).replace(' ', ''))
    return types
