"""Engine self-test (thorough tier): the property's own check is run against scratch copies of /repo's *current working tree* with

  * each property-breaking change kept under seeded/<Cxx>-*/patch.diff applied  -> the check must NOT exit 0, and
  * each behaviour-preserving edit under selftest/neutral/<Cxx>-*.diff applied  -> the check must exit 0.

The scratch copies live under $VERIF_SCRATCH (default /var/tmp/thejoker-verif), outside /repo and /verif, and are removed as soon as the
run on them ends.  A patch that no longer applies to the working tree (because the tree was changed) is reported as skipped.
The self-test never produces a VIOLATION for /repo: a missed seeded change or an alarm on a neutral edit makes the run *undecided* (exit 2),
because it says the machinery is weak or brittle, not that /repo is wrong."""
import glob
import json
import os
import shutil
import subprocess
import time

ROOT = os.path.dirname(os.path.dirname(os.path.abspath(__file__)))
SCRATCH = os.environ.get("VERIF_SCRATCH", "/var/tmp/thejoker-verif")


def _copy_tree(repo, dst):
    if os.path.exists(dst):
        shutil.rmtree(dst, ignore_errors=True)
    os.makedirs(dst)
    shutil.copytree(os.path.join(repo, "thejoker"), os.path.join(dst, "thejoker"), ignore=shutil.ignore_patterns("__pycache__", "*.pyc"))
    for f in ("pyproject.toml", "setup.py", "setup.cfg"):
        if os.path.exists(os.path.join(repo, f)):
            shutil.copy2(os.path.join(repo, f), dst)


def _run_one(prop, repo, tag, patch, expect_zero):
    d = os.path.join(SCRATCH, f"selftest-{os.getpid()}-{tag}")
    out = d + "-out"
    rec = {"patch": os.path.relpath(patch, ROOT), "kind": "neutral" if expect_zero else "seeded"}
    try:
        _copy_tree(repo, d)
        ap = subprocess.run(["git", "apply", "--whitespace=nowarn", patch], cwd=d, capture_output=True, text=True)
        if ap.returncode != 0:
            rec.update(status="skipped", reason="patch does not apply to the current working tree: " + ap.stderr.strip()[-200:])
            return rec
        env = dict(os.environ, VERIF_REPO=d, VERIF_OUT_DIR=out, VERIF_SELFTEST="0")
        t0 = time.time()
        r = subprocess.run([os.path.join(ROOT, "bin/check"), prop, "--tier", "quick"], cwd=ROOT, env=env, capture_output=True, text=True, timeout=3000)
        lines = [l for l in r.stdout.split("\n") if l.startswith("VIOLATION") or "refuted/failed" in l or "UNDECIDED" in l]
        rec.update(exit=r.returncode, seconds=round(time.time() - t0, 1), lines=[l.replace(d, "<scratch>").replace(out, "<scratch-out>")[:240] for l in lines[:4]])
        if expect_zero:
            rec["status"] = "ok" if r.returncode == 0 else "false-alarm"
        else:
            rec["status"] = "detected" if r.returncode == 1 else ("undecided-only" if r.returncode == 2 else "MISSED" if r.returncode == 0 else "checker-error")
        return rec
    except Exception as e:      # noqa
        rec.update(status="error", reason=repr(e)[:300])
        return rec
    finally:
        shutil.rmtree(d, ignore_errors=True)
        shutil.rmtree(out, ignore_errors=True)


def run(prop, repo):
    if os.environ.get("VERIF_SELFTEST") == "0":
        return []
    jobs = []
    for p in sorted(glob.glob(os.path.join(ROOT, "seeded", f"{prop}-*", "patch.diff"))):
        jobs.append((os.path.basename(os.path.dirname(p)), p, False))
    for p in sorted(glob.glob(os.path.join(ROOT, "selftest", "neutral", f"{prop}-*.diff"))):
        jobs.append(("neutral-" + os.path.basename(p)[:-5], p, True))
    kind = os.environ.get("VERIF_SELFTEST_KIND")
    if kind:
        jobs = [j for j in jobs if j[2] == (kind == "neutral")]
    res = []
    for tag, p, ez in jobs:
        res.append(dict(_run_one(prop, repo, tag, p, ez), id=tag))
    try:
        os.rmdir(SCRATCH)
    except OSError:
        pass
    return res
