"""AST -> verification conditions.  Forward symbolic execution of one real function at a time
(function-modular: a call to a function under contract is replaced by that contract; a call to a
dependency uses its library contract from jvc.lib / contracts.lib_*; anything else is Unsupported).

Loops are cut with the inductive invariants given in the sidecar contract (init / preserve / exit),
so the VCs hold for all iteration counts.  Semantics assumed: DESIGN 2.3 (S1-S9).
"""
import ast
import itertools
from fractions import Fraction

import z3

from .values import (Arr, BoundMethod, Exc, NameRef, Obj, Opaque, PyDict, PyList, SliceOf, SliceV, SymSeq,
                     Unsupported, fresh_bool, fresh_fn, fresh_int, fresh_name, fresh_real, is_bool, is_int,
                     is_num, is_real, is_z3, map_leaves, merge_ite, to_z3, PyObj)


# --------------------------------------------------------------------------------------------
class VC:
    def __init__(self, name, hyps, goal, kind, line, fn, note=""):
        self.name, self.hyps, self.goal, self.kind, self.line, self.fn, self.note = name, hyps, goal, kind, line, fn, note
        self.extra = {}

    def __repr__(self):
        return f"VC({self.name})"


class Path:
    def __init__(self, env=None, pc=None):
        self.env = dict(env or {})
        self.pc = list(pc or [])
        self.status = "run"  # run | return | raise | break | continue
        self.ret = None
        self.exc = None
        self.ghost = {}

    def fork(self):
        p = Path(self.env, self.pc)
        p.status, p.ret, p.exc = self.status, self.ret, self.exc
        p.ghost = {k: (list(v) if isinstance(v, list) else dict(v) if isinstance(v, dict) else set(v) if isinstance(v, set) else v)
                   for k, v in self.ghost.items()}
        return p

    def child(self):
        """separate environment, but facts and ghost state created in the child are kept by the parent
        (used while evaluating sub-expressions: comprehensions, quantifier bodies, spec helper functions)."""
        p = Path(self.env, None)
        p.pc = self.pc
        p.ghost = self.ghost
        p.status, p.ret, p.exc = self.status, self.ret, self.exc
        return p

    def assume(self, *facts):
        for f in facts:
            if f is True:
                continue
            if f is False:
                f = z3.BoolVal(False)
            self.pc.append(f)


class Contract:
    """sidecar contract of one real function (DESIGN 2.4)."""

    def __init__(self, qual, prop, params=None, requires=(), ensures=None, invariants=None, defs=None, cases=None,
                 result=None, cover=(), raises=None, ghost_pre=None, notes="", modifies=None, exc_ensures=None,
                 assumes=(), body_ensures=None):
        self.qual = qual
        self.prop = prop
        self.params = params or {}          # name -> builder(ctx, path, name) or type string
        self.requires = list(requires)
        self.ensures = dict(ensures or {})
        self.invariants = invariants or {}  # loop ordinal -> {label: expr}
        self.defs = defs or {}              # spec helper functions  name -> (args, expr)
        self.cases = cases or [{}]          # list of {param: builder} alternatives (static case split)
        self.result = result                # builder(ctx, path, args) for call sites
        self.cover = list(cover)
        self.raises = raises
        self.ghost_pre = ghost_pre
        self.notes = notes
        self.modifies = modifies
        self.exc_ensures = dict(exc_ensures or {})  # label -> expr that must hold on every *raising* path
        self.assumes = list(assumes)
        self.body_ensures = body_ensures or {}   # loop ordinal -> {label: clause that holds at the end of every iteration}

    @property
    def short(self):
        return self.qual.split(".", 1)[1] if self.qual.startswith("thejoker.") else self.qual


KNOWN_PARAMS = {}      # qualname -> parameter names mentioned by the verified contracts of that function (filled by jvc/main.py)


class Ctx:
    def __init__(self, prop, lib, contracts=None, bounded=None):
        self.prop = prop
        self.lib = lib                      # dotted name -> model
        self.contracts = contracts or {}    # qualname -> Contract (callee contracts)
        self.vcs = []
        self.emit = True
        self.bounded = bounded
        self.fn = None
        self.contract = None
        self.loop_ord = 0
        self.aliases = {"np": "numpy", "u": "astropy.units", "tb": "tables", "pm": "pymc", "pt": "pytensor.tensor",
                        "xu": "thejoker.units"}
        self.trusted_used = set()
        self.prune = True
        self.fnshort = ""
        self.callee_hook = None

    def vc(self, label, path, goal, kind, line=None, note=""):
        if kind == "defined" and not getattr(self, "strict_defined", False):
            # partial correctness (S6): a library operation that is undefined here raises instead of returning,
            # so on the continuing path its definedness condition holds
            path.assume(goal)
            return
        if not self.emit:
            return
        if goal is True:
            goal = z3.BoolVal(True)
        if goal is False:
            goal = z3.BoolVal(False)
        name = f"{self.prop}/{self.fnshort}/{kind}/{label}"
        base, n = name, 1
        existing = {v.name for v in self.vcs}
        while name in existing:
            n += 1
            name = f"{base}#{n}"
        self.vcs.append(VC(name, list(path.pc), goal, kind, line, self.fnshort, note))


# --------------------------------------------------------------------------------------------
# generic operations on values

def truth(v):
    """Python truthiness -> python bool or z3 Bool."""
    if isinstance(v, bool):
        return v
    if v is None:
        return False
    if is_z3(v):
        if v.sort() == z3.BoolSort():
            return v
        return v != 0
    if isinstance(v, (int, float, Fraction)):
        return v != 0
    if isinstance(v, str):
        return len(v) > 0
    if isinstance(v, PyList):
        if v.tail is None:
            return len(v.items) > 0
        return True if v.items else length(v) > 0
    if isinstance(v, (SymSeq, SliceOf)):
        return length(v) > 0
    if isinstance(v, PyDict):
        return len(v.keys) > 0
    if isinstance(v, Obj) and "__bool__" in v.fields:
        return truth(v.fields["__bool__"](v))
    if isinstance(v, (Obj, NameRef, BoundMethod)):
        return True
    if isinstance(v, Opaque) and CFG_MODE[0]:
        b = getattr(v, "_truth", None)
        if b is None:
            b = v._truth = fresh_bool("cond_" + v.tag)
        return b
    raise Unsupported(f"truth value of {v!r}")


def b_and(*xs):
    xs = [x for x in xs if x is not True]
    if any(x is False for x in xs):
        return False
    if not xs:
        return True
    return z3.And(*xs) if len(xs) > 1 else xs[0]


def b_or(*xs):
    xs = [x for x in xs if x is not False]
    if any(x is True for x in xs):
        return True
    if not xs:
        return False
    return z3.Or(*xs) if len(xs) > 1 else xs[0]


def b_not(x):
    if isinstance(x, bool):
        return not x
    return z3.Not(x)


def b_implies(a, b):
    if a is False or b is True:
        return True
    if a is True:
        return b
    if b is False:
        return b_not(a)
    return z3.Implies(a, b)


_len_fn = z3.Function("len_of", PyObj, z3.IntSort())


def z_min(a, b):
    if not is_z3(a) and not is_z3(b):
        return min(a, b)
    want = "real" if (is_real(a) or is_real(b)) else None
    a, b = to_z3(a, want), to_z3(b, want)
    return z3.If(a <= b, a, b)


def z_max(a, b):
    if not is_z3(a) and not is_z3(b):
        return max(a, b)
    want = "real" if (is_real(a) or is_real(b)) else None
    a, b = to_z3(a, want), to_z3(b, want)
    return z3.If(a >= b, a, b)


def length(v):
    if isinstance(v, PyList):
        n = len(v.items)
        return n if v.tail is None else n + length(v.tail)
    if isinstance(v, SymSeq):
        return v.length
    if isinstance(v, SliceOf):
        return v.hi - v.lo
    if isinstance(v, Arr):
        if not v.shape:
            raise Unsupported("len() of 0-d array")
        return v.shape[0]
    if isinstance(v, PyDict):
        return len(v.keys)
    if isinstance(v, str):
        return len(v)
    if isinstance(v, Opaque):
        return _len_fn(v.term)
    if isinstance(v, Obj) and "__len__" in v.fields:
        return v.fields["__len__"]
    raise Unsupported(f"len() of {v!r}")


def norm_slice(sl, n):
    """Python slice bounds (step 1) normalised against length n: returns (lo, hi) with 0<=lo<=hi<=n."""
    def nb(b, default):
        if b is None:
            return default
        if not is_z3(b) and not is_z3(n):
            return max(b + n, 0) if b < 0 else min(b, n)
        b = to_z3(b)
        return z3.If(b < 0, z_max(b + n, 0), z_min(b, n))
    if sl.step is not None and not (isinstance(sl.step, int) and sl.step == 1):
        raise Unsupported("slice step != 1")
    lo = nb(sl.lo, 0)
    hi = nb(sl.hi, n)
    hi = z_max(hi, lo)
    if is_z3(lo):
        lo = z3.simplify(lo)
    if is_z3(hi):
        hi = z3.simplify(hi)
    return lo, hi


def index(v, idx):
    if isinstance(idx, SliceV):
        if isinstance(v, PyList):
            lo, hi, st = idx.lo, idx.hi, idx.step
            if all(x is None or isinstance(x, int) for x in (lo, hi, st)) and (v.tail is None or (hi is None and (lo or 0) >= 0 and (lo or 0) <= len(v.items) and st is None)):
                items = v.items[slice(lo, hi, st)]
                return PyList(items, v.tail if hi is None else None, v.is_tuple)
            raise Unsupported("symbolic slice of a concrete list")
        if isinstance(v, (SymSeq, SliceOf, Opaque)):
            lo, hi = norm_slice(idx, length(v))
            if isinstance(v, SliceOf):
                return SliceOf(v.base, v.lo + lo, v.lo + hi)
            return SliceOf(v, lo, hi)
        if isinstance(v, Arr):
            return arr_index(v, (idx,))
        raise Unsupported(f"slice of {v!r}")
    if isinstance(v, PyList):
        if isinstance(idx, int) and not isinstance(idx, bool):
            n = len(v.items)
            if 0 <= idx < n:
                return v.items[idx]
            if idx < 0 and v.tail is None and -n <= idx:
                return v.items[idx]
            if idx >= n and v.tail is not None:
                return index(v.tail, idx - n)
            raise Unsupported(f"index {idx} out of range for {v!r}")
        if is_z3(idx) and v.tail is None and v.items:
            out = v.items[-1]
            for k in range(len(v.items) - 2, -1, -1):
                out = merge_ite(idx == k, v.items[k], out)
            return out
        raise Unsupported(f"symbolic index into concrete list {v!r}")
    if isinstance(v, SymSeq):
        if isinstance(idx, int) and idx < 0:
            idx = v.length + idx
        return v.elem(idx)
    if isinstance(v, SliceOf):
        if isinstance(idx, int) and idx < 0:
            return index(v.base, v.hi + idx)
        return index(v.base, v.lo + idx)
    if isinstance(v, Arr):
        return arr_index(v, idx.items if isinstance(idx, PyList) and idx.is_tuple else (idx,))
    if isinstance(v, PyDict):
        if idx in v.vals:
            return v.vals[idx]
        raise Unsupported(f"key {idx!r} not in {v!r}")
    if isinstance(v, Opaque):
        if isinstance(idx, str) or isinstance(idx, Opaque):
            cache = v.__dict__.setdefault("_items", {})
            key = idx if isinstance(idx, str) else id(idx)
            if key not in cache:
                cache[key] = Opaque(f"{v.tag}[{idx if isinstance(idx, str) else idx.tag}]")
                cache[key].item_of = (v, idx)
            return cache[key]
        f = z3.Function("item_of", PyObj, z3.IntSort(), PyObj)
        if isinstance(idx, int):
            cache = v.__dict__.setdefault("_items", {})
            if ("int", idx) not in cache:
                cache[("int", idx)] = Opaque(f"{v.tag}[{idx}]", f(v.term, to_z3(idx)))
                cache[("int", idx)].item_of = (v, idx)
            return cache[("int", idx)]
        return Opaque(v.tag + "_item", f(v.term, to_z3(idx)))
    raise Unsupported(f"subscript of {v!r}")


def arr_index(a, idxs):
    idxs = list(idxs)
    if len(idxs) > a.ndim:
        raise Unsupported("too many indices")
    # full scalar index
    if len(idxs) == a.ndim and all(is_int(i) for i in idxs):
        fixed = []
        for d, i in enumerate(idxs):
            if isinstance(i, int) and i < 0:
                i = a.shape[d] + i
            fixed.append(i)
        return a.at(*fixed)
    # mixed: ints fix a dimension, slices keep a (shifted) view, int/bool arrays gather
    new_shape, plan = [], []
    for d in range(a.ndim):
        i = idxs[d] if d < len(idxs) else SliceV(None, None, None)
        if isinstance(i, SliceV):
            lo, hi = norm_slice(i, a.shape[d])
            new_shape.append(z3.simplify(hi - lo) if is_z3(hi - lo) else hi - lo)
            plan.append(("shift", lo))
        elif is_int(i):
            if isinstance(i, int) and i < 0:
                i = a.shape[d] + i
            plan.append(("fix", i))
        elif isinstance(i, Arr) and i.ndim == 1 and i.dtype in ("int", "bool"):
            g = i if i.dtype == "int" else where_of(i)
            if any(kind == "gather" for kind, _ in plan):
                # numpy "advanced" indexing: several index arrays are broadcast TOGETHER, a[I, J][k] == a[I[k], J[k]] (one output axis for all
                # of them, not the outer product a[I][:, J])
                if plan[-1][0] not in ("gather", "gather-same"):
                    raise Unsupported("index arrays separated by a slice")
                plan.append(("gather-same", g))
            else:
                new_shape.append(g.shape[0])
                plan.append(("gather", g))
        else:
            raise Unsupported(f"array index {i!r}")

    def at(*k, plan=plan, a=a):
        k = list(k)
        full = []
        last = None
        for kind, x in plan:
            if kind == "fix":
                full.append(x)
            elif kind == "shift":
                full.append(x + k.pop(0))
            elif kind == "gather":
                last = k.pop(0)
                full.append(x.at(last))
            else:
                full.append(x.at(last))
        return a.at(*full)
    r = Arr(new_shape, at, a.dtype)
    r.facts = list(getattr(a, "facts", []))
    for kind, x in plan:
        if kind == "gather":
            r.facts += list(getattr(x, "facts", []))
    # ghost provenance (one level): r = a[idx0] along axis 0; chains are composed on demand by gather_path()
    if plan and plan[0][0] == "gather" and all(k == "shift" and not is_z3(x) and x == 0 for k, x in plan[1:]):
        r.gather = (a, plan[0][1])
    if plan and plan[0][0] == "shift" and all(k == "shift" and not is_z3(x) and x == 0 for k, x in plan[1:]):
        lo0 = plan[0][1]
        sh = Arr([new_shape[0]], lambda k, lo0=lo0: to_z3(lo0) + to_z3(k), "int")
        sh.shift_lo = lo0
        r.gather = (a, sh)
        r.slice_of = (a, lo0)
    return r


def _level_inverse(src, idx):
    """inverse of one gather level  k -> idx[k]  as a python function on terms, or None"""
    if getattr(idx, "pos", None) is not None:                 # np.where result
        return lambda i, idx=idx: idx.pos(to_z3(i))
    if getattr(idx, "perm_inv", None) is not None:            # argsort result
        return lambda i, idx=idx: idx.perm_inv(to_z3(i))
    so = getattr(idx, "slice_of", None)
    if so is not None:
        inner = _level_inverse(None, so[0])
        if inner is not None:
            return lambda i, inner=inner, lo=so[1]: inner(i) - to_z3(lo)
    if getattr(idx, "shift_lo", None) is not None:
        return lambda i, idx=idx: to_z3(i) - to_z3(idx.shift_lo)
    if getattr(idx, "is_identity", False):
        return lambda i: to_z3(i)
    return None


def gather_path(rows, base):
    """index array g with rows == base[g] (composition of the recorded one-level gathers), or None.
    g.inverse(i), when every level is invertible, is the position r with g[r] == i (ghost witness)."""
    if rows is base:
        n = base.shape[0]
        g = Arr([n], lambda k: to_z3(k), "int")
        g.inverse = lambda i: to_z3(i)
        return g
    gth = getattr(rows, "gather", None)
    if gth is None:
        return None
    src, idx = gth
    inv0 = _level_inverse(src, idx)
    if src is base:
        if inv0 is not None and getattr(idx, "inverse", None) is None:
            idx.inverse = inv0
        return idx
    inner = gather_path(src, base)
    if inner is None:
        return None
    r = Arr(idx.shape, lambda k, inner=inner, idx=idx: inner.at(idx.at(k)), "int")
    r.facts = list(getattr(idx, "facts", [])) + list(getattr(inner, "facts", []))
    inv_in = getattr(inner, "inverse", None)
    if inv0 is not None and inv_in is not None:
        r.inverse = lambda i, inv0=inv0, inv_in=inv_in: inv0(inv_in(i))
    return r


_where_cache = {}


def where_of(mask):
    """np.where(mask)[0] for a 1-D bool Arr: fresh strictly increasing index array whose range is exactly
    the true positions; `pos` is the ghost inverse (witness for membership).  Library contract (numpy)."""
    key = id(mask)
    if key in _where_cache:
        return _where_cache[key][1]
    g = fresh_fn("where", z3.IntSort(), z3.IntSort())
    pos = fresh_fn("wpos", z3.IntSort(), z3.IntSort())
    G = fresh_int("nwhere")
    N = mask.shape[0]
    k, k2, i = z3.Int(fresh_name("k")), z3.Int(fresh_name("k")), z3.Int(fresh_name("i"))
    facts = [G >= 0, G <= N,
             q_forall([k], b_and(0 <= k, k < G), b_and(0 <= g(k), g(k) < N, mask.at(g(k))), pats=[g(k)]),
             q_forall([k, k2], b_and(0 <= k, k < k2, k2 < G), g(k) < g(k2), pats=[z3.MultiPattern(g(k), g(k2))]),
             q_forall([i], b_and(0 <= i, i < N, mask.at(i)), b_and(0 <= pos(i), pos(i) < G, g(pos(i)) == i), pats=[pos(i)]),
             q_forall([k], b_and(0 <= k, k < G), pos(g(k)) == k, pats=[g(k)])]
    w = Arr([G], lambda k_, g=g: g(to_z3(k_)), "int", "where")
    w.facts = facts + list(getattr(mask, "facts", []))
    w.pos = pos
    w.mask = mask
    _where_cache[key] = (mask, w)
    return w


CFG_MODE = [False]   # effect / exceptional-path analysis: unknown calls are opaque events, opaque conditions fork both ways
BOUND = [None]  # bounded-refutation mode: quantifier ranges are expanded over 0..B


def q_forall(vs, guard, body, pats=None):
    if body is True or guard is False:
        return True
    f = b_implies(guard, body)
    if f is True:
        return True
    if BOUND[0] is not None:
        B = BOUND[0]
        insts = []
        for combo in itertools.product(range(-1, B + 2), repeat=len(vs)):
            inst = z3.substitute(f, *[(v, z3.IntVal(c)) for v, c in zip(vs, combo)])
            insts.append(inst)
        return z3.simplify(z3.And(*insts))
    if pats:
        good = [p_ for p_ in pats if _pattern_ok(p_, vs)]
        if good:
            try:
                return z3.ForAll(vs, f, patterns=good)
            except z3.Z3Exception:
                pass
    return z3.ForAll(vs, f)


def _pattern_ok(p, vs):
    """a usable E-matching pattern: an uninterpreted function application (no ite / arithmetic at the root) mentioning every bound var"""
    try:
        if isinstance(p, z3.PatternRef):
            return True
        if not z3.is_app(p) or p.decl().kind() != z3.Z3_OP_UNINTERPRETED or p.num_args() == 0:
            return False
        txt = p.sexpr()
        if "(ite " in txt:
            return False
        return all(_mentions(p, v) for v in vs)
    except z3.Z3Exception:
        return False


def q_exists(vs, guard, body):
    f = b_and(guard, body)
    if isinstance(f, bool):
        return f
    if BOUND[0] is not None:
        B = BOUND[0]
        insts = []
        for combo in itertools.product(range(-1, B + 2), repeat=len(vs)):
            insts.append(z3.substitute(f, *[(v, z3.IntVal(c)) for v, c in zip(vs, combo)]))
        return z3.simplify(z3.Or(*insts))
    return z3.Exists(vs, f)


def val_eq(a, b):
    """structural equality -> bool / z3 Bool"""
    if isinstance(a, tuple):
        a = PyList(list(a), None, True)
    if isinstance(b, tuple):
        b = PyList(list(b), None, True)
    if a is None or b is None:
        if a is None and b is None:
            return True
        other = b if a is None else a
        if isinstance(other, Opaque) and getattr(other, "maybe_none", False):
            return other.is_none
        return False
    if isinstance(a, str) or isinstance(b, str):
        if isinstance(a, str) and isinstance(b, str):
            return a == b
        if isinstance(a, Opaque) or isinstance(b, Opaque):
            o, s = (a, b) if isinstance(a, Opaque) else (b, a)
            return o.term == str_const(s)
        return False
    if (is_z3(a) or isinstance(a, (int, float, bool, Fraction))) and (is_z3(b) or isinstance(b, (int, float, bool, Fraction))):
        if not is_z3(a) and not is_z3(b):
            return a == b
        if is_z3(a) and is_z3(b) and a.eq(b):
            return True
        if is_bool(a) and is_bool(b):
            return to_z3(a) == to_z3(b)
        want = "real" if (is_real(a) or is_real(b)) else None
        return to_z3(a, want) == to_z3(b, want)
    if isinstance(a, PyList) and isinstance(b, PyList):
        if len(a.items) != len(b.items):
            if a.tail is None and b.tail is None:
                return False
            raise Unsupported("comparing lists with opaque tails of different spine")
        parts = [val_eq(x, y) for x, y in zip(a.items, b.items)]
        if a.tail is not None or b.tail is not None:
            if a.tail is None or b.tail is None:
                other = a.tail if a.tail is not None else b.tail
                parts.append(val_eq(length(other), 0))
            else:
                parts.append(val_eq(a.tail, b.tail))
        return b_and(*parts)
    if isinstance(a, Opaque) and isinstance(b, Opaque):
        return True if a.term.eq(b.term) else a.term == b.term
    if isinstance(a, SliceOf) and isinstance(b, SliceOf) and a.base is b.base:
        return b_and(val_eq(a.lo, b.lo), val_eq(a.hi, b.hi))
    if isinstance(a, (SliceOf, SymSeq)) or isinstance(b, (SliceOf, SymSeq)):
        k = z3.Int(fresh_name("k"))
        la, lb = length(a), length(b)
        return b_and(val_eq(la, lb), q_forall([k], b_and(0 <= k, k < la), val_eq(index(a, k), index(b, k))))
    if isinstance(a, Obj) and isinstance(b, Obj):
        return a.ident == b.ident
    if isinstance(a, NameRef) and isinstance(b, NameRef):
        return a.dotted == b.dotted
    if a is b:
        return True
    raise Unsupported(f"equality of {a!r} and {b!r}")


_str_consts = {}


def str_const(s):
    if s not in _str_consts:
        _str_consts[s] = z3.Const(f"str:{s}", PyObj)
    return _str_consts[s]


def arith(op, a, b, ctx=None, path=None, line=None):
    """scalar arithmetic with Python semantics on ints (exact) and reals (S2)."""
    for x in (a, b):
        if isinstance(x, Obj) and "__arith__" in x.fields:
            return x.fields["__arith__"](op, a, b, ctx, path, line)
    if isinstance(a, (Arr,)) or isinstance(b, (Arr,)):
        return arr_arith(op, a, b, ctx, path, line)
    if isinstance(op, ast.Add) and isinstance(a, PyList) and isinstance(b, (PyList, Opaque, SymSeq, SliceOf)):
        if isinstance(b, PyList):
            if a.tail is not None:
                raise Unsupported("list with tail + list")
            return PyList(a.items + b.items, b.tail, a.is_tuple)
        if a.tail is not None:
            raise Unsupported("list with tail + seq")
        return PyList(a.items, b, a.is_tuple)
    if isinstance(op, ast.Mult) and isinstance(a, PyList) and isinstance(b, int):
        return PyList(a.items * b, None, a.is_tuple)
    if isinstance(op, ast.Mult) and isinstance(a, PyList) and a.tail is None and len(a.items) == 1 and is_z3(b):
        return SymSeq(b, lambda k, v=a.items[0]: v)      # [v] * n
    if isinstance(op, ast.Add) and isinstance(a, str) and isinstance(b, str):
        return a + b
    if not (is_num(a) or is_bool(a)) or not (is_num(b) or is_bool(b)):
        raise Unsupported(f"arithmetic {type(op).__name__} on {a!r}, {b!r}")
    if isinstance(a, bool):
        a = int(a)
    if isinstance(b, bool):
        b = int(b)
    conc = not is_z3(a) and not is_z3(b)
    real = is_real(a) or is_real(b)
    if isinstance(a, float):
        a = Fraction(a).limit_denominator(10**12)
    if isinstance(b, float):
        b = Fraction(b).limit_denominator(10**12)
    if isinstance(op, ast.Add):
        return a + b if conc else to_z3(a, "real" if real else None) + to_z3(b, "real" if real else None)
    if isinstance(op, ast.Sub):
        return a - b if conc else to_z3(a, "real" if real else None) - to_z3(b, "real" if real else None)
    if isinstance(op, ast.Mult):
        return a * b if conc else to_z3(a, "real" if real else None) * to_z3(b, "real" if real else None)
    if isinstance(op, ast.Div):
        if conc:
            if b == 0:
                raise Unsupported("division by concrete zero")
            return Fraction(a) / Fraction(b)
        den = to_z3(b, "real")
        if ctx is not None and path is not None and not getattr(ctx, "cdivision", False):
            ctx.vc(f"div-nonzero@{line}", path, den != 0, "defined", line)
        elif ctx is not None and path is not None:
            ctx.vc(f"div-nonzero@{line}", path, den != 0, "defined", line)
        return to_z3(a, "real") / den
    if isinstance(op, (ast.FloorDiv, ast.Mod)):
        if real:
            if isinstance(op, ast.Mod):
                return real_mod(a, b, ctx, path, line)
            raise Unsupported("floor division on reals")
        if conc:
            return a // b if isinstance(op, ast.FloorDiv) else a % b
        bz = to_z3(b)
        if ctx is not None and path is not None:
            ctx.vc(f"divisor-positive@{line}", path, bz > 0, "defined", line,
                   note="// and % are encoded for positive divisors only (Python floor semantics = SMT div/mod there)")
        return to_z3(a) / bz if isinstance(op, ast.FloorDiv) else to_z3(a) % bz
    if isinstance(op, ast.Pow):
        if conc:
            return a ** b
        if isinstance(b, int) and 0 <= b <= 4:
            r = to_z3(1, "real" if real else None)
            for _ in range(b):
                r = r * to_z3(a, "real" if real else None)
            return r
        return real_pow(to_z3(a, "real"), to_z3(b, "real"))
    raise Unsupported(f"operator {type(op).__name__}")


POW = z3.Function("u_pow", z3.RealSort(), z3.RealSort(), z3.RealSort())
EXP = z3.Function("u_exp", z3.RealSort(), z3.RealSort())
LOG = z3.Function("u_log", z3.RealSort(), z3.RealSort())
SQRT = z3.Function("u_sqrt", z3.RealSort(), z3.RealSort())
COS = z3.Function("u_cos", z3.RealSort(), z3.RealSort())
SIN = z3.Function("u_sin", z3.RealSort(), z3.RealSort())
FABS = z3.Function("u_fabs", z3.RealSort(), z3.RealSort())
FMOD = z3.Function("u_fmod", z3.RealSort(), z3.RealSort(), z3.RealSort())
PI = z3.Real("pi")


def real_pow(a, b):
    return POW(a, b)


QUOT = z3.Function("floor_quot", z3.RealSort(), z3.RealSort(), z3.IntSort())


def quot_axioms():
    """floor quotient for a positive modulus: 0 <= a - b*q(a,b) < b (division-free definition of numpy's float %)"""
    a, b = z3.Real("a!fq"), z3.Real("b!fq")
    r = a - b * z3.ToReal(QUOT(a, b))
    return [z3.ForAll([a, b], z3.Implies(b > 0, z3.And(r >= 0, r < b)), patterns=[QUOT(a, b)])]


def real_mod(a, b, ctx, path, line):
    """Python / numpy float % for a positive modulus: a - b*floor(a/b).  Modulus 1: floor = SMT to_int; any other
    modulus: an integer-valued quotient q(a,b) characterised (division-free) by 0 <= a - b*q < b."""
    a, b = to_z3(a, "real"), to_z3(b, "real")
    if ctx is not None and path is not None:
        ctx.vc(f"modulus-positive@{line}", path, b > 0, "defined", line, note="% is encoded for a positive modulus")
    if z3.is_rational_value(b) and b.numerator_as_long() == 1 and b.denominator_as_long() == 1:
        return a - z3.ToReal(z3.ToInt(a))
    return a - b * z3.ToReal(QUOT(a, b))


def arr_arith(op, a, b, ctx, path, line):
    A = a if isinstance(a, Arr) else None
    B = b if isinstance(b, Arr) else None
    ref = A or B
    if A and B and A.ndim != B.ndim:
        raise Unsupported("broadcasting between arrays of different rank")
    shape = ref.shape
    if A and B and path is not None and ctx is not None:
        for d in range(A.ndim):
            if not (is_z3(A.shape[d]) or is_z3(B.shape[d])) and A.shape[d] != B.shape[d]:
                raise Unsupported("shape mismatch")
    dt = "real" if (ref.dtype == "real" or (A and B and (A.dtype == "real" or B.dtype == "real")) or is_real(a if not A else 0) or is_real(b if not B else 0) or isinstance(op, ast.Div)) else ref.dtype
    if dt == "bool":
        dt = "int"

    def at(*k):
        x = A.at(*k) if A else a
        y = B.at(*k) if B else b
        return arith(op, x, y, None, None, line)
    r = Arr(shape, at, dt)
    r.facts = list(getattr(A, "facts", []) if A else []) + list(getattr(B, "facts", []) if B else [])
    return r


def compare(op, a, b):
    if not isinstance(op, (ast.Is, ast.IsNot, ast.In, ast.NotIn)):
        for x in (a, b):
            if isinstance(x, Obj) and "__cmp__" in x.fields:
                return x.fields["__cmp__"](op, a, b)
    if isinstance(op, (ast.Is, ast.IsNot)):
        if a is None or b is None or isinstance(a, bool) or isinstance(b, bool):
            if (a is None or isinstance(a, bool)) and (b is None or isinstance(b, bool)):
                r = a is b
            else:
                other = b if (a is None or isinstance(a, bool)) else a
                const = a if other is b else b
                if const is None and isinstance(other, Opaque) and getattr(other, "maybe_none", False):
                    r = other.is_none
                elif isinstance(const, bool) and is_z3(other) and other.sort() == z3.BoolSort():
                    r = other == const
                else:
                    r = False
            return r if isinstance(op, ast.Is) else b_not(r)
        if isinstance(a, Arr) and isinstance(b, Arr):
            r = a is b            # identity of array objects
        else:
            r = val_eq(a, b)
        return r if isinstance(op, ast.Is) else b_not(r)
    if isinstance(op, (ast.Eq, ast.NotEq)) and (isinstance(a, Arr) or isinstance(b, Arr)) and not (isinstance(a, Arr) and isinstance(b, Arr) and a is b):
        A_ = a if isinstance(a, Arr) else None
        B_ = b if isinstance(b, Arr) else None
        ref = A_ or B_
        if (A_ is None and not (is_num(a) or is_bool(a))) or (B_ is None and not (is_num(b) or is_bool(b))):
            return isinstance(op, ast.NotEq)

        def at_eq(*k, A_=A_, B_=B_, a=a, b=b, neq=isinstance(op, ast.NotEq)):
            e = val_eq(A_.at(*k) if A_ else a, B_.at(*k) if B_ else b)
            e = to_z3(e)
            return z3.Not(e) if neq else e
        r = Arr(ref.shape, at_eq, "bool")
        r.facts = list(getattr(A_, "facts", []) if A_ else []) + list(getattr(B_, "facts", []) if B_ else [])
        return r
    if isinstance(op, ast.Eq):
        return val_eq(a, b)
    if isinstance(op, ast.NotEq):
        return b_not(val_eq(a, b))
    if isinstance(op, (ast.In, ast.NotIn)):
        r = contains(b, a)
        return r if isinstance(op, ast.In) else b_not(r)
    if isinstance(a, Arr) or isinstance(b, Arr):
        A = a if isinstance(a, Arr) else None
        B = b if isinstance(b, Arr) else None
        ref = A or B

        def at(*k):
            return compare(op, A.at(*k) if A else a, B.at(*k) if B else b)
        r = Arr(ref.shape, at, "bool")
        r.facts = list(getattr(A, "facts", []) if A else []) + list(getattr(B, "facts", []) if B else [])
        return r
    if not (is_num(a) and is_num(b)):
        raise Unsupported(f"comparison of {a!r} and {b!r}")
    if not is_z3(a) and not is_z3(b):
        return {ast.Lt: a < b, ast.LtE: a <= b, ast.Gt: a > b, ast.GtE: a >= b}[type(op)]
    want = "real" if (is_real(a) or is_real(b)) else None
    x, y = to_z3(a, want), to_z3(b, want)
    return {ast.Lt: x < y, ast.LtE: x <= y, ast.Gt: x > y, ast.GtE: x >= y}[type(op)]


def contains(container, item):
    if isinstance(container, PyList):
        if container.tail is not None:
            raise Unsupported("`in` on list with opaque tail")
        return b_or(*[val_eq(x, item) for x in container.items])
    if isinstance(container, PyDict):
        if isinstance(item, (str, int)):
            return item in container.vals
        return b_or(*[val_eq(k, item) for k in container.keys])
    if isinstance(container, str) and isinstance(item, str):
        return item in container
    if isinstance(container, (SymSeq, SliceOf)):
        k = z3.Int(fresh_name("k"))
        return q_exists([k], b_and(0 <= k, k < length(container)), val_eq(index(container, k), item))
    if isinstance(container, Obj) and "__contains__" in container.fields:
        return container.fields["__contains__"](item)
    if CFG_MODE[0] and isinstance(container, Opaque):
        cache = container.__dict__.setdefault("_contains", {})
        key = item if isinstance(item, (str, int)) else id(item)
        if key not in cache:
            cache[key] = fresh_bool(f"in_{container.tag}")
        return cache[key]
    raise Unsupported(f"`in` on {container!r}")


# --------------------------------------------------------------------------------------------
class Executor:
    def __init__(self, ctx, fnsrc, contract, module_globals=None):
        self.ctx = ctx
        self.fnsrc = fnsrc
        self.contract = contract
        self.globals = module_globals or {}
        self.loop_counter = 0
        self.spec_mode = False
        self.old_env = {}

    # ---- expressions ------------------------------------------------------------------
    def ev(self, node, path):
        m = getattr(self, "ev_" + type(node).__name__, None)
        if m is None:
            raise Unsupported(f"expression {type(node).__name__} at line {getattr(node, 'lineno', '?')}")
        return m(node, path)

    def ev_Constant(self, node, path):
        v = node.value
        if isinstance(v, float):
            if v == int(v) and abs(v) < 1e15:
                return Fraction(int(v))
            # a decimal literal denotes the decimal number written in the source (shortest repr that round-trips), e.g. 1.12 = 28/25
            return Fraction(repr(v))
        return v

    def ev_Name(self, node, path):
        if node.id in path.env:
            return path.env[node.id]
        if node.id in self.globals:
            return self.globals[node.id]
        if node.id in ("True", "False", "None"):
            return {"True": True, "False": False, "None": None}[node.id]
        imps = getattr(self, "imports", {})
        if node.id in imps and imps[node.id].startswith("thejoker."):
            v = self.repo_constant(imps[node.id])
            if v is not None:
                return v
        return NameRef(self.ctx.aliases.get(node.id, node.id))

    def repo_constant(self, qual):
        """value of a module-level constant of another repository module (read from that module's source)"""
        from .extract import module_ast
        mod, _, name = qual.rpartition(".")
        try:
            tree, path_, text, raw = module_ast(mod)
        except (FileNotFoundError, SyntaxError):
            return None
        for st in tree.body:
            if isinstance(st, ast.Assign) and len(st.targets) == 1 and isinstance(st.targets[0], ast.Name) and st.targets[0].id == name:
                try:
                    return self.ev(st.value, Path())
                except Unsupported:
                    return None
        return None

    def _display(self, node, path):
        # [a, *b, c]: a starred element is spliced in when its items can be enumerated (S4: a display copies)
        out, tail = [], None
        for k, e in enumerate(node.elts):
            if isinstance(e, ast.Starred):
                v = self.ev(e.value, path)
                if isinstance(v, PyList) and v.tail is not None and k == len(node.elts) - 1:
                    out.extend(v.items)          # [..., *rest] where rest has an unknown tail: same as `[...] + list(rest)`
                    tail = v.tail
                    continue
                items = self.iter_concrete(v)
                if items is None:
                    raise Unsupported(f"starred element of symbolic length at line {node.lineno}")
                out.extend(items)
            else:
                out.append(self.ev(e, path))
        return out, tail

    def ev_Tuple(self, node, path):
        items, tail = self._display(node, path)
        return PyList(items, tail, True)

    def ev_List(self, node, path):
        items, tail = self._display(node, path)
        return PyList(items, tail, False)

    def ev_Set(self, node, path):
        # a set display of enumerable, concretely distinguishable items (names): kept as a list without duplicates - used for membership only
        items, tail = self._display(node, path)
        if tail is not None or not all(isinstance(x, (str, int)) for x in items):
            raise Unsupported(f"set display of symbolic items at line {node.lineno}")
        out = []
        for x in items:
            if x not in out:
                out.append(x)
        return PyList(out, None, False)

    def ev_Dict(self, node, path):
        d = PyDict()
        for k, v in zip(node.keys, node.values):
            if k is None:
                src = self.ev(v, path)
                if not isinstance(src, PyDict):
                    raise Unsupported("** of non-dict")
                for kk in src.keys:
                    d = d.set(kk, src.vals[kk])
            else:
                d = d.set(self.ev(k, path), self.ev(v, path))
        return d

    def ev_JoinedStr(self, node, path):
        return "<fstring>"

    def ev_UnaryOp(self, node, path):
        v = self.ev(node.operand, path)
        if isinstance(node.op, ast.Not):
            return b_not(truth(v))
        if isinstance(node.op, ast.USub):
            if isinstance(v, Obj) and "__arith__" in v.fields:
                return v.fields["__arith__"](ast.Mult(), -1, v, self.ctx, path, node.lineno)
            if isinstance(v, Arr):
                return arr_arith(ast.Sub(), 0, v, self.ctx, path, node.lineno)
            return -v if not is_z3(v) else -v
        if isinstance(node.op, ast.Invert):
            if isinstance(v, Arr) and v.dtype == "bool":
                r = Arr(v.shape, lambda *k: z3.Not(v.at(*k)), "bool")
                r.facts = list(getattr(v, "facts", []))
                return r
            return PyList([v], None, True) if False else ("addr", v, node.operand)
        raise Unsupported("unary op")

    def ev_BinOp(self, node, path):
        a = self.ev(node.left, path)
        b = self.ev(node.right, path)
        if isinstance(node.op, ast.BitAnd):
            if isinstance(a, Arr) and isinstance(b, Arr):
                r = Arr(a.shape, lambda *k: z3.And(a.at(*k), b.at(*k)), "bool")
                r.facts = list(getattr(a, "facts", [])) + list(getattr(b, "facts", []))
                return r
            return b_and(truth(a), truth(b))
        if isinstance(node.op, ast.BitOr):
            return b_or(truth(a), truth(b))
        return arith(node.op, a, b, self.ctx if not self.spec_mode else None, path, node.lineno)

    def ev_BoolOp(self, node, path):
        is_and = isinstance(node.op, ast.And)
        vals, ts = [], []
        for vn in node.values:
            v = self.ev(vn, path)
            t = truth(v)
            vals.append(v)
            ts.append(t)
            # short circuit on a concretely decided operand (python semantics)
            if isinstance(t, bool) and t is (not is_and):
                if all(isinstance(x, bool) for x in ts):
                    return v
                return t if not is_and else False
        if all(isinstance(t, bool) for t in ts):
            return vals[-1]
        return b_and(*ts) if is_and else b_or(*ts)

    def ev_Compare(self, node, path):
        left = self.ev(node.left, path)
        out = []
        for op, rn in zip(node.ops, node.comparators):
            right = self.ev(rn, path)
            out.append(compare(op, left, right))
            left = right
        return b_and(*out) if len(out) > 1 else out[0]

    def ev_IfExp(self, node, path):
        c = truth(self.ev(node.test, path))
        if isinstance(c, bool):
            return self.ev(node.body if c else node.orelse, path)
        return merge_ite(c, self.ev(node.body, path), self.ev(node.orelse, path))

    def ev_Slice(self, node, path):
        return SliceV(*(None if x is None else self.ev(x, path) for x in (node.lower, node.upper, node.step)))

    def ev_Subscript(self, node, path):
        v = self.ev(node.value, path)
        idx = self.ev(node.slice, path)
        if isinstance(v, Obj) and "__getitem__" in v.fields:
            try:
                return v.fields["__getitem__"](self, path, v, idx, node)
            except (KeyError, AttributeError, TypeError, IndexError) as e:
                raise Unsupported(f"subscript model of {v.cls} is not applicable to key {idx!r} ({type(e).__name__}: {e})")
        if isinstance(v, Obj) and f"{v.cls}.__getitem__" in self.ctx.contracts:
            return self.call_contract(self.ctx.contracts[f"{v.cls}.__getitem__"], [v, idx], {}, path, node)
        if isinstance(v, (SliceOf, SymSeq, Arr)) and self.ctx.emit and not self.spec_mode and is_int(idx) and getattr(self.ctx, "bounds_checks", False):
            n = length(v)
            self.ctx.vc(f"index-in-bounds@{node.lineno}", path, b_and(compare(ast.LtE(), -n, idx) if False else True, compare(ast.Lt(), idx, n)), "defined", node.lineno)
        r = index(v, idx)
        if isinstance(r, Arr):
            path.assume(*[f for f in getattr(r, "facts", []) if f is not True and not any(f is g for g in path.pc)])
        return r

    def ev_Attribute(self, node, path):
        v = self.ev(node.value, path)
        return self.getattr(v, node.attr, path, node)

    def getattr(self, v, attr, path, node=None):
        if isinstance(v, NameRef):
            d = v.dotted + "." + attr
            known = self.ctx.lib.get(d)
            if isinstance(known, Obj) or is_z3(known):       # a library *value* (e.g. astropy.units.day, numpy.pi)
                return known
            if d.startswith("thejoker.") and d.rsplit(".", 1)[1].isupper():
                cv = self.repo_constant(d)
                if cv is not None:
                    return cv
            return NameRef(d)
        if isinstance(v, Obj):
            if attr in v.fields:
                f = v.fields[attr]
                if callable(f) and getattr(f, "is_property", False):
                    return f(self, path)
                return f
            key = f"{v.cls}.{attr}"
            if key in self.ctx.contracts and getattr(self.ctx.contracts[key], "is_property", False):
                return self.call_contract(self.ctx.contracts[key], [v], {}, path, node)
            if key in self.ctx.lib or key in self.ctx.contracts or f"{v.cls}.*" in self.ctx.lib:
                return BoundMethod(v, attr, node.value if node is not None else None)
            if attr == "__class__":
                return NameRef(v.fields.get("__qualclass__", v.cls))
            raise Unsupported(f"attribute {attr} of {v!r}")
        if isinstance(v, Arr):
            if attr == "shape":
                return PyList(v.shape, None, True)
            if attr == "dtype":
                return NameRef("numpy.float64" if v.dtype == "real" else "numpy." + v.dtype)
            if attr == "size" and v.ndim == 1:
                return v.shape[0]
            if attr == "ndim":
                return v.ndim
            if attr == "T" and v.ndim == 2:
                return Arr([v.shape[1], v.shape[0]], lambda i, j: v.at(j, i), v.dtype)
        if isinstance(v, SliceV) and attr in ("start", "stop", "step"):
            return {"start": v.lo, "stop": v.hi, "step": v.step}[attr]
        if CFG_MODE[0] and isinstance(v, Opaque):
            cache = v.__dict__.setdefault("_attrs", {})
            if attr not in cache:
                o = Opaque(f"{v.tag}.{attr}")
                o.attr_of = (v, attr)
                cache[attr] = o
            return cache[attr]
        return BoundMethod(v, attr, node.value if node is not None else None)

    def ev_ListComp(self, node, path):
        return self._comp(node, path, False)

    def ev_GeneratorExp(self, node, path):
        return self._comp(node, path, False)

    def ev_DictComp(self, node, path):
        if len(node.generators) != 1:
            raise Unsupported("nested comprehension")
        g = node.generators[0]
        it = self.ev(g.iter, path)
        items = self.iter_concrete(it)
        if items is None:
            raise Unsupported("dict comprehension over symbolic iterable")
        d = PyDict()
        for x in items:
            p2 = path.child()
            self.assign(g.target, x, p2)
            ok = b_and(*[truth(self.ev(c, p2)) for c in g.ifs])
            if ok is True:
                d = d.set(self.ev(node.key, p2), self.ev(node.value, p2))
            elif ok is not False:
                raise Unsupported("symbolic filter in dict comprehension")
        return d

    def _comp(self, node, path, _):
        if len(node.generators) != 1:
            raise Unsupported("nested comprehension")
        g = node.generators[0]
        it = self.ev(g.iter, path)
        items = self.iter_concrete(it)
        if items is not None:
            out = []
            for x in items:
                p2 = path.child()
                self.assign(g.target, x, p2)
                ok = b_and(*[truth(self.ev(c, p2)) for c in g.ifs])
                if ok is True:
                    out.append(self.ev(node.elt, p2))
                elif ok is not False:
                    raise Unsupported("symbolic filter in comprehension")
            return PyList(out)
        if g.ifs:
            raise Unsupported("filter in comprehension over symbolic iterable")
        n = length(it)

        def elem(k, it=it, g=g, node=node, path=path):
            p2 = path.child()
            self.assign(g.target, index(it, k), p2)
            return self.ev(node.elt, p2)
        return SymSeq(n, elem)

    def iter_concrete(self, it):
        if isinstance(it, PyList) and it.tail is None:
            return list(it.items)
        if isinstance(it, PyDict):
            return list(it.keys)
        if isinstance(it, Obj) and it.cls == "range" and all(isinstance(it.fields[k], int) for k in ("lo", "hi")):
            return list(range(it.fields["lo"], it.fields["hi"]))
        if isinstance(it, Obj) and it.cls == "enumerate":
            inner = self.iter_concrete(it.fields["it"])
            if inner is None:
                return None
            return [PyList([i, x], None, True) for i, x in enumerate(inner)]
        if isinstance(it, Obj) and it.cls == "zip":
            inners = [self.iter_concrete(x) for x in it.fields["its"]]
            if any(x is None for x in inners):
                return None
            return [PyList(list(t), None, True) for t in zip(*inners)]
        return None

    # spec-only forms: all(... for k in range(..)) / any(...)
    def quantified(self, node, path, universal):
        gen = node.args[0]
        if not isinstance(gen, (ast.GeneratorExp, ast.ListComp)):
            v = self.ev(gen, path)
            items = self.iter_concrete(v)
            if items is None:
                if isinstance(v, Arr) and v.dtype == "bool" and v.ndim == 1:
                    k = z3.Int(fresh_name("k"))
                    rng_ = b_and(0 <= k, k < v.shape[0])
                    return q_forall([k], rng_, v.at(k)) if universal else q_exists([k], rng_, v.at(k))
                raise Unsupported("all/any over symbolic non-generator")
            ts = [truth(x) for x in items]
            return b_and(*ts) if universal else b_or(*ts)
        vs, guards = [], []
        p2 = path.child()
        n_pc0 = len(path.pc)
        for g in gen.generators:
            it = self.ev(g.iter, p2)
            items = self.iter_concrete(it)
            if items is not None and len(gen.generators) == 1:
                outs = []
                for x in items:
                    p3 = p2.child()
                    self.assign(g.target, x, p3)
                    conds = [truth(self.ev(c, p3)) for c in g.ifs]
                    body = truth(self.ev(gen.elt, p3))
                    outs.append(b_implies(b_and(*conds), body) if universal else b_and(*conds, body))
                return b_and(*outs) if universal else b_or(*outs)
            k = z3.Int(fresh_name(g.target.id if isinstance(g.target, ast.Name) else "k"))
            if isinstance(it, Obj) and it.cls == "range":
                guards.append(b_and(to_z3(it.fields["lo"]) <= k, k < to_z3(it.fields["hi"])))
                self.assign(g.target, k, p2)
            else:
                guards.append(b_and(0 <= k, k < length(it)))
                self.assign(g.target, index(it, k), p2)
            vs.append(k)
            for c in g.ifs:
                guards.append(truth(self.ev(c, p2)))
        body = truth(self.ev(gen.elt, p2))
        for f in path.pc[n_pc0:]:
            if is_z3(f) and any(_mentions(f, v) for v in vs):
                raise Unsupported("a fact created under a quantifier depends on the bound variable")
        return q_forall(vs, b_and(*guards), body) if universal else q_exists(vs, b_and(*guards), body)

    def sum_expr(self, gen, path):
        """sum(E(n) for n in range(N))  (nested generators: iterated sums, first generator outermost)"""
        def build(gi, p):
            g = gen.generators[gi]
            it = self.ev(g.iter, p)
            if not (isinstance(it, Obj) and it.cls == "range" and not g.ifs and isinstance(g.target, ast.Name)):
                raise Unsupported("sum(...) over something other than range(N)")
            lo, hi = it.fields["lo"], it.fields["hi"]
            if not (isinstance(lo, int) and lo == 0):
                raise Unsupported("sum over a range that does not start at 0")

            def body(nv, gi=gi, p=p, g=g):
                p2 = p.child()
                p2.env[g.target.id] = nv
                if gi + 1 < len(gen.generators):
                    return build(gi + 1, p2)
                return self.ev(gen.elt, p2)
            return make_sum(body, hi, path)
        return build(0, path)

    # ---- calls -------------------------------------------------------------------------
    def ev_Call(self, node, path):
        # spec / builtin quantifiers
        if isinstance(node.func, ast.Name):
            nm = node.func.id
            if nm in ("all", "any") and nm not in path.env:
                return self.quantified(node, path, nm == "all")
            if nm == "sum" and nm not in path.env and len(node.args) == 1 and isinstance(node.args[0], ast.GeneratorExp):
                return self.sum_expr(node.args[0], path)
            if nm == "old" and self.spec_mode:
                p2 = path.child()
                p2.env = dict(self.old_env)
                return self.ev(node.args[0], p2)
            if nm == "final" and self.spec_mode and getattr(self, "final_env", None) is not None:
                p2 = path.child()
                p2.env = dict(self.final_env)
                return self.ev(node.args[0], p2)
            if nm == "head" and self.spec_mode and getattr(self, "head_env", None) is not None:
                p2 = path.child()
                p2.env = dict(self.head_env)
                return self.ev(node.args[0], p2)
            if nm == "implies" and self.spec_mode:
                a0 = truth(self.ev(node.args[0], path))
                if a0 is False:
                    return True
                return b_implies(a0, truth(self.ev(node.args[1], path)))
            if nm in self.contract.defs and self.spec_mode:
                argn, body = self.contract.defs[nm]
                p2 = path.child()
                for a, an in zip(node.args, argn):
                    p2.env[an] = self.ev(a, path)
                return self.ev(ast.parse(body, mode="eval").body, p2)
        fn = self.ev(node.func, path)
        args = []
        for a in node.args:
            if isinstance(a, ast.Starred):
                v = self.ev(a.value, path)
                if isinstance(v, PyList) and v.tail is None:
                    args.extend(v.items)
                else:
                    raise Unsupported("*args of symbolic length")
            else:
                args.append(self.ev(a, path))
        kwargs = {}
        for kw in node.keywords:
            if kw.arg is None:
                v = self.ev(kw.value, path)
                if isinstance(v, PyDict):
                    for k in v.keys:
                        kwargs[k] = v.vals[k]
                elif CFG_MODE[0] and isinstance(v, Opaque):
                    kwargs["**"] = v            # effect analysis: an unknown mapping is forwarded as a whole
                else:
                    raise Unsupported("**kwargs of unknown dict")
            else:
                kwargs[kw.arg] = self.ev(kw.value, path)
        return self.call(fn, args, kwargs, path, node)

    def call(self, fn, args, kwargs, path, node):
        try:
            return self._call(fn, args, kwargs, path, node)
        except (AttributeError, TypeError, KeyError, IndexError) as e:
            # a library / spec model met a value of a shape it does not describe: outside the subset, never a crash
            raise Unsupported(f"model of {fn!r} is not applicable to these arguments ({type(e).__name__}: {e})")

    def _call(self, fn, args, kwargs, path, node):
        ctx = self.ctx
        if callable(fn) and not isinstance(fn, (NameRef, BoundMethod)):
            return fn(self, path, args, kwargs, node)
        if isinstance(fn, BoundMethod):
            recv = fn.recv
            # container / scalar methods
            key = None
            if isinstance(recv, Obj):
                key = f"{recv.cls}.{fn.name}"
                if key not in ctx.lib and key not in ctx.contracts and f"{recv.cls}.*" in ctx.lib:
                    key = f"{recv.cls}.*"
            else:
                key = f"<{type(recv).__name__}>.{fn.name}"
            if key in ctx.contracts:
                return self.call_contract(ctx.contracts[key], [recv] + args, kwargs, path, node)
            if key in ctx.lib:
                ctx.trusted_used.add(key)
                return ctx.lib[key](self, path, [recv] + args, kwargs, node, fn)
            if CFG_MODE[0]:
                recv_name = getattr(recv, "tag", None) or getattr(recv, "cls", None) or type(recv).__name__
                ev_name = f"{recv_name}.{fn.name}"
                r = self.opaque_call(ev_name, args, kwargs, path, node)
                path.ghost["events"][-1]["recv"] = recv
                return r
            raise Unsupported(f"method {key} (line {node.lineno})")
        if isinstance(fn, NameRef):
            name = fn.dotted
            q = self.resolve_repo(name)
            if q in ctx.contracts:
                return self.call_contract(ctx.contracts[q], args, kwargs, path, node)
            if q in getattr(ctx, "inline", ()):
                return self.call_inline(q, args, kwargs, path, node)
            if name in ctx.lib:
                ctx.trusted_used.add(name)
                return ctx.lib[name](self, path, args, kwargs, node, fn)
            if q in ctx.lib:
                ctx.trusted_used.add(q)
                return ctx.lib[q](self, path, args, kwargs, node, fn)
            if CFG_MODE[0]:
                return self.opaque_call(name, args, kwargs, path, node)
            raise Unsupported(f"call to {name} has neither a contract nor a library contract (line {node.lineno})")
        if CFG_MODE[0] and isinstance(fn, Opaque):
            r = self.opaque_call(fn.tag, args, kwargs, path, node)
            src = getattr(fn, "attr_of", None)
            if src is not None:
                path.ghost["events"][-1]["recv"] = src[0]      # obj.method(...): the receiver is the object the attribute was read from
            return r
        raise Unsupported(f"call of {fn!r}")

    def opaque_call(self, name, args, kwargs, path, node):
        """effect analysis: a call that is not modelled is an *event* (name, arguments, line) with an opaque result"""
        ev = {"kind": "call", "name": name, "args": list(args), "kwargs": dict(kwargs), "line": getattr(node, "lineno", None)}
        path.ghost.setdefault("events", []).append(ev)
        r = Opaque(name.split(".")[-1] + "_result")
        r.from_call = ev
        return r

    def call_inline(self, qual, args, kwargs, path, node):
        """small repository helpers listed in the contract module's INLINE set are executed on their real source at
        the call site.  Exactly one normally-returning path is required; the conditions of the callee's raising paths
        are excluded from the continuing path (partial correctness: an exception there would propagate)."""
        from .extract import locate
        fs = locate(qual)
        fa = fs.node.args
        names = [a.arg for a in fa.args]
        bound = {}
        for n_, v in zip(names, args):
            bound[n_] = v
        bound.update(kwargs)
        for n_, d in zip(names[len(names) - len(fa.defaults):], fa.defaults):
            if n_ not in bound:
                bound[n_] = self.ev(d, Path())
        sub = Executor(self.ctx, fs, self.contract, self.globals)
        from .verify import module_env
        module_env(fs, sub)
        p0 = Path(bound, path.pc)
        p0.ghost = path.ghost
        saved = self.ctx.fnshort
        outs = sub.run(p0)
        rets = [p for p in outs if p.status == "return"]
        if len(rets) != 1:
            raise Unsupported(f"inlined helper {qual} has {len(rets)} returning paths at this call (line {node.lineno})")
        path.pc[:] = rets[0].pc
        return rets[0].ret

    def resolve_repo(self, name):
        mod = self.fnsrc.qual.rsplit(".", 1)[0] if self.fnsrc else ""
        imports = getattr(self, "imports", {})
        if name in imports:
            return imports[name]
        head = name.split(".")[0]
        if head in imports:
            return imports[head] + name[len(head):]
        return name

    def call_contract(self, c, args, kwargs, path, node):
        """modular call: check callee's requires, havoc result, assume callee's ensures."""
        from .extract import locate
        fs = locate(c.qual)
        fa = fs.node.args
        names = [a.arg for a in fa.args]
        if any(isinstance(d, ast.Name) and d.id == "classmethod" for d in fs.node.decorator_list):
            names = names[1:]
        elif c.qual.endswith(".__init__") and names and names[0] == "self" and not isinstance(getattr(node, "func", None), ast.Attribute) or \
                (c.qual.endswith(".__init__") and names and names[0] == "self" and isinstance(getattr(node, "func", None), ast.Attribute)
                 and getattr(node.func, "attr", "") != "__init__"):
            names = names[1:]       # Class(...) / self.__class__(...): the object under construction is not among the arguments
        bound = {}
        for n_, v in zip(names, args):
            bound[n_] = v
        allnames = set(names) | {a.arg for a in fa.kwonlyargs}
        extra_kw = PyDict()
        for k, v in kwargs.items():
            if k in allnames or fa.kwarg is None:
                bound[k] = v
            else:
                extra_kw = extra_kw.set(k, v)
        if fa.kwarg is not None:
            bound[fa.kwarg.arg] = extra_kw
        # modularity guard: the callee is verified for the parameters its contracts mention (one they do not mention is verified at its default
        # only, jvc/verify.py); a call that passes such a parameter explicitly is outside what was verified
        known = KNOWN_PARAMS.get(c.qual)
        if known is not None:
            for n_ in bound:
                if n_ not in known and n_ not in ("self", "cls") and not (fa.kwarg is not None and n_ == fa.kwarg.arg) \
                        and not (fa.vararg is not None and n_ == fa.vararg.arg):
                    raise Unsupported(f"call at line {node.lineno} passes '{n_}', which no verified contract of {c.qual} mentions")
        defaults = fa.defaults
        for n_, d in zip(names[len(names) - len(defaults):], defaults):
            if n_ not in bound:
                bound[n_] = self.ev(d, Path())
        for a, d in zip(fa.kwonlyargs, fa.kw_defaults):
            if a.arg not in bound and d is not None:
                bound[a.arg] = self.ev(d, Path())
        sub = Executor(self.ctx, fs, c, self.globals)
        sub.imports = getattr(self, "imports", {})
        p2 = Path(bound, path.pc)
        p2.ghost = path.ghost
        sub.old_env = dict(bound)
        for i, r in enumerate(c.requires):
            g = sub.spec(r, p2)
            self.ctx.vc(f"call:{c.short}/requires[{i}]@{node.lineno}", path, g, "call-pre", node.lineno, note=r)
        if c.result is None:
            raise Unsupported(f"contract of {c.qual} has no result builder")
        n_ev = len(path.ghost.get("rng_trace", []))
        res = c.result(self, path, bound, node)
        if getattr(c, "out_params", None) or getattr(c, "returns_self", False):
            res, outs = res
            is_method = isinstance(getattr(node, "func", None), ast.Attribute) and len(args) == len(getattr(node, "args", [])) + 1
            for pn, newv in outs.items():
                k_ = names.index(pn) if pn in names else -1
                if is_method and k_ == 0:
                    self.assign(node.func.value, newv, path)      # the receiver of a method call
                elif k_ >= 0 and (k_ - (1 if is_method else 0)) < len(getattr(node, "args", [])):
                    self.assign(node.args[k_ - (1 if is_method else 0)], newv, path)
                else:
                    raise Unsupported(f"cannot write back out-parameter {pn} of {c.qual}")
                bound[pn] = newv
        p2.env["result"] = res
        p2.pc = path.pc
        # the callee's postcondition speaks about the draws made *during the call* only
        p2.ghost = dict(path.ghost)
        p2.ghost["rng_trace"] = list(path.ghost.get("rng_trace", []))[n_ev:]
        p2.env.update({k_: v_ for k_, v_ in bound.items()})
        for label, e in c.ensures.items():
            fact = sub.spec(e, p2)
            if fact is False:
                raise Unsupported(f"postcondition '{label}' of callee {c.qual} is contradictory at the call site (line {node.lineno})")
            path.assume(fact)
        if self.ctx.callee_hook:
            self.ctx.callee_hook(c.qual)
        return res

    # ---- spec expressions ---------------------------------------------------------------
    def spec(self, text, path, extra=None):
        saved = self.spec_mode
        self.spec_mode = True
        try:
            p2 = path.child()  # facts created while evaluating a spec are kept
            if extra:
                p2.env.update(extra)
            node = ast.parse(text.strip(), mode="eval").body
            v = truth(self.ev(node, p2))
            return v
        finally:
            self.spec_mode = saved

    # ---- assignment ---------------------------------------------------------------------
    def assign(self, target, value, path):
        if isinstance(target, ast.Name):
            path.env[target.id] = value
            return
        if isinstance(target, (ast.Tuple, ast.List)):
            if isinstance(value, PyList) and value.tail is None and len(value.items) == len(target.elts):
                for t, v in zip(target.elts, value.items):
                    self.assign(t, v, path)
                return
            if isinstance(value, (SymSeq, SliceOf, Opaque, PyList)):
                for i, t in enumerate(target.elts):
                    self.assign(t, index(value, i), path)
                return
            raise Unsupported(f"unpacking {value!r}")
        if isinstance(target, ast.Attribute):
            base = self.ev(target.value, path)
            if CFG_MODE[0] and isinstance(base, Opaque):
                path.ghost.setdefault("events", []).append({"kind": "setattr", "name": f"{base.tag}.{target.attr} = ...", "recv": base,
                                                            "line": target.lineno, "args": [value], "kwargs": {}})
                return
            if not isinstance(base, Obj):
                raise Unsupported(f"attribute store on {base!r}")
            eff = path.ghost.setdefault("attr_stores", [])
            eff.append((base.cls, target.attr, target.lineno))
            self.assign(target.value, base.with_field(target.attr, value), path)
            return
        if isinstance(target, ast.Subscript):
            base = self.ev(target.value, path)
            idx = self.ev(target.slice, path)
            self.assign(target.value, self.store(base, idx, value, path, target), path)
            return
        raise Unsupported(f"assignment target {type(target).__name__}")

    def store(self, base, idx, value, path, node):
        if isinstance(base, Obj) and "__setitem__" in base.fields:
            return base.fields["__setitem__"](self, path, base, idx, value, node)
        if isinstance(base, Obj) and f"{base.cls}.__setitem__" in self.ctx.contracts:
            # a mutating method under contract: its result builder returns the updated receiver
            return self.call_contract(self.ctx.contracts[f"{base.cls}.__setitem__"], [base, idx, value], {}, path, node)
        if isinstance(base, PyDict):
            return base.set(idx, value)
        if isinstance(base, PyList) and isinstance(idx, int) and base.tail is None:
            items = list(base.items)
            items[idx] = value
            return PyList(items, None, base.is_tuple)
        if isinstance(base, SymSeq) and is_int(idx):
            old = base
            iz = to_z3(idx)
            return SymSeq(old.length, lambda k, old=old, iz=iz, value=value: merge_ite(to_z3(k) == iz, value, old.elem(k)), old.kind)
        if CFG_MODE[0] and isinstance(base, Opaque):
            path.ghost.setdefault("events", []).append({"kind": "setitem", "name": f"{base.tag}[...] = ...", "recv": base, "line": getattr(node, "lineno", None),
                                                        "args": [idx, value], "kwargs": {}})
            return base
        if isinstance(base, Arr):
            r = arr_store(base, idx, value)
            path.assume(*[f for f in getattr(r, "facts", []) if f is not True and not any(f is g for g in path.pc)])
            return r
        raise Unsupported(f"store into {base!r}[{idx!r}]")

    # ---- statements ---------------------------------------------------------------------
    def exec_block(self, stmts, paths):
        for s in stmts:
            nxt = []
            for p in paths:
                if p.status != "run":
                    nxt.append(p)
                else:
                    nxt.extend(self.exec_stmt(s, p))
            paths = nxt
        return paths

    def exec_stmt(self, s, path):
        m = getattr(self, "st_" + type(s).__name__, None)
        if m is None:
            raise Unsupported(f"statement {type(s).__name__} at line {s.lineno}")
        if getattr(self.ctx, "calls_may_raise", False) and isinstance(s, (ast.Expr, ast.Assign, ast.AugAssign, ast.Return)) \
                and any(isinstance(n, ast.Call) for n in ast.walk(s)):
            # S6 (exceptional contracts): every call is a potential raise point.  The statement either completes, or one of
            # its calls raises before the statement's own effect (assignment) takes place.
            outs = m(s, path.fork())
            failing = path.fork()
            n_ev = len(path.ghost.get("events", []))
            # the calls of the statement may have been (partly) performed before the failing one: keep them as "attempted" events
            attempted = [dict(e, attempted=True) for q in outs[:1] for e in q.ghost.get("events", [])[n_ev:]]
            failing.ghost.setdefault("events", []).extend(attempted)
            failing.status = "raise"
            failing.exc = Exc("<raised by a call at line %d>" % s.lineno, s.lineno)
            failing.exc.stmt = ast.unparse(s)[:200]
            failing.ghost.setdefault("injected_failures", []).append(s.lineno)
            return outs + [failing]
        return m(s, path)

    def st_Pass(self, s, path):
        return [path]

    def st_Import(self, s, path):
        for a in s.names:
            self.ctx.aliases[a.asname or a.name.split(".")[0]] = a.name if a.asname else a.name.split(".")[0]
        return [path]

    def st_ImportFrom(self, s, path):
        mod = s.module or ""
        if s.level:
            base = self.fnsrc.qual.split(".")
            # module path of the function's file
            from .extract import module_path
            parts = self.fnsrc.qual.split(".")
            for cut in range(len(parts) - 1, 0, -1):
                try:
                    module_path(".".join(parts[:cut]))
                    pkg = parts[:cut - 1]
                    break
                except FileNotFoundError:
                    continue
            pkg = pkg[: len(pkg) - (s.level - 1)] if s.level > 1 else pkg
            mod = ".".join(pkg + ([mod] if mod else []))
        imps = getattr(self, "imports", None)
        if imps is None:
            imps = self.imports = {}
        for a in s.names:
            imps[a.asname or a.name] = f"{mod}.{a.name}"
            self.ctx.aliases[a.asname or a.name] = f"{mod}.{a.name}"
        return [path]

    def st_Expr(self, s, path):
        if isinstance(s.value, ast.Constant):
            return [path]  # docstring
        if (isinstance(s.value, ast.ListComp) and len(s.value.generators) == 1 and isinstance(s.value.elt, ast.Call)
                and isinstance(s.value.elt.func, ast.Attribute) and s.value.elt.func.attr in ("append", "setdefault", "update")):
            # [d.setdefault(k, v) for k, v in ...]  ==  for k, v in ...: d.setdefault(k, v)
            g = s.value.generators[0]
            loop = ast.For(target=g.target, iter=g.iter, body=[ast.Expr(value=s.value.elt)], orelse=[])
            ast.copy_location(loop, s)
            ast.fix_missing_locations(loop)
            if not g.ifs:
                return self.st_For(loop, path)
        if isinstance(s.value, ast.Call):
            f = s.value.func
            # dropped (DESIGN 2.2): logger.*, warnings.warn
            if isinstance(f, ast.Attribute) and isinstance(f.value, ast.Name) and f.value.id in ("logger", "warnings"):
                return [path]
            # mutating container methods: rebind the receiver
            if isinstance(f, ast.Attribute) and f.attr in ("append", "extend", "update", "setdefault", "pop"):
                recv = self.ev(f.value, path)
                if isinstance(recv, Obj) and "__mutate__" in recv.fields:
                    args = [self.ev(a, path) for a in s.value.args]
                    self.assign(f.value, recv.fields["__mutate__"](recv, f.attr, args), path)
                    return [path]
                if isinstance(recv, (PyList, SymSeq, PyDict)):
                    args = [self.ev(a, path) for a in s.value.args]
                    new = self.mutate(recv, f.attr, args, path, s)
                    self.assign(f.value, new, path)
                    return [path]
        v = self.ev(s.value, path)
        return [path]

    def mutate(self, recv, meth, args, path, s):
        if meth == "append":
            v = args[0]
            if isinstance(recv, PyList) and recv.tail is None:
                return PyList(recv.items + [v], None, False)
            if isinstance(recv, SymSeq):
                old = recv
                n = old.length
                if old.elem is None:
                    return SymSeq(n + 1, lambda k, v=v: v, old.kind)
                return SymSeq(n + 1, lambda k, old=old, n=n, v=v: merge_ite(to_z3(k) == to_z3(n), v, old.elem(k)), old.kind)
        if meth == "setdefault" and isinstance(recv, PyDict):
            k, v = args[0], (args[1] if len(args) > 1 else None)
            return recv if k in recv.vals else recv.set(k, v)
        if meth == "pop" and isinstance(recv, PyDict) and args and isinstance(args[0], (str, int)):
            return PyDict([(kk, recv.vals[kk]) for kk in recv.keys if kk != args[0]])
        if meth == "update" and isinstance(recv, PyDict) and isinstance(args[0], PyDict):
            d = recv
            for k in args[0].keys:
                d = d.set(k, args[0].vals[k])
            return d
        raise Unsupported(f"mutating method {meth} on {recv!r} (line {s.lineno})")

    def st_Assign(self, s, path):
        if (isinstance(s.value, ast.Call) and isinstance(s.value.func, ast.Attribute) and s.value.func.attr == "setdefault"
                and len(s.value.args) == 2 and not s.value.keywords):
            # x = d.setdefault(k, v): the dict is updated (if k is new) and x is d[k]
            recv = self.ev(s.value.func.value, path)
            if isinstance(recv, PyDict):
                k = self.ev(s.value.args[0], path)
                v = self.ev(s.value.args[1], path)
                new = self.mutate(recv, "setdefault", [k, v], path, s)
                self.assign(s.value.func.value, new, path)
                for t in s.targets:
                    self.assign(t, new.vals[k], path)
                return [path]
        if (isinstance(s.value, ast.Call) and isinstance(s.value.func, ast.Attribute) and s.value.func.attr == "pop"
                and len(s.value.args) == 2 and not s.value.keywords):
            # x = d.pop(key, default) on a dict with concrete keys: the entry is removed (if present) and x is its value, else the default
            recv = self.ev(s.value.func.value, path)
            if isinstance(recv, PyDict):
                k = self.ev(s.value.args[0], path)
                if isinstance(k, (str, int)):
                    if k in recv.vals:
                        v = recv.vals[k]
                        d = PyDict([(kk, recv.vals[kk]) for kk in recv.keys if kk != k])
                        self.assign(s.value.func.value, d, path)
                    else:
                        v = self.ev(s.value.args[1], path)
                    for t in s.targets:
                        self.assign(t, v, path)
                    return [path]
        if (isinstance(s.value, ast.Call) and isinstance(s.value.func, ast.Attribute) and s.value.func.attr == "pop"
                and len(s.value.args) == 1 and not s.value.keywords):
            recv = self.ev(s.value.func.value, path)
            i = self.ev(s.value.args[0], path)
            if isinstance(recv, PyList) and recv.tail is None and isinstance(i, int):
                items = list(recv.items)
                v = items.pop(i)
                self.assign(s.value.func.value, PyList(items, None, recv.is_tuple), path)
                for t in s.targets:
                    self.assign(t, v, path)
                return [path]
        v = self.ev(s.value, path)
        for t in s.targets:
            self.assign(t, v, path)
        return [path]

    def st_AnnAssign(self, s, path):
        if s.value is not None:
            self.assign(s.target, self.ev(s.value, path), path)
        return [path]

    def st_AugAssign(self, s, path):
        load = ast.copy_location(_as_load(s.target), s.target)
        cur = self.ev(load, path)
        rhs = self.ev(s.value, path)
        if isinstance(s.op, ast.BitAnd) and isinstance(cur, Arr):
            r = Arr(cur.shape, lambda *k: z3.And(cur.at(*k), rhs.at(*k)), "bool")
            r.facts = list(getattr(cur, "facts", [])) + list(getattr(rhs, "facts", []))
            v = r
        else:
            v = arith(s.op, cur, rhs, self.ctx, path, s.lineno)
        self.assign(s.target, v, path)
        return [path]

    def st_Return(self, s, path):
        path.ret = self.ev(s.value, path) if s.value is not None else None
        path.status = "return"
        path.ret_line = s.lineno
        return [path]

    def st_Raise(self, s, path):
        cls = "Exception"
        if s.exc is not None:
            e = s.exc
            if isinstance(e, ast.Call):
                e = e.func
            cls = ast.unparse(e)
        path.status = "raise"
        path.exc = Exc(cls, s.lineno)
        return [path]

    def st_Break(self, s, path):
        path.status = "break"
        return [path]

    def st_Continue(self, s, path):
        path.status = "continue"
        return [path]

    def st_Delete(self, s, path):
        if CFG_MODE[0]:
            for t in s.targets:
                base = self.ev(t.value, path) if isinstance(t, ast.Subscript) else None
                path.ghost.setdefault("events", []).append({"kind": "del", "name": "del " + ast.unparse(t), "recv": base, "line": s.lineno,
                                                            "args": [], "kwargs": {}})
            return [path]
        raise Unsupported("del")

    def st_Assert(self, s, path):
        c = truth(self.ev(s.test, path))
        out = []
        if c is not True:
            p2 = path.fork()
            p2.assume(b_not(c))
            p2.status = "raise"
            p2.exc = Exc("AssertionError", s.lineno)
            out.append(p2)
        if c is not False:
            path.assume(c)
            out.append(path)
        return out

    def feasible(self, path):
        if not self.ctx.prune:
            return True
        s = z3.Solver()
        s.set("timeout", 300)
        # quantifier-free part only: fewer hypotheses can only keep more paths (sound), and it is fast
        s.add(*[f for f in path.pc if f is not True and not z3.is_quantifier(f)])
        return s.check() != z3.unsat

    def st_If(self, s, path):
        c = truth(self.ev(s.test, path))
        if isinstance(c, bool):
            return self.exec_block(s.body if c else s.orelse, [path])
        c = z3.simplify(c)
        if z3.is_true(c):
            return self.exec_block(s.body, [path])
        if z3.is_false(c):
            return self.exec_block(s.orelse, [path])
        p_t, p_f = path.fork(), path.fork()
        p_t.assume(c)
        p_f.assume(z3.Not(c))
        out = []
        if self.feasible(p_t):
            out += self.exec_block(s.body, [p_t])
        if self.feasible(p_f):
            out += self.exec_block(s.orelse, [p_f])
        return out

    def st_With(self, s, path):
        suppress = None
        for item in s.items:
            ce = item.context_expr
            if isinstance(ce, ast.Call) and ast.unparse(ce.func).split(".")[-1] == "suppress":
                suppress = (suppress or []) + [ast.unparse(a).split(".")[-1] for a in ce.args]
                continue
            v = self.ev(item.context_expr, path)
            if item.optional_vars is not None:
                self.assign(item.optional_vars, v, path)
        outs = self.exec_block(s.body, [path])
        if suppress is None:
            return outs
        # `with contextlib.suppress(E, ...)`: an exception of a listed class leaving the body is swallowed and control continues after the block.
        # A failure injected at a call (exceptional contracts, S6) has no known class: it may or may not be one of the listed ones - both happen.
        res = []
        for p in outs:
            if p.status != "raise":
                res.append(p)
                continue
            injected = str(getattr(p.exc, "cls", "")).startswith("<raised by a call")
            matches = injected or p.exc.cls in suppress or "Exception" in suppress or "BaseException" in suppress
            if injected:
                res.append(p.fork())
            if matches:
                stmt = getattr(p.exc, "stmt", "") or ""
                if injected and set(suppress) <= {"FileNotFoundError"} and (stmt.startswith("os.unlink(") or stmt.startswith("os.remove(")):
                    # the one failure of a removal that this block tolerates is "the file is already gone": same end state as a removal that
                    # succeeded, and nothing the caller was owed is lost - not a swallowed failure
                    inj = p.ghost.get("injected_failures", [])
                    if inj:
                        inj.pop()
                    p.ghost["events"] = [dict(e, attempted=False) if (e.get("attempted") and e.get("name") in ("os.unlink", "os.remove")) else e
                                         for e in p.ghost.get("events", [])]
                p.status, p.exc = "run", None
                p.ghost.setdefault("suppressed", []).append(s.lineno)
            res.append(p)
        return res

    def st_Try(self, s, path):
        # functional mode: the body is executed; handlers only for exceptions raised *explicitly* inside it
        outs = self.exec_block(s.body, [path])
        res = []
        for p in outs:
            if p.status == "raise":
                handled = False
                for h in s.handlers:
                    hn = ast.unparse(h.type) if h.type is not None else "BaseException"
                    if hn in ("Exception", "BaseException", p.exc.cls) or p.exc.cls in hn:
                        p.status = "run"
                        if h.name:
                            p.env[h.name] = Opaque("exc")
                        res += self.exec_block(h.body, [p])
                        handled = True
                        break
                if not handled:
                    res.append(p)
            elif p.status == "run" and s.orelse:
                res += self.exec_block(s.orelse, [p])
            else:
                res.append(p)
        if s.finalbody:
            fin = []
            for p in res:
                st, rv, ex = p.status, p.ret, p.exc
                p.status = "run"
                for q in self.exec_block(s.finalbody, [p]):
                    if q.status == "run":
                        q.status, q.ret, q.exc = st, rv, ex
                    fin.append(q)
            res = fin
        return res

    def st_FunctionDef(self, s, path):
        path.env[s.name] = NameRef(f"<local>.{s.name}")
        return [path]

    # ---- loops ------------------------------------------------------------------------
    def _loop_ordinal(self, s):
        """loops are numbered by source position inside the function (1-based), so a contract's invariant table does not
        depend on the order in which paths are explored"""
        tbl = getattr(self, "_ordinals", None)
        if tbl is None:
            fors = [n for n in ast.walk(self.fnsrc.node) if isinstance(n, ast.For)] if self.fnsrc is not None else []
            fors.sort(key=lambda n: (n.lineno, n.col_offset))
            tbl = self._ordinals = {(n.lineno, n.col_offset): k + 1 for k, n in enumerate(fors)}
        return tbl.get((s.lineno, getattr(s, "col_offset", 0)), 0)

    def st_For(self, s, path):
        self.loop_counter += 1
        ordinal = self._loop_ordinal(s) or self.loop_counter
        it = self.ev(s.iter, path)
        items = self.iter_concrete(it)
        if items is not None and ordinal in self.contract.invariants:
            items = None
        if items is not None:
            paths, done = [path], []
            for x in items:
                nxt = []
                for p in paths:
                    self.assign(s.target, x, p)
                    for q in self.exec_block(s.body, [p]):
                        if q.status == "break":
                            q.status = "run"
                            done.append(q)
                        elif q.status == "continue":
                            q.status = "run"
                            nxt.append(q)
                        elif q.status == "run":
                            nxt.append(q)
                        else:
                            done.append(q)
                paths = nxt
            # else-clause runs for paths that exhausted the iterable
            if s.orelse:
                paths = self.exec_block(s.orelse, paths)
            return paths + done
        inv = self.contract.invariants.get(ordinal)
        if inv is None:
            summ = self.loop_summary(s, path, it)
            if summ is not None:
                return summ
            inv = self.auto_invariant(s, path, it, ordinal)
        if inv is None:
            raise Unsupported(f"loop #{ordinal} (line {s.lineno}) over a symbolic iterable has no invariant in the contract")
        return self.loop_with_invariant(s, path, it, inv, ordinal)

    def auto_invariant(self, s, path, it, ordinal):
        return None

    def loop_summary(self, s, path, it):
        """Exact summaries of two loop shapes that need no invariant (each iteration touches only its own element):
             for i in range(len(X)): X[i] = E(X[i], i, <loop-invariant names>)          (in-place map)
             for x in SEQ: Y.append(E(x, <loop-invariant names>))   with Y == [] before   (map into a new list)
        Returns the list of resulting paths or None when the loop is not of that shape."""
        r_ = self.array_loop_summary(s, path, it)
        if r_ is not None:
            return r_
        if s.orelse or not s.body:
            return None
        # the element expression may be spelled with loop-local temporaries:  tmp = E1(...); X[i] = E(tmp, X[i], i)
        pre, st = s.body[:-1], s.body[-1]
        if not all(isinstance(p_, ast.Assign) and len(p_.targets) == 1 and isinstance(p_.targets[0], ast.Name) for p_ in pre):
            return None
        temps = {p_.targets[0].id for p_ in pre}
        assigned = assigned_names(s.body) - temps
        # ---- in-place map
        if (isinstance(st, ast.Assign) and len(st.targets) == 1 and isinstance(st.targets[0], ast.Subscript)
                and isinstance(st.targets[0].value, ast.Name) and isinstance(st.targets[0].slice, ast.Name)
                and isinstance(s.target, ast.Name) and st.targets[0].slice.id == s.target.id
                and isinstance(it, Obj) and it.cls == "range"):
            X = st.targets[0].value.id
            seq = path.env.get(X)
            if not isinstance(seq, SymSeq) or assigned - {X, s.target.id}:
                return None
            lo, hi = it.fields["lo"], it.fields["hi"]
            same_len = (not is_z3(hi) and not is_z3(seq.length) and hi == seq.length) or (is_z3(hi) and is_z3(seq.length) and hi.eq(seq.length))
            if not (isinstance(lo, int) and lo == 0 and same_len):
                return None
            # every other use of X inside E must be X[i]
            for n_ in ast.walk(st.value):
                if isinstance(n_, ast.Name) and n_.id == X:
                    par = getattr(n_, "_parent_sub", None)
            if X in temps or s.target.id in temps:
                return None
            exprs = [p_.value for p_ in pre] + [st.value]
            uses = [n_ for e_ in exprs for n_ in ast.walk(e_) if isinstance(n_, ast.Name) and n_.id == X]
            subs = [n_ for e_ in exprs for n_ in ast.walk(e_) if isinstance(n_, ast.Subscript) and isinstance(n_.value, ast.Name)
                    and n_.value.id == X and isinstance(n_.slice, ast.Name) and n_.slice.id == s.target.id]
            if len(uses) != len(subs):
                return None
            base_env = dict(path.env)
            ex = self

            def elem(k, base_env=base_env, st=st, pre=pre, tgt=s.target.id, path=path):
                p2 = path.child()
                p2.env = dict(base_env)
                p2.env[tgt] = k
                for p_ in pre:
                    p2.env[p_.targets[0].id] = ex.ev(p_.value, p2)
                return ex.ev(st.value, p2)
            path.env[X] = SymSeq(seq.length, elem, seq.kind)
            path.env[s.target.id] = fresh_int(s.target.id)
            for t_ in temps:
                path.env[t_] = Opaque(f"loop-temporary:{t_}")
            return [path]
        # ---- append-map
        if (isinstance(st, ast.Expr) and isinstance(st.value, ast.Call) and isinstance(st.value.func, ast.Attribute)
                and st.value.func.attr == "append" and isinstance(st.value.func.value, ast.Name) and len(st.value.args) == 1):
            Y = st.value.func.value.id
            cur = path.env.get(Y)
            if not (isinstance(cur, PyList) and cur.tail is None and not cur.items) or assigned - {Y} - assigned_names([ast.Assign(targets=[s.target], value=ast.Constant(0))]):
                return None
            if any(isinstance(n_, ast.Name) and n_.id == Y for e_ in [p_.value for p_ in pre] + [st.value.args[0]] for n_ in ast.walk(e_)):
                return None
            try:
                lo, hi, elem_of = self.loop_iter_model(it)
            except Unsupported:
                return None
            if not (isinstance(lo, int) and lo == 0):
                return None
            base_env = dict(path.env)
            ex = self
            arg = st.value.args[0]

            def elem(k, base_env=base_env, arg=arg, pre=pre, path=path, elem_of=elem_of, target=s.target):
                p2 = path.child()
                p2.env = dict(base_env)
                ex.assign(target, elem_of(k), p2)
                for p_ in pre:
                    p2.env[p_.targets[0].id] = ex.ev(p_.value, p2)
                return ex.ev(arg, p2)
            path.env[Y] = SymSeq(hi, elem, "list")
            for t_ in temps:
                path.env[t_] = Opaque(f"loop-temporary:{t_}")
            return [path]
        return None

    def array_loop_summary(self, s, path, it):
        """exact summaries of the kernel's two loop shapes (no invariant needed):
           (map)         for i in range(a, N): [for j in range(b, M):]  X[<loop vars>] (= | += | -=) E     E does not read X
           (accumulate)  for n in range(N): [for m in range(M):]  T (+= | -=) E(n[, m])       T's indices do not use n, m; E does not read T's array
        """
        nest, cur = [], s
        while True:
            if cur.orelse or not isinstance(cur.target, ast.Name):
                return None
            itv = it if cur is s else self.ev(cur.iter, path)
            if not (isinstance(itv, Obj) and itv.cls == "range"):
                return None
            nest.append((cur.target.id, itv.fields["lo"], itv.fields["hi"]))
            if len(cur.body) != 1:
                return None
            inner = cur.body[0]
            if isinstance(inner, ast.For):
                # inner range bounds must not depend on outer loop variables
                if any(isinstance(n_, ast.Name) and n_.id in [v for v, _, _ in nest] for n_ in ast.walk(inner.iter)):
                    return None
                cur = inner
                continue
            st = inner
            break
        if len(nest) > 2:
            return None
        lvars = [v for v, _, _ in nest]
        if isinstance(st, ast.Assign) and len(st.targets) == 1:
            tgt, op, rhs = st.targets[0], None, st.value
        elif isinstance(st, ast.AugAssign) and isinstance(st.op, (ast.Add, ast.Sub)):
            tgt, op, rhs = st.target, st.op, st.value
        else:
            return None
        # root array / scalar of the target
        root = tgt
        while isinstance(root, (ast.Subscript,)):
            root = root.value
        root_src = ast.unparse(root)
        idx_nodes = []
        if isinstance(tgt, ast.Subscript):
            if ast.unparse(tgt.value) != root_src:
                return None
            sl = tgt.slice
            idx_nodes = list(sl.elts) if isinstance(sl, ast.Tuple) else [sl]
        uses_lv = [[n_.id for n_ in ast.walk(ix) if isinstance(n_, ast.Name) and n_.id in lvars] for ix in idx_nodes]
        rhs_reads_root = any(ast.unparse(n_) == root_src for n_ in ast.walk(rhs) if isinstance(n_, (ast.Attribute, ast.Name)))
        if rhs_reads_root:
            return None
        base_env = dict(path.env)
        ex = self
        cur_val = self.ev(_as_load(root), path)

        def ev_with(bind, node):
            p2 = path.child()
            p2.env = dict(base_env)
            p2.env.update(bind)
            return ex.ev(node, p2)
        # ---- map / elementwise update: every loop variable of the nest is one index position (each once); the remaining
        #      index positions are expressions that do not depend on the nest's variables (a fixed row / column)
        def _affine(ix):
            """(loop var, constant offset) for an index of the form v, c + v or v + c"""
            if isinstance(ix, ast.Name) and ix.id in lvars:
                return ix.id, 0
            if isinstance(ix, ast.BinOp) and isinstance(ix.op, ast.Add):
                a_, b_ = ix.left, ix.right
                if isinstance(a_, ast.Constant) and isinstance(a_.value, int) and isinstance(b_, ast.Name) and b_.id in lvars:
                    return b_.id, a_.value
                if isinstance(b_, ast.Constant) and isinstance(b_.value, int) and isinstance(a_, ast.Name) and a_.id in lvars:
                    return a_.id, b_.value
            return None
        aff = [_affine(ix) for ix in idx_nodes]
        lv_positions = [a_[0] for a_ in aff if a_ is not None]
        other_ok = all(a_ is not None or not u_ for a_, u_ in zip(aff, uses_lv))
        if idx_nodes and other_ok and sorted(lv_positions) == sorted(lvars) and isinstance(cur_val, Arr) and cur_val.ndim == len(idx_nodes):
            old = cur_val
            fixed = {d: ev_with({}, ix) for d, ix in enumerate(idx_nodes) if aff[d] is None}

            def at(*k, old=old, nest=nest, op=op, rhs=rhs, fixed=fixed, aff=aff):
                kz = [to_z3(x) for x in k]
                bind, conds = {}, []
                for d, ix in enumerate(idx_nodes):
                    if d in fixed:
                        conds.append(kz[d] == to_z3(fixed[d]))
                    else:
                        vname, off = aff[d]
                        v, lo_, hi_ = nest[lvars.index(vname)]
                        bind[v] = kz[d] - off
                        conds.append(z3.And(kz[d] - off >= to_z3(lo_), kz[d] - off < to_z3(hi_)))
                e = ev_with(bind, rhs)
                want = "real" if old.dtype == "real" else None
                e = to_z3(e, want)
                if op is not None:
                    e = old.at(*k) + e if isinstance(op, ast.Add) else old.at(*k) - e
                return z3.If(z3.And(*conds), e, old.at(*k))
            new = Arr(old.shape, at, old.dtype, old.name)
            new.facts = list(getattr(old, "facts", []))
            self.assign(root, new, path)
            for v, _, _ in nest:
                path.env[v] = fresh_int(v)
            return [path]
        # ---- accumulation: target cell does not depend on the loop variables
        if op is not None and not any(uses_lv) and (not idx_nodes or isinstance(cur_val, Arr)):
            def term(*nv, nest=nest, rhs=rhs):
                return to_z3(ev_with({v: x for (v, _, _), x in zip(nest, nv)}, rhs), "real")
            for v, lo_, _ in nest:
                if not (isinstance(lo_, int) and lo_ == 0):
                    return None
            if len(nest) == 1:
                total = make_sum(lambda n_: term(n_), nest[0][2], path)
            else:
                total = make_sum(lambda n_: make_sum(lambda m_: term(n_, m_), nest[1][2], path), nest[0][2], path)
            tload = self.ev(_as_load(tgt), path)
            newv = arith(op, tload, total, None, None, s.lineno)
            self.assign(tgt, newv, path)
            for v, _, _ in nest:
                path.env[v] = fresh_int(v)
            return [path]
        return None

    def loop_iter_model(self, it):
        """-> (lo, hi, elem(k)) : the loop runs k = lo .. hi-1 and binds target to elem(k)"""
        if isinstance(it, Obj) and it.cls == "range":
            return it.fields["lo"], it.fields["hi"], (lambda k: k)
        if isinstance(it, Obj) and it.cls == "enumerate":
            inner = it.fields["it"]
            if isinstance(inner, Obj) and inner.cls == "zip":
                lo_, hi_, el_ = self.loop_iter_model(inner)
                return lo_, hi_, (lambda k: PyList([k, el_(k)], None, True))
            return 0, length(inner), (lambda k: PyList([k, index(inner, k)], None, True))
        if isinstance(it, (SymSeq, SliceOf, Arr, Opaque)):
            return 0, length(it), (lambda k: index(it, k))
        if isinstance(it, Obj) and it.cls == "zip":
            parts = it.fields["its"]
            # zip stops at the shortest; the verified call sites zip sequences of equal length (first one taken)
            return 0, length(parts[0]), (lambda k: PyList([index(x, k) for x in parts], None, True))
        raise Unsupported(f"iteration over {it!r}")

    def loop_with_invariant(self, s, path, it, inv, ordinal):
        ctx = self.ctx
        lo, hi, elem = self.loop_iter_model(it)
        modified = sorted(assigned_names(s.body) | assigned_names([ast.Assign(targets=[s.target], value=ast.Constant(0))]))
        written = self.written_attrs(s.body)
        itname = "_it"
        tag = f"loop{ordinal}"

        def inv_at(p, k, label_expr):
            return self.spec(label_expr, p, {itname: k, **self._target_env(s.target, elem, k, p)})

        # 1. initialisation
        if is_z3(to_z3(hi) - to_z3(lo)) or True:
            for label, e in inv.items():
                ctx.vc(f"{tag}/init/{label}", path, inv_at(path, lo, e), "invariant", s.lineno, note=e)
        # 2. dry run for the shapes of loop-carried values
        saved_emit = ctx.emit
        ctx.emit = False
        try:
            dry = path.fork()
            k0 = fresh_int("k0")
            self.assign(s.target, elem(k0), dry)
            lc = self.loop_counter
            outs = self.exec_block(s.body, [dry])
            self.loop_counter = lc
        finally:
            ctx.emit = saved_emit
        shapes = {}
        n_tr0 = len(path.ghost.get("rng_trace", []))
        body_gens = set()
        for q in outs:
            for e in q.ghost.get("rng_trace", [])[n_tr0:]:
                body_gens.add(e["gen"])
            if q.status in ("run", "continue", "break"):
                for m in modified:
                    if m in q.env:
                        shapes.setdefault(m, q.env[m])
        pre_env = dict(path.env)
        for m in modified:
            a, b = pre_env.get(m), shapes.get(m)
            if isinstance(a, Arr) and isinstance(b, Arr) and a.ndim == b.ndim:
                same = all((x is y) or (not is_z3(x) and not is_z3(y) and x == y) or (is_z3(x) and is_z3(y) and x.eq(y))
                           for x, y in zip(a.shape, b.shape))
                if not same:
                    b.fixed_shape = False

        def havoc_state():
            h = path.fork()
            for m in modified:
                tmpl = shapes.get(m, pre_env.get(m))
                if m in pre_env and _is_scalar(pre_env[m]) and _is_scalar(tmpl):
                    tmpl = _widen(pre_env[m], tmpl)
                h.env[m] = havoc_like(tmpl, m, pre_env, written.get(m))
            if body_gens:
                # draws made by earlier iterations: unknown in number; they came from the same call sites as this
                # iteration's draws, so their generator is the one the dry run saw
                h.ghost.setdefault("rng_trace", []).append(
                    {"gen": next(iter(body_gens)) if len(body_gens) == 1 else "<mixed>", "kind": "loop-prefix",
                     "size": -1, "value": None, "line": s.lineno})
            return h

        # 3. preservation
        h = havoc_state()
        k = fresh_int(tag + "_k")
        h.assume(to_z3(lo) <= k, k < to_z3(hi))
        for label, e in inv.items():
            h.assume(inv_at(h, k, e))
        self.assign(s.target, elem(k), h)
        results = []
        lc = self.loop_counter
        head_env = dict(h.env)
        body_out = self.exec_block(s.body, [h])
        self.loop_counter = lc
        body_ens = getattr(self.contract, "body_ensures", {}).get(ordinal, {})
        for q in body_out:
            if q.status in ("run", "continue"):
                for label, e in inv.items():
                    ctx.vc(f"{tag}/preserve/{label}", q, inv_at(q, k + 1, e), "invariant", s.lineno, note=e)
                # per-iteration contract: proved for an arbitrary iteration started from an arbitrary (havocked) loop state
                saved_head = getattr(self, "head_env", None)
                self.head_env = head_env
                try:
                    for label, e in body_ens.items():
                        ctx.vc(f"{tag}/iteration/{label}", q, self.spec(e, q, {itname: k}), "iteration", s.lineno, note=e)
                finally:
                    self.head_env = saved_head
            elif q.status == "break":
                q.status = "run"
                results.append(q)
            else:
                results.append(q)
        # 4. exit
        x = havoc_state()
        kx = fresh_int(tag + "_exit")
        x.assume(kx == z_max(to_z3(lo), to_z3(hi)))
        for label, e in inv.items():
            x.assume(inv_at(x, kx, e))
        if s.orelse:
            results += self.exec_block(s.orelse, [x])
        else:
            results.append(x)
        return results

    def written_attrs(self, stmts):
        """name -> set of first-level attributes of that object assigned in stmts ('*' = unknown): direct stores,
        by-reference (&obj.attr...) arguments, out-parameters and `modifies` lists of callees under contract"""
        out = {}

        def chain(t):
            attrs = []
            while isinstance(t, (ast.Attribute, ast.Subscript)):
                if isinstance(t, ast.Attribute):
                    attrs.append(t.attr)
                t = t.value
            return (t.id if isinstance(t, ast.Name) else None), list(reversed(attrs))

        def note(t):
            root, attrs = chain(t)
            if root is None:
                return
            out.setdefault(root, set()).add(attrs[0] if attrs else "*")
        for st in stmts:
            for n in ast.walk(st):
                if isinstance(n, ast.Assign):
                    for t in n.targets:
                        for e in (t.elts if isinstance(t, (ast.Tuple, ast.List)) else [t]):
                            if isinstance(e, (ast.Attribute, ast.Subscript)):
                                note(e)
                elif isinstance(n, (ast.AugAssign, ast.AnnAssign)) and isinstance(n.target, (ast.Attribute, ast.Subscript)):
                    note(n.target)
                elif isinstance(n, ast.Call):
                    for a in n.args:
                        if isinstance(a, ast.UnaryOp) and isinstance(a.op, ast.Invert):
                            note(a.operand)
                    # callee under contract: out-params and modifies
                    c = None
                    if isinstance(n.func, ast.Attribute) and isinstance(n.func.value, ast.Name):
                        for key, cc in self.ctx.contracts.items():
                            if key.endswith("." + n.func.attr) and getattr(cc, "modifies", None) is not None:
                                c = cc
                                break
                        if c is not None:
                            out.setdefault(n.func.value.id, set()).update(c.modifies)
                    elif isinstance(n.func, ast.Name):
                        q = self.resolve_repo(n.func.id)
                        cc = self.ctx.contracts.get(q)
                        if cc is not None and getattr(cc, "out_params", None):
                            from .extract import locate
                            names = [a.arg for a in locate(cc.qual).node.args.args]
                            for pn in cc.out_params:
                                k = names.index(pn)
                                if k < len(n.args):
                                    note(n.args[k])
                elif isinstance(n, ast.Expr) and isinstance(n.value, ast.Call) and isinstance(n.value.func, ast.Attribute) \
                        and n.value.func.attr in ("append", "extend", "update", "setdefault", "pop"):
                    note(n.value.func.value)
        return out

    def _target_env(self, target, elem, k, p):
        tmp = Path()
        self.assign(target, elem(k), tmp)
        return tmp.env

    # ---- whole function ------------------------------------------------------------------
    def run(self, init_path):
        node = self.fnsrc.node
        paths = self.exec_block(node.body, [init_path])
        for p in paths:
            if p.status == "run":
                p.status = "return"
                p.ret = None
        return paths


def _as_load(t):
    t2 = ast.parse(ast.unparse(t), mode="eval").body
    for n in ast.walk(t2):
        if hasattr(n, "lineno"):
            n.lineno = getattr(t, "lineno", 0)
    return t2


def _is_scalar(v):
    return is_z3(v) or isinstance(v, (int, float, Fraction, bool))


def _widen(a, b):
    if is_real(a) or is_real(b):
        return z3.RealVal(0)
    if is_bool(a) and is_bool(b):
        return z3.BoolVal(False)
    return z3.IntVal(0)


def assigned_names(stmts):
    out = set()

    def root(t):
        while isinstance(t, (ast.Attribute, ast.Subscript)):
            t = t.value
        return t.id if isinstance(t, ast.Name) else None
    for st in stmts:
        for n in ast.walk(st):
            if isinstance(n, (ast.Assign,)):
                for t in n.targets:
                    for e in ([t] if not isinstance(t, (ast.Tuple, ast.List)) else t.elts):
                        r = root(e)
                        if r:
                            out.add(r)
            elif isinstance(n, (ast.AugAssign, ast.AnnAssign)):
                r = root(n.target)
                if r:
                    out.add(r)
            elif isinstance(n, ast.For):
                for e in ([n.target] if not isinstance(n.target, (ast.Tuple, ast.List)) else n.target.elts):
                    r = root(e)
                    if r:
                        out.add(r)
            elif isinstance(n, ast.Expr) and isinstance(n.value, ast.Call) and isinstance(n.value.func, ast.Attribute) \
                    and n.value.func.attr in ("append", "extend", "update", "setdefault", "pop"):
                r = root(n.value.func.value)
                if r:
                    out.add(r)
            elif isinstance(n, ast.Call) and any(isinstance(a, ast.UnaryOp) and isinstance(a.op, ast.Invert) for a in n.args):
                for a in n.args:
                    if isinstance(a, ast.UnaryOp) and isinstance(a.op, ast.Invert):
                        r = root(a.operand)
                        if r:
                            out.add(r)
            elif isinstance(n, ast.With):
                for item in n.items:
                    if item.optional_vars is not None:
                        r = root(item.optional_vars)
                        if r:
                            out.add(r)
    return out


def havoc_like(tmpl, name, pre_env, written=None):
    """fresh value with the shape of tmpl (loop havoc).  For objects only the attributes in `written` change."""
    stable = [v for v in pre_env.values()]
    if isinstance(tmpl, bool) or (is_z3(tmpl) and tmpl.sort() == z3.BoolSort()):
        return fresh_bool(name)
    if is_int(tmpl):
        return fresh_int(name)
    if is_real(tmpl):
        return fresh_real(name)
    if isinstance(tmpl, SymSeq):
        n = fresh_int(name + "_len")
        kk = z3.Int(fresh_name("tk"))
        if tmpl.elem is None:
            return SymSeq(n, None, tmpl.kind)
        t_el = tmpl.elem(kk)
        leaves = {}

        def mk(k, t_el=t_el, leaves=leaves):
            cnt = itertools.count()

            def leaf(v):
                i = next(cnt)
                if isinstance(v, Opaque):
                    if any(v is s for s in stable) or not _mentions(v.term, kk):
                        return v
                    if i not in leaves:
                        leaves[i] = fresh_fn(f"{name}_o{i}", z3.IntSort(), PyObj)
                    return Opaque(v.tag, leaves[i](to_z3(k)))
                if i not in leaves:
                    leaves[i] = fresh_fn(f"{name}_f{i}", z3.IntSort(), v.sort())
                return leaves[i](to_z3(k))
            return map_leaves(t_el, leaf)
        s = SymSeq(n, mk, tmpl.kind)
        s.nonneg = True
        return s
    if isinstance(tmpl, PyList):
        if tmpl.tail is None:
            # a list that grows in the loop: becomes a symbolic sequence
            if not tmpl.items:
                return SymSeq(fresh_int(name + "_len"), None)
            el = tmpl.items[-1]
            return havoc_like(SymSeq(0, lambda k, el=el: el), name, pre_env)
        raise Unsupported("havoc of list with tail")
    if isinstance(tmpl, Arr):
        sort = {"real": z3.RealSort(), "int": z3.IntSort(), "bool": z3.BoolSort()}[tmpl.dtype]
        f = fresh_fn(name, *([z3.IntSort()] * tmpl.ndim + [sort]))
        shape = list(tmpl.shape) if getattr(tmpl, "fixed_shape", True) else [fresh_int(name + "_n") for _ in tmpl.shape]
        a = Arr(shape, lambda *idx, f=f: f(*[to_z3(i) for i in idx]), tmpl.dtype, name)
        a.fixed_shape = getattr(tmpl, "fixed_shape", True)
        if not a.fixed_shape:
            a.facts = [d >= 0 for d in shape]
        return a
    if isinstance(tmpl, Obj):
        mut = set(getattr(tmpl, "mutable_fields", ()))
        if written is not None:
            if "*" not in written:
                mut = set(written)
        o = Obj(tmpl.cls, {k: (havoc_like(v, f"{name}.{k}", pre_env) if k in mut and not callable(v) else v)
                           for k, v in tmpl.fields.items()}, tmpl.ident)
        o.mutable_fields = getattr(tmpl, "mutable_fields", ())
        for extra in ("type_pred", "bases"):
            if hasattr(tmpl, extra):
                setattr(o, extra, getattr(tmpl, extra))
        return o
    if isinstance(tmpl, Opaque):
        return Opaque(tmpl.tag)
    if tmpl is None or isinstance(tmpl, (str, NameRef)):
        return tmpl
    raise Unsupported(f"cannot havoc value of shape {tmpl!r} (variable {name})")


def _mentions(term, var):
    seen = set()
    stack = [term]
    while stack:
        t = stack.pop()
        if t.get_id() in seen:
            continue
        seen.add(t.get_id())
        if t.eq(var):
            return True
        stack.extend(t.children())
    return False


_SUM_FUNCS = {}
_SUM_DEPTH = [0]
SUM_CONGRUENCE = [False]     # opt-in per contract: add sum-congruence facts between differently written sums on a path


def _int_consts(e, skip):
    """free 0-ary Int constants of e in first-occurrence (DFS, left to right) order"""
    out, seen, stack = [], set(), [e]
    order = []
    def walk(t):
        if t.get_id() in seen:
            return
        seen.add(t.get_id())
        if z3.is_const(t) and t.decl().kind() == z3.Z3_OP_UNINTERPRETED and t.sort() == z3.IntSort():
            if not any(t.eq(x) for x in skip):
                order.append(t)
            return
        if z3.is_quantifier(t):
            walk(t.body())
            return
        for ch in t.children():
            walk(ch)
    walk(e)
    return order


def _shape_key(e):
    """sexpr of e with every free Int constant other than a summation placeholder masked: an ordering key that does not depend on the names
    of loop / bound variables (which differ between the code and a contract)"""
    cs = [c for c in _int_consts(e, []) if not c.decl().name().startswith("sum__n")]
    q = z3.Int("sum__any")
    return z3.substitute(e, *[(c, q) for c in cs]).sexpr() if cs else e.sexpr()


def _ac_norm(e):
    """normal form modulo associativity / commutativity of real and integer + and *: nested sums / products are flattened and their operands put
    in a fixed order, so that `a * b * c` and `b * (a * c)` summed in the code and in a contract denote the same Sum function (z3's arithmetic is AC,
    but an uninterpreted Sum keyed by its body is not)."""
    if not z3.is_app(e) or z3.is_quantifier(e) or e.num_args() == 0:
        return e
    k = e.decl().kind()
    if k in (z3.Z3_OP_MUL, z3.Z3_OP_ADD):
        flat = []

        def gather(t):
            if z3.is_app(t) and t.decl().kind() == k:
                for ch in t.children():
                    gather(ch)
            else:
                flat.append(_ac_norm(t))
        gather(e)
        flat.sort(key=_shape_key)      # stable: operands of equal shape keep their source order
        out = flat[0]
        for t in flat[1:]:
            out = out * t if k == z3.Z3_OP_MUL else out + t
        return out
    ch = [_ac_norm(c) for c in e.children()]
    try:
        return e.decl()(*ch)
    except Exception:       # noqa
        return e


def make_sum(body_fn, upto, path, tag="Sum"):
    """Sum(body, upto) = body(0) + ... + body(upto-1) as an application of a function S defined by
         S(p.., 0) = 0,   S(p.., n+1) = S(p.., n) + body(p.., n)   (n >= 0)
    p.. are the integer constants occurring in the body (loop variables, bound variables, sizes): abstracting them makes
    the same source expression summed in the code and in a contract denote the same function."""
    # one placeholder per nesting depth (an inner sum is built while the outer body is being evaluated)
    depth = _SUM_DEPTH[0]
    place = z3.Int(f"sum__n{depth}")
    _SUM_DEPTH[0] += 1
    try:
        body0 = _ac_norm(to_z3(body_fn(place), "real"))
    finally:
        _SUM_DEPTH[0] -= 1
    _SUM_PLACE = place
    params = _int_consts(body0, [_SUM_PLACE])
    places = [z3.Int(f"sum__p{k}") for k in range(len(params))]
    canon = z3.Int("sum__n")           # the summation index in the generic (depth-independent) form
    generic = z3.substitute(body0, *([(p_, q_) for p_, q_ in zip(params, places)] + [(_SUM_PLACE, canon)]))
    _SUM_PLACE = canon
    key = generic.sexpr()
    if key not in _SUM_FUNCS:
        S = z3.Function(f"{tag}!{len(_SUM_FUNCS)}", *([z3.IntSort()] * (len(params) + 1) + [z3.RealSort()]))
        n = z3.Int("n!sum")
        ax = [S(*(places + [z3.IntVal(0)])) == 0,
              z3.Implies(n >= 0, S(*(places + [n + 1])) == S(*(places + [n])) + z3.substitute(generic, (_SUM_PLACE, n)))]
        if places:
            ax = [z3.ForAll(places, ax[0], patterns=[S(*(places + [z3.IntVal(0)]))]),
                  z3.ForAll(places + [n], ax[1], patterns=[S(*(places + [n + 1]))])]
        else:
            ax = [ax[0], z3.ForAll([n], ax[1], patterns=[S(n + 1)])]
        _SUM_FUNCS[key] = (S, ax)
    S, ax = _SUM_FUNCS[key]
    done = path.ghost.setdefault("sum_axioms", set())
    if key not in done:
        done.add(key)
        path.assume(*ax)
    total = S(*(params + [to_z3(upto)]))
    # sum congruence (Lean: Finset.sum_congr): two sums over the same range whose terms agree pointwise are equal.  Stated for
    # every pair of top-level sums on this path (differently written, arithmetically equal summands denote different functions)
    if depth == 0 and SUM_CONGRUENCE[0]:
        reg = path.ghost.setdefault("sum_registry", [])
        n_ = to_z3(upto)
        for (fn2, total2, n2, key2) in reg:
            if key2 != key and len(reg) < 12:
                j = z3.Int(fresh_name("j"))
                try:
                    eq = to_z3(body_fn(j), "real") == to_z3(fn2(j), "real")
                    path.assume(z3.Implies(z3.And(n_ == n2, z3.ForAll([j], z3.Implies(z3.And(0 <= j, j < n_), eq))), total == total2))
                except Unsupported:
                    pass
        reg.append((body_fn, total, n_, key))
    return total


def arr_store(a, idx, value):
    idxs = idx.items if isinstance(idx, PyList) and idx.is_tuple else [idx]
    idxs = list(idxs)
    if len(idxs) == a.ndim and all(is_int(i) for i in idxs):
        iz = [to_z3(a.shape[d] + i if isinstance(i, int) and i < 0 else i) for d, i in enumerate(idxs)]
        want = "real" if a.dtype == "real" else None
        vz = to_z3(value, want) if not isinstance(value, bool) or a.dtype == "bool" else to_z3(int(value), want)

        def at(*k, a=a, iz=iz, vz=vz):
            return z3.If(z3.And(*[to_z3(x) == y for x, y in zip(k, iz)]), vz, a.at(*k))
        r = Arr(a.shape, at, a.dtype, a.name)
        r.facts = list(getattr(a, "facts", []))
        return r
    # slice / column store:  a[:, i] = arr ;  a[mask, j] = scalar ; a[:] = arr
    conds, maps = [], []
    for d in range(a.ndim):
        i = idxs[d] if d < len(idxs) else SliceV(None, None, None)
        maps.append(i)

    def at(*k, a=a, maps=maps, value=value):
        cond, src_idx = [], []
        for d, i in enumerate(maps):
            kd = to_z3(k[d])
            if isinstance(i, SliceV):
                lo, hi = norm_slice(i, a.shape[d])
                cond.append(z3.And(kd >= to_z3(lo), kd < to_z3(hi)))
                src_idx.append(kd - to_z3(lo))
            elif is_int(i):
                cond.append(kd == to_z3(i))
            elif isinstance(i, Arr) and i.dtype == "bool":
                cond.append(i.at(kd))
                # x[mask] = values : the k-th True position receives values[rank of k among the True positions]
                src_idx.append(where_of(i).pos(kd))
            else:
                raise Unsupported(f"array store index {i!r}")
        if isinstance(value, Arr):
            v = value.at(*src_idx[:value.ndim])
        else:
            v = to_z3(value, "real" if a.dtype == "real" else None)
        if a.dtype == "real" and is_z3(v) and v.sort() == z3.IntSort():
            v = z3.ToReal(v)
        return z3.If(z3.And(*cond), v, a.at(*k))
    r = Arr(a.shape, at, a.dtype, a.name)
    r.facts = list(getattr(a, "facts", [])) + (list(getattr(value, "facts", [])) if isinstance(value, Arr) else [])
    for i in maps:
        if isinstance(i, Arr) and i.dtype == "bool":
            r.facts += list(where_of(i).facts)
    return r
