"""check <Cxx> [--tier quick|thorough] [--replay FILE]

Exit codes: 0 every obligation discharged (KNOWN-FINDING lines for listed open findings);
            1 VIOLATION (refuted obligation or native twin failure that is not a listed finding);
            2 undecided (unknown / timeout / construct outside the subset / obligations missing);
            3 checker crash.
"""
import argparse
import hashlib
import importlib
import json
import multiprocessing as mp
import os
import re
import subprocess
import sys
import time
import traceback

ROOT = os.path.dirname(os.path.dirname(os.path.abspath(__file__)))
sys.path.insert(0, ROOT)
OUT = os.environ.get("VERIF_OUT_DIR") or os.path.join(ROOT, "out")
VENV_PY = os.environ.get("VERIF_REPLAY_PY", "/venv/bin/python")

SEMANTICS = [
    "S1 Python int = mathematical integer (exact); C int in the kernel treated as mathematical (sizes < 2^31)",
    "S2 float/double = mathematical real: no rounding, NaN or Inf; 'equal up to round-off' is decided as equality over R",
    "S3 exp/log/sqrt/cos/sin/pow are uninterpreted; only the axioms named by a contract are available",
    "S4 arrays are (shape, index->value) functions; fancy/boolean indexing copies; no store through an alias",
    "S5 dicts keep insertion order",
    "S6 functional contracts are partial-correctness (normal return); exceptional contracts treat every call as a raise point",
    "S7 calls: repo function under contract -> its contract; dependency -> library contract (listed); else unsupported",
    "S8 termination not proved",
    "S9 pool.map(f, tasks) == [f(t) for t in tasks], in order, exceptions re-raised",
]


def lock_key(name):
    return re.sub(r"(@\d+)?(#\d+)?$", "", re.sub(r"@\d+", "", name))


def _worker(args):
    prop, idx, timeout_ms, cross = args
    os.environ.setdefault("VERIF_OUT", OUT)
    from jvc import smt, verify
    from jvc.lib import LIB
    mod = importlib.import_module("contracts." + prop.lower())
    c = mod.CONTRACTS[idx]
    # which parameters the verified contracts of each function speak about (call-site guard in Executor.call_contract)
    from jvc import symexec as _sx
    for c_ in mod.CONTRACTS:
        if c_.params or any(k for cs in c_.cases for k in cs if not k.startswith("_")):
            _sx.KNOWN_PARAMS.setdefault(c_.qual, set()).update(c_.params, *[[k for k in cs if not k.startswith("_")] for cs in c_.cases])
    t0 = time.time()
    out = {"qual": c.qual, "idx": idx, "vcs": [], "error": None, "covers": [], "trusted": [], "src": None,
           "notes": c.notes, "vacuous": []}
    try:
        lib = dict(LIB)
        # a contract borrowed from another property's module brings its own tables: the host module's overrides must not leak into it
        home = getattr(c, "home", None)
        if home is not None:
            hm = importlib.import_module("contracts." + home)
            lib.update(getattr(hm, "LIB", {}))
        elif hasattr(mod, "LIB"):
            lib.update(mod.LIB)
        callees = getattr(c, "callees", None) or getattr(mod, "CALLEES", {})
        if getattr(c, "lib", None):
            lib.update(c.lib)
        res = verify.verify_function(prop, c, callees, lib, hooks=getattr(c, "hooks", None) or getattr(importlib.import_module("contracts." + home) if home is not None else mod, "HOOKS", None))
        out["src"] = res.fs.describe()
        out["error"] = res.error
        out["paths"] = res.paths
        out["trusted"] = sorted(getattr(res, "trusted", []))
        axioms = []
        amod = importlib.import_module("contracts." + home) if home is not None else mod
        if hasattr(amod, "AXIOMS"):
            axioms = amod.AXIOMS(c) if callable(amod.AXIOMS) else list(amod.AXIOMS)
        n_unknown = 0
        for vc in res.vcs:
            vc.hyps = list(axioms) + vc.hyps
            d = smt.discharge(vc, timeout_ms, cross=cross, light=n_unknown >= 4)
            if d["status"] == "unknown":
                n_unknown += 1
                if n_unknown > 4:
                    d["reason"] = (d.get("reason") or "") + " (short budget: this contract already had 4 undecided obligations)"
            d.pop("z3model", None)
            d["kind"] = vc.kind
            d["line"] = vc.line
            d["fn"] = vc.fn
            d["note"] = vc.note
            d["size"] = sum(len(str(h)) for h in vc.hyps[-3:]) + len(str(vc.goal))
            out["vcs"].append(d)
        for fn, cv, hyps in res.covers:
            st, _ = smt.satisfiable(list(axioms) + hyps)
            out["covers"].append({"fn": fn, "cover": cv, "status": st})
        for fn, hyps in getattr(res, "pre_paths", []):
            st, _ = smt.satisfiable(list(axioms) + hyps)
            if st == "unsat":
                out["vacuous"].append(fn)
        # canary: at least one normally-returning path per case must have consistent hypotheses
        alive = {}
        for fn, hyps in getattr(res, "ret_paths", []):
            import z3 as _z3
            st, _ = smt.satisfiable([h for h in list(axioms) + hyps if h is not True and not _z3.is_quantifier(h)], 1000)
            alive[fn] = alive.get(fn, False) or st != "unsat"
        for fn, ok in alive.items():
            if not ok:
                out["vacuous"].append(fn + " (every returning path has contradictory hypotheses)")
        out["canaries"] = len(alive)
    except Exception:
        out["error"] = "checker crash: " + traceback.format_exc()[-1500:]
        out["crash"] = True
    out["seconds"] = round(time.time() - t0, 3)
    return out


def run_prover(prop, tier):
    mod = importlib.import_module("contracts." + prop.lower())
    n = len(mod.CONTRACTS)
    timeout_ms = 8000 if tier == "quick" else 120000
    cross = tier == "thorough"
    tasks = [(prop, i, timeout_ms, cross) for i in range(n)]
    if n == 0:
        return mod, []
    procs = min(n, int(os.environ.get("VERIF_JOBS", "12")))
    ctx = mp.get_context("fork")
    with ctx.Pool(procs) as pool:
        results = pool.map(_worker, tasks, chunksize=1)
    return mod, results


def run_lean(mod, tier):
    """Lean lemma layer: each file must check without errors and without `sorry`."""
    out = []
    for f in getattr(mod, "LEMMAS", []):
        path = os.path.join(ROOT, "lemmas", f)
        src = open(path).read()
        h = hashlib.sha256(src.encode()).hexdigest()
        cache = os.path.join(ROOT, "lemmas", ".cache.json")
        cached = {}
        if os.path.exists(cache):
            try:
                cached = json.load(open(cache))
            except Exception:
                cached = {}
        if tier == "quick" and cached.get(f, {}).get("sha256") == h and cached[f].get("ok"):
            out.append({"file": f, "ok": True, "cached": True, "sha256": h, "theorems": cached[f].get("theorems", []),
                        "seconds": cached[f].get("seconds")})
            continue
        t0 = time.time()
        try:
            p = subprocess.run(["lean", path], capture_output=True, text=True, timeout=1500,
                               cwd="/opt/veriftools/mathlib4", env={**os.environ})
            ok = p.returncode == 0 and "sorry" not in p.stdout and "error" not in p.stdout
            msg = (p.stdout + p.stderr)[-800:]
        except Exception as e:
            ok, msg = False, str(e)
        thms = re.findall(r"^(?:theorem|lemma)\s+(\S+)", src, re.M)
        rec = {"file": f, "ok": ok, "cached": False, "sha256": h, "theorems": thms, "seconds": round(time.time() - t0, 1),
               "msg": "" if ok else msg}
        out.append(rec)
        cached[f] = rec
        try:
            json.dump(cached, open(cache, "w"), indent=1)
        except OSError:
            pass
    return out


def run_twin(prop, tier, seed, refuted, replay_file=None):
    os.makedirs(os.path.join(OUT, prop), exist_ok=True)
    req = os.path.join(OUT, prop, "twin_request.json")
    resp = os.path.join(OUT, prop, "twin_result.json")
    json.dump({"property": prop, "tier": tier, "seed": seed, "refuted": refuted, "replay_file": replay_file},
              open(req, "w"), indent=1, default=str)
    if os.path.exists(resp):
        os.unlink(resp)
    env = dict(os.environ)
    env["PYTHONPATH"] = ROOT + os.pathsep + os.environ.get("VERIF_REPO", "/repo")
    env.setdefault("OMP_NUM_THREADS", "1")
    env.setdefault("PYTENSOR_FLAGS", f"base_compiledir={os.path.join(OUT, 'pytensor')}")
    t0 = time.time()
    try:
        p = subprocess.run([VENV_PY, os.path.join(ROOT, "replay", "run.py"), req, resp], capture_output=True, text=True,
                           timeout=3000 if tier == "quick" else 14000, env=env, cwd=ROOT)
    except subprocess.TimeoutExpired:
        return {"error": "twin timed out", "seconds": time.time() - t0}
    if not os.path.exists(resp):
        return {"error": "twin produced no result: " + (p.stderr or p.stdout)[-1500:], "seconds": time.time() - t0}
    r = json.load(open(resp))
    r["seconds"] = round(time.time() - t0, 2)
    return r


def load_findings():
    p = os.path.join(ROOT, "known_findings.json")
    if not os.path.exists(p):
        return {"open": [], "fixed": []}
    return json.load(open(p))


def slug(s):
    return re.sub(r"[^A-Za-z0-9_.-]+", "_", s)[:150]


def main(argv=None):
    ap = argparse.ArgumentParser()
    ap.add_argument("prop")
    ap.add_argument("--tier", default=os.environ.get("VERIF_TIER", "quick"))
    ap.add_argument("--replay", default=None)
    ap.add_argument("--no-twin", action="store_true")
    a = ap.parse_args(argv)
    prop = a.prop.upper()
    tier = a.tier if a.tier in ("quick", "thorough") else "quick"
    seed = int(os.environ.get("VERIF_SEED", "0"))
    os.makedirs(os.path.join(OUT, "replay"), exist_ok=True)
    os.environ["VERIF_OUT"] = OUT
    t_start = time.time()

    if a.replay:
        r = run_twin(prop, tier, seed, [], replay_file=os.path.abspath(a.replay))
        print(json.dumps(r, indent=1)[:4000])
        if r.get("error"):
            return 3
        if r.get("replay_failed"):
            print(f"VIOLATION property={prop} replay={a.replay}")
            return 1
        print("replay: the recorded input no longer violates the property")
        return 0

    try:
        mod, results = run_prover(prop, tier)
    except Exception:
        traceback.print_exc()
        return 3
    findings = load_findings()
    open_f = [f for f in findings.get("open", []) if f["property"] == prop]

    # effect obligations decided on the AST / call graph (cfg back end)
    if hasattr(mod, "EXTRA"):
        t0 = time.time()
        try:
            extra = mod.EXTRA()
        except Exception:
            extra = []
            results.append({"qual": "effects", "vcs": [], "error": "checker crash: " + traceback.format_exc()[-1200:], "crash": True, "covers": [],
                            "vacuous": [], "trusted": [], "src": None, "seconds": 0})
        evs = []
        for e in extra:
            evs.append({"name": e["name"] if e["name"].startswith(prop) else f"{prop}/{e['name']}", "status": e["status"], "backend": "cfg",
                        "seconds": 0.0, "model": {"site": e.get("reason")} if e.get("reason") else None, "reason": e.get("reason"), "kind": "effect",
                        "line": None, "fn": "effects", "note": e.get("reason") or "", "size": 0})
        results.append({"qual": "effects (AST / call graph)", "vcs": evs, "error": None, "covers": [], "vacuous": [], "trusted": [], "src": None,
                        "seconds": round(time.time() - t0, 3)})
    vcs = [dict(v, qual=r["qual"]) for r in results for v in r["vcs"]]
    errors = [r["error"] for r in results if r["error"]]
    crashed = any(r.get("crash") for r in results)
    refuted = [v for v in vcs if v["status"] == "refuted"]
    unknown = [v for v in vcs if v["status"] == "unknown"]
    discharged = [v for v in vcs if v["status"] == "discharged"]
    cross_bad = [v for v in vcs if v.get("cross") == "refuted"]

    lean = run_lean(mod, tier)
    lean_bad = [l for l in lean if not l["ok"]]

    # ---- vacuity / completeness guards -------------------------------------------------------------
    guard_msgs = []
    lockp = os.path.join(ROOT, "contracts", "OBLIGATIONS.lock")
    lock = json.load(open(lockp)) if os.path.exists(lockp) else {}
    have = {lock_key(v["name"]) for v in vcs}
    missing = sorted(set(lock.get(prop, [])) - have)
    if os.environ.get("VERIF_WRITE_LOCK") == "1":
        lock[prop] = sorted(have)
        json.dump(lock, open(lockp, "w"), indent=0, sort_keys=True)
        missing = []
    if len(vcs) == 0 and len(getattr(mod, "CONTRACTS", [])) > 0:
        guard_msgs.append("zero obligations generated")
    if missing:
        guard_msgs.append(f"{len(missing)} obligation(s) of the committed baseline are no longer generated: {missing[:5]}")
    for r in results:
        for cv in r["covers"]:
            if cv["status"] != "sat":
                guard_msgs.append(f"cover not reachable ({cv['status']}): {cv['fn']}: {cv['cover']}")
        for fn in r["vacuous"]:
            guard_msgs.append(f"contradictory preconditions: {fn}")

    # ---- native twin: replay of counter-models + CPython cross-check ----------------------------------
    twin = {"skipped": True}
    if not a.no_twin and os.path.exists(os.path.join(ROOT, "replay", f"t{prop[1:]}.py")):
        twin = run_twin(prop, tier, seed,
                        [{"name": v["name"], "model": v["model"], "fn": v["fn"], "note": v["note"]} for v in refuted])
    twin_fail = twin.get("failures", []) if isinstance(twin, dict) else []
    twin_err = twin.get("error") if isinstance(twin, dict) else None

    # ---- classification -------------------------------------------------------------------------------------
    def finding_for(ident):
        for f in open_f:
            if f["id"] == ident or (f.get("pattern") and re.search(f["pattern"], ident)):
                return f
        return None

    violations, known = [], []
    # an undecided obligation that is a listed open finding is that finding (the defect makes it unprovable either way)
    for v in list(unknown):
        f = finding_for(lock_key(v["name"]))
        if f:
            known.append((f, v["name"]))
            unknown.remove(v)
    replayed = {r_["obligation"]: r_ for r_ in twin.get("replays", [])} if isinstance(twin, dict) else {}
    for v in refuted:
        f = finding_for(lock_key(v["name"]))
        if f:
            known.append((f, v["name"]))
            continue
        rp = replayed.get(v["name"])
        path = os.path.join(OUT, "replay", f"{prop}-{slug(v['name'])}.json")
        rec = {"property": prop, "obligation": v["name"], "function": v["qual"], "line": v["line"], "clause": v["note"],
               "verifier": {"backend": v["backend"], "status": "refuted", "counter_model": v["model"], "reason": v["reason"]},
               "native_replay": rp, "replay_cmd": f"bin/check {prop} --replay {path}"}
        json.dump(rec, open(path, "w"), indent=1, default=str)
        failing = bool(rp and rp.get("failed"))
        violations.append((path, v["name"], failing))
    for tf in twin_fail:
        f = finding_for(tf["clause"])
        if f:
            known.append((f, tf["clause"]))
            continue
        if any(tf.get("obligation") == v[1] for v in violations):
            continue
        path = os.path.join(OUT, "replay", f"{prop}-twin-{slug(tf['clause'])}.json")
        rec = {"property": prop, "obligation": tf["clause"], "native_replay": {"failed": True, **tf},
               "verifier": {"status": "all generated VCs " + ("discharged" if not refuted and not unknown else "not discharged"),
                            "engine_disagreement": not refuted and not unknown},
               "replay_cmd": f"bin/check {prop} --replay {path}"}
        json.dump(rec, open(path, "w"), indent=1, default=str)
        violations.append((path, tf["clause"], True))

    # ---- engine self-test (thorough tier only): seeded property-breaking changes and neutral edits on scratch copies ----------
    selftest = []
    if tier == "thorough" and os.environ.get("VERIF_REPO", "/repo") == "/repo" and os.environ.get("VERIF_SELFTEST") != "0":
        from jvc import selftest as st
        selftest = st.run(prop, os.environ.get("VERIF_REPO", "/repo"))
        for s_ in selftest:
            if s_["status"] in ("MISSED", "false-alarm", "checker-error", "error"):
                guard_msgs.append(f"engine self-test: {s_['id']} -> {s_['status']} (exit {s_.get('exit')})")

    undecided = bool(unknown or errors or guard_msgs or lean_bad or twin_err or cross_bad)
    # ---- evidence -----------------------------------------------------------------------------------------------------
    trusted = []
    for r in results:
        trusted += [f"library contract: {t}" for t in r["trusted"]]
    trusted = sorted(set(trusted))
    trusted += [f"assumed: {x}" for x in getattr(mod, "ASSUMPTIONS", [])]
    trusted += [f"callee contract assumed at call sites (proved separately where listed under functions_under_contract): {q}"
                for q in sorted(getattr(mod, "CALLEES", {}))]
    by_backend = {}
    for v in discharged:
        by_backend[v["backend"]] = by_backend.get(v["backend"], 0) + 1
    n_lean = sum(len(l["theorems"]) for l in lean if l["ok"])
    samples = [{"obligation": v["name"], "clause": v["note"], "status": v["status"], "backend": v["backend"],
                "seconds": v["seconds"], "smt_chars": v["size"]} for v in (refuted + unknown + discharged)[:6]]
    known_names = sorted({n for _, n in known})
    ev = {
        "property_id": prop, "tier": tier, "seed": seed, "level": "proof",
        "coverage": {
            # obligations that are listed open findings are reported under known_findings_reported, not counted here
            "obligations": len(vcs) + n_lean - len({n for _, n in known if not n.startswith("twin:")} & {v["name"] for v in vcs}),
            "discharged": len(discharged) + n_lean,
            "checker_cmd": f"bin/check {prop} --tier {tier}",
            "trusted_base": trusted + SEMANTICS,
            "functions_under_contract": [dict(r["src"], obligations=len(r["vcs"]), paths=r.get("paths"),
                                              seconds=r["seconds"]) for r in results if r["src"]],
            "by_backend": dict(by_backend, lean=n_lean),
            "solver_seconds": round(sum(v["seconds"] for v in vcs), 3),
            "refuted": [v["name"] for v in refuted],
            "undecided": [v["name"] for v in unknown] + errors + guard_msgs + [f"lean: {l['file']}: {l.get('msg')}" for l in lean_bad]
                         + ([f"twin: {twin_err}"] if twin_err else []),
            "lean_lemmas": lean,
            "covers_reachable": sum(1 for r in results for c in r["covers"] if c["status"] == "sat"),
            "known_findings_reported": known_names,
            "compiled_kernel_in_sync": twin.get("kernel_in_sync") if isinstance(twin, dict) else None,
            "samples": samples,
            "bounded_obligations": twin.get("bounded", []) if isinstance(twin, dict) else [],
            "evaluations": twin.get("evaluations", 0) if isinstance(twin, dict) else 0,
            "distinct_nontrivial": twin.get("distinct_nontrivial", 0) if isinstance(twin, dict) else 0,
            "rule": twin.get("rule", "") if isinstance(twin, dict) else "",
            "twin_samples": twin.get("samples", [])[:4] if isinstance(twin, dict) else [],
            "cross_checked_cvc5": sum(1 for v in vcs if v.get("cross") == "discharged"),
            "engine_selftest": selftest,
            "explanation": getattr(mod, "__doc__", "") or "",
        },
        "assumptions": [f"not decided: {x}" for x in getattr(mod, "NOT_DECIDED", [])] + [f"assumed: {x}" for x in getattr(mod, "ASSUMPTIONS", [])],
        "wall_s": round(time.time() - t_start, 2),
        "violations": len(violations),
    }
    # evidence is only ever written for /repo itself; runs against a scratch copy (engine self-test) go elsewhere
    evdir = os.path.join(ROOT, "evidence") if os.environ.get("VERIF_REPO", "/repo") == "/repo" else os.path.join(OUT, "scratch-evidence")
    os.makedirs(evdir, exist_ok=True)
    json.dump(ev, open(os.path.join(evdir, f"{prop}.json"), "w"), indent=1, default=str)

    # ---- report ------------------------------------------------------------------------------------------------------------
    print(f"[{prop}] functions under contract: {len(results)}; obligations: {len(vcs)} (+{n_lean} lean); discharged: {len(discharged)}; "
          f"refuted: {len(refuted)}; unknown: {len(unknown)}; solver {ev['coverage']['solver_seconds']} s; wall {ev['wall_s']} s")
    if isinstance(twin, dict) and not twin.get("skipped"):
        print(f"[{prop}] native twin (bounded, not counted as proof): {twin.get('evaluations', 0)} evaluations, "
              f"{len(twin_fail)} failing clause(s){'; ERROR ' + str(twin_err)[:300] if twin_err else ''}")
    for s_ in selftest:
        print(f"[{prop}] self-test {s_['id']} ({s_['kind']}): {s_['status']}" + (f" (exit {s_['exit']}, {s_['seconds']} s)" if "exit" in s_ else f" ({s_.get('reason', '')[:120]})"))
    by_finding = {}
    for f, n in known:
        by_finding.setdefault(json.dumps(f, sort_keys=True), []).append(n)
    for fj, names in sorted(by_finding.items()):
        f = json.loads(fj)
        print(f"KNOWN-FINDING: property={prop} {f['what']} [{f['id']}; {len(set(names))} obligation(s)/clause(s)]")
    for e in errors + guard_msgs:
        print(f"[{prop}] UNDECIDED: {e}")
    for v in unknown:
        print(f"[{prop}] UNDECIDED obligation {v['name']}: {v['reason']}")
    for l in lean_bad:
        print(f"[{prop}] UNDECIDED lean lemma file {l['file']}: {l.get('msg', '')[-300:]}")
    for v in cross_bad:
        print(f"[{prop}] CHECKER ERROR: z3 says unsat, cvc5 says sat for {v['name']}")
    if violations:
        for path, name, failing in violations:
            tail = "" if failing else " no-failing-input-found"
            print(f"[{prop}] refuted/failed: {name}")
            print(f"VIOLATION property={prop} replay={path}{tail}")
        return 1
    if crashed or cross_bad:
        return 3
    if undecided:
        return 2
    return 0


if __name__ == "__main__":
    try:
        sys.exit(main())
    except SystemExit:
        raise
    except Exception:
        traceback.print_exc()
        sys.exit(3)
