"""Symbolic values of the VC generator (DESIGN 2.3 / S1-S5).

z3 Int/Real/Bool expressions are used directly for Python int/float/bool scalars.
Python constants (None, str, concrete int/float/bool) stay Python objects as long as possible.
"""
import itertools
from fractions import Fraction

import z3

_counter = itertools.count()


def fresh_name(prefix):
    return f"{prefix}!{next(_counter)}"


def reset_names():
    global _counter
    _counter = itertools.count()


PyObj = z3.DeclareSort("PyObj")


def is_z3(v):
    return isinstance(v, z3.ExprRef)


def is_int(v):
    return (isinstance(v, int) and not isinstance(v, bool)) or (is_z3(v) and v.sort() == z3.IntSort())


def is_real(v):
    return isinstance(v, (float, Fraction)) or (is_z3(v) and v.sort() == z3.RealSort())


def is_bool(v):
    return isinstance(v, bool) or (is_z3(v) and v.sort() == z3.BoolSort())


def is_num(v):
    return is_int(v) or is_real(v)


def to_z3(v, want=None):
    """lift a concrete Python scalar to z3 (optionally coercing Int->Real)."""
    if is_z3(v):
        if want == "real" and v.sort() == z3.IntSort():
            return z3.ToReal(v)
        return v
    if isinstance(v, bool):
        return z3.BoolVal(v)
    if isinstance(v, int):
        return z3.RealVal(v) if want == "real" else z3.IntVal(v)
    if isinstance(v, float):
        if v != v or v in (float("inf"), float("-inf")):
            raise Unsupported(f"non-finite float constant {v!r}")
        return z3.RealVal(Fraction(v).limit_denominator(10**12)) if v != int(v) else z3.RealVal(int(v))
    if isinstance(v, Fraction):
        return z3.RealVal(v)
    raise Unsupported(f"cannot lift {type(v).__name__} to a scalar term")


class Unsupported(Exception):
    """construct outside the stated subset -> the function's obligations are 'undecided' (exit 2)."""


class PyList:
    """Python list/tuple with a concrete spine: items, plus an optional opaque/symbolic tail."""

    def __init__(self, items, tail=None, is_tuple=False):
        self.items = list(items)
        self.tail = tail
        self.is_tuple = is_tuple

    def __repr__(self):
        t = f" ++ {self.tail!r}" if self.tail is not None else ""
        return ("T" if self.is_tuple else "L") + repr(self.items) + t


class PyDict:
    """insertion-ordered dict with concrete keys (S5)."""

    def __init__(self, pairs=()):
        self.keys = [k for k, _ in pairs]
        self.vals = {k: v for k, v in pairs}

    def copy(self):
        d = PyDict()
        d.keys = list(self.keys)
        d.vals = dict(self.vals)
        return d

    def set(self, k, v):
        d = self.copy()
        if k not in d.vals:
            d.keys.append(k)
        d.vals[k] = v
        return d

    def __repr__(self):
        return "D{" + ", ".join(f"{k!r}: {self.vals[k]!r}" for k in self.keys) + "}"


class SymSeq:
    """sequence of symbolic length; elem(k) builds the (structured) k-th element."""

    def __init__(self, length, elem, kind="list"):
        self.length = length
        self.elem = elem
        self.kind = kind

    def __repr__(self):
        return f"SymSeq(len={self.length})"


class Arr:
    """numeric ndarray / memoryview: shape = list of Int terms, at(*idx) -> scalar term.  dtype in int/real/bool"""

    def __init__(self, shape, at, dtype="real", name=None):
        self.shape = list(shape)
        self.at = at
        self.dtype = dtype
        self.name = name

    @property
    def ndim(self):
        return len(self.shape)

    def __repr__(self):
        return f"Arr{self.shape}:{self.dtype}" + (f"<{self.name}>" if self.name else "")


class Obj:
    def __init__(self, cls, fields=None, ident=None):
        self.cls = cls
        self.fields = dict(fields or {})
        self.ident = ident if ident is not None else fresh_name("obj")

    def with_field(self, k, v):
        o = Obj(self.cls, self.fields, self.ident)
        o.fields[k] = v
        return o

    def __repr__(self):
        return f"<{self.cls} {sorted(self.fields)}>"


class Opaque:
    """uninterpreted Python value; only identity/equality is known."""

    def __init__(self, tag, term=None):
        self.tag = tag
        self.term = term if term is not None else z3.Const(fresh_name(tag), PyObj)

    def __repr__(self):
        return f"Opaque({self.tag})"


class SliceV:
    def __init__(self, lo, hi, step=None):
        self.lo, self.hi, self.step = lo, hi, step

    def __repr__(self):
        return f"slice({self.lo},{self.hi},{self.step})"


class SliceOf:
    """base[lo:hi] of a sequence value (kept symbolic: a view)."""

    def __init__(self, base, lo, hi):
        self.base, self.lo, self.hi = base, lo, hi

    def __repr__(self):
        return f"{self.base!r}[{self.lo}:{self.hi}]"


class NameRef:
    """unresolved dotted name (module, library function, class)."""

    def __init__(self, dotted):
        self.dotted = dotted

    def __repr__(self):
        return f"<{self.dotted}>"


class BoundMethod:
    def __init__(self, recv, name, recv_node=None):
        self.recv, self.name, self.recv_node = recv, name, recv_node

    def __repr__(self):
        return f"<{self.recv!r}.{self.name}>"


class Exc:
    def __init__(self, cls, line=None):
        self.cls = cls
        self.line = line

    def __repr__(self):
        return f"Exc({self.cls}@{self.line})"


def fresh_int(p="i"):
    return z3.Int(fresh_name(p))


def fresh_real(p="r"):
    return z3.Real(fresh_name(p))


def fresh_bool(p="b"):
    return z3.Bool(fresh_name(p))


def fresh_fn(p, *sorts):
    return z3.Function(fresh_name(p), *sorts)


def fresh_arr(name, ndim, dtype="real", shape=None):
    sort = {"real": z3.RealSort(), "int": z3.IntSort(), "bool": z3.BoolSort()}[dtype]
    f = fresh_fn(name, *([z3.IntSort()] * ndim + [sort]))
    if shape is None:
        shape = [fresh_int(f"{name}_n{d}") for d in range(ndim)]
    return Arr(shape, lambda *idx, f=f: f(*[to_z3(i) for i in idx]), dtype, name)


def map_leaves(v, fn):
    """rebuild structured value v with fn applied to every scalar-term leaf / opaque leaf."""
    if is_z3(v) or isinstance(v, Opaque):
        return fn(v)
    if isinstance(v, PyList):
        return PyList([map_leaves(x, fn) for x in v.items], None if v.tail is None else map_leaves(v.tail, fn), v.is_tuple)
    if isinstance(v, SliceOf):
        return SliceOf(v.base, map_leaves(v.lo, fn), map_leaves(v.hi, fn))
    if isinstance(v, PyDict):
        d = PyDict()
        d.keys = list(v.keys)
        d.vals = {k: map_leaves(x, fn) for k, x in v.vals.items()}
        return d
    return v  # concrete constants, arrays, objects: kept as they are


def merge_ite(c, a, b):
    """structure-wise If(c, a, b)."""
    if a is b:
        return a
    if isinstance(a, PyList) and isinstance(b, PyList) and len(a.items) == len(b.items) and a.is_tuple == b.is_tuple:
        tail = None
        if a.tail is not None or b.tail is not None:
            tail = merge_ite(c, a.tail, b.tail)
        return PyList([merge_ite(c, x, y) for x, y in zip(a.items, b.items)], tail, a.is_tuple)
    if isinstance(a, SliceOf) and isinstance(b, SliceOf) and a.base is b.base:
        return SliceOf(a.base, merge_ite(c, a.lo, b.lo), merge_ite(c, a.hi, b.hi))
    if isinstance(a, Opaque) and isinstance(b, Opaque):
        if a.term.eq(b.term):
            return a
        return Opaque(a.tag, z3.If(c, a.term, b.term))
    if (is_z3(a) or isinstance(a, (int, float, bool, Fraction))) and (is_z3(b) or isinstance(b, (int, float, bool, Fraction))):
        if not is_z3(a) and not is_z3(b) and a == b and type(a) is type(b):
            return a
        want = "real" if (is_real(a) or is_real(b)) and not (is_bool(a) or is_bool(b)) else None
        return z3.If(c, to_z3(a, want), to_z3(b, want))
    if a is None and b is None:
        return None
    if isinstance(a, str) and a == b:
        return a
    raise Unsupported(f"cannot merge values of different shape: {a!r} / {b!r}")
