import Mathlib.LinearAlgebra.Matrix.NonsingularInverse
import Mathlib.LinearAlgebra.Matrix.SchurComplement
import Mathlib.Analysis.SpecialFunctions.Log.Basic
import Mathlib.Analysis.SpecialFunctions.Trigonometric.Basic
import Mathlib.Data.Real.Basic

/-!
Gaussian marginal-likelihood algebra.  `n` indexes epochs, `k` the linear parameters.
`M : Matrix n k ℝ` design matrix, `w : n → ℝ` weights (inverse variances),
`lam : k → ℝ` prior variances, `μ : k → ℝ` prior mean, `y : n → ℝ` data.
-/

open Matrix BigOperators
variable {n k : Type*}

/-- the kernel's entrywise postcondition for `Ainv` is the matrix `Λ⁻¹ + Mᵀ W M` -/
theorem Ainv_entrywise [Fintype n] [DecidableEq n] [DecidableEq k] (M : Matrix n k ℝ) (w : n → ℝ) (lam : k → ℝ)
    (Ainv : Matrix k k ℝ)
    (h : ∀ i j, Ainv i j = (if i = j then 1 / lam i else 0) + ∑ p, M p j * w p * M p i) :
    Ainv = diagonal (fun i => 1 / lam i) + Mᵀ * diagonal w * M := by
  ext i j
  rw [h i j, Matrix.add_apply, diagonal_apply, Matrix.mul_apply]
  congr 1
  apply Finset.sum_congr rfl
  intro p _
  rw [Matrix.mul_diagonal, Matrix.transpose_apply]
  ring

/-- the entrywise postcondition for `B` is the matrix `C + M Λ Mᵀ`, `C = diag (1/w)` -/
theorem B_entrywise [Fintype k] [DecidableEq n] [DecidableEq k] (M : Matrix n k ℝ) (w : n → ℝ) (lam : k → ℝ) (B : Matrix n n ℝ)
    (h : ∀ p q, B p q = (if p = q then 1 / w p else 0) + ∑ i, M p i * lam i * M q i) :
    B = diagonal (fun p => 1 / w p) + M * diagonal lam * Mᵀ := by
  ext p q
  rw [h p q, Matrix.add_apply, diagonal_apply, Matrix.mul_apply]
  congr 1
  apply Finset.sum_congr rfl
  intro i _
  rw [Matrix.mul_diagonal, Matrix.transpose_apply]

/-- the entrywise postcondition for `Binv` is the matrix `W - W M A Mᵀ W` -/
theorem Binv_entrywise [Fintype n] [Fintype k] [DecidableEq n] (M : Matrix n k ℝ) (w : n → ℝ) (A : Matrix k k ℝ) (Binv : Matrix n n ℝ)
    (h : ∀ p q, Binv p q =
      (if p = q then w p else 0) - ∑ i, ∑ j, w p * M p i * A i j * M q j * w q) :
    Binv = diagonal w - diagonal w * M * A * Mᵀ * diagonal w := by
  ext p q
  rw [h p q, Matrix.sub_apply, diagonal_apply]
  congr 1
  rw [Matrix.mul_diagonal, Matrix.mul_apply, Finset.sum_mul, Finset.sum_comm]
  apply Finset.sum_congr rfl
  intro j _
  rw [Matrix.mul_apply, Finset.sum_mul, Finset.sum_mul]
  apply Finset.sum_congr rfl
  intro i _
  rw [Matrix.diagonal_mul, Matrix.transpose_apply]

theorem b_entrywise [Fintype k] (M : Matrix n k ℝ) (μ : k → ℝ) (b : n → ℝ)
    (h : ∀ p, b p = ∑ i, M p i * μ i) : b = M.mulVec μ := by
  ext p
  rw [h p]
  rfl

/-- inverse of a diagonal matrix with non-zero entries, stated with `1 / ·` -/
theorem inv_diagonal_one_div {m : Type*} [Fintype m] [DecidableEq m] (d : m → ℝ)
    (hd : ∀ i, d i ≠ 0) : (diagonal (fun i => 1 / d i))⁻¹ = diagonal d := by
  apply Matrix.inv_eq_right_inv
  rw [diagonal_mul_diagonal, ← diagonal_one]
  congr 1
  funext i
  exact one_div_mul_cancel (hd i)

theorem inv_diagonal_eq_one_div {m : Type*} [Fintype m] [DecidableEq m] (d : m → ℝ)
    (hd : ∀ i, d i ≠ 0) : (diagonal d)⁻¹ = diagonal (fun i => 1 / d i) := by
  apply Matrix.inv_eq_right_inv
  rw [diagonal_mul_diagonal, ← diagonal_one]
  congr 1
  funext i
  exact mul_one_div_cancel (hd i)

theorem isUnit_diagonal_of_ne_zero {m : Type*} [Fintype m] [DecidableEq m] (d : m → ℝ)
    (hd : ∀ i, d i ≠ 0) : IsUnit (diagonal d) := by
  rw [Matrix.isUnit_iff_isUnit_det, det_diagonal, isUnit_iff_ne_zero]
  exact Finset.prod_ne_zero_iff.mpr (fun i _ => hd i)

/-- the kernel's `Binv = W - W M A Mᵀ W` is the inverse of `B = C + M Λ Mᵀ` (Woodbury) -/
theorem kernel_Binv_is_inverse [Fintype n] [Fintype k] [DecidableEq n] [DecidableEq k]
    (M : Matrix n k ℝ) (w : n → ℝ) (lam : k → ℝ)
    (hw : ∀ p, w p ≠ 0) (hl : ∀ i, lam i ≠ 0)
    (hA : IsUnit (diagonal (fun i => 1 / lam i) + Mᵀ * diagonal w * M)) :
    (diagonal (fun p => 1 / w p) + M * diagonal lam * Mᵀ)⁻¹
      = diagonal w - diagonal w * M *
          (diagonal (fun i => 1 / lam i) + Mᵀ * diagonal w * M)⁻¹ * Mᵀ * diagonal w := by
  have hCinv : (diagonal (fun p => 1 / w p))⁻¹ = diagonal w := inv_diagonal_one_div w hw
  have hLinv : (diagonal lam)⁻¹ = diagonal (fun i => 1 / lam i) := inv_diagonal_eq_one_div lam hl
  have hCu : IsUnit (diagonal (fun p => 1 / w p)) :=
    isUnit_diagonal_of_ne_zero _ (fun p => one_div_ne_zero (hw p))
  have hLu : IsUnit (diagonal lam) := isUnit_diagonal_of_ne_zero _ hl
  have key := add_mul_mul_inv_eq_sub (diagonal (fun p => 1 / w p)) M (diagonal lam) Mᵀ hCu hLu
    (by rw [hCinv, hLinv]; exact hA)
  rw [hCinv, hLinv] at key
  exact key

/-- the kernel's log-determinant accumulation over the pivots `u p` -/
theorem logdet_from_lu [Fintype n] (u : n → ℝ) (hu : ∀ p, 0 < u p) :
    ∑ p, Real.log (2 * Real.pi * u p)
      = Real.log ((2 * Real.pi) ^ (Fintype.card n) * ∏ p, u p) := by
  have h2pi : (0 : ℝ) < 2 * Real.pi := by positivity
  rw [← Real.log_prod (fun p _ => (mul_pos h2pi (hu p)).ne'), Finset.prod_mul_distrib,
    Finset.prod_const, Finset.card_univ]

theorem det_two_pi_smul [Fintype n] [DecidableEq n] (B : Matrix n n ℝ) :
    ((2 * Real.pi) • B).det = (2 * Real.pi) ^ (Fintype.card n) * B.det :=
  Matrix.det_smul B (2 * Real.pi)

/-- the right-hand side of the posterior-mean solve is `Mᵀ W y + Λ⁻¹ μ` -/
theorem posterior_mean_cov [Fintype n] [Fintype k] [DecidableEq n] [DecidableEq k]
    (M : Matrix n k ℝ) (w : n → ℝ) (lam μ : k → ℝ) (y : n → ℝ)
    (rhs : k → ℝ)
    (h : ∀ i, rhs i = (∑ p, M p i * w p * y p) + μ i / lam i) :
    rhs = (Mᵀ * diagonal w).mulVec y + (diagonal (fun i => 1 / lam i)).mulVec μ := by
  ext i
  have h1 : (Mᵀ * diagonal w).mulVec y i = ∑ p, M p i * w p * y p := by
    simp only [Matrix.mulVec, dotProduct, Matrix.mul_diagonal, Matrix.transpose_apply]
  rw [h i, Pi.add_apply, mulVec_diagonal, h1]
  ring
