import Mathlib.Analysis.SpecialFunctions.Trigonometric.Basic
import Mathlib.Tactic.FieldSimp
import Mathlib.Tactic.Ring

/-!
Radial-velocity curve invariance under `K ↦ -K`, `ω ↦ ω + π (mod 2π)`, and the
round trip between a phase offset and the corresponding reference time.
-/

theorem wrapK_rv (K e ω ω' f : ℝ) (j : ℤ) (hω : ω' = ω + Real.pi - j * (2*Real.pi)) :
    (-K) * (Real.cos (ω' + f) + e * Real.cos ω') = K * (Real.cos (ω + f) + e * Real.cos ω) := by
  have h1 : Real.cos (ω' + f) = - Real.cos (ω + f) := by
    have : ω' + f = (ω + f + Real.pi) - j * (2*Real.pi) := by rw [hω]; ring
    rw [this, Real.cos_sub_int_mul_two_pi, Real.cos_add_pi]
  have h2 : Real.cos ω' = - Real.cos ω := by
    rw [hω, Real.cos_sub_int_mul_two_pi, Real.cos_add_pi]
  rw [h1, h2]
  ring

theorem phase_time (P M0 φ tref : ℝ) (hP : P ≠ 0) :
    2 * Real.pi * ((tref + P * M0 / (2*Real.pi) + P * φ / (2*Real.pi)) - tref) / P - M0 = φ := by
  have hpi : Real.pi ≠ 0 := Real.pi_ne_zero
  field_simp
  ring
