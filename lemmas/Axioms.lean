import Mathlib.Analysis.SpecialFunctions.Pow.Real
import Mathlib.Analysis.SpecialFunctions.Trigonometric.Basic
import Mathlib.Analysis.SpecialFunctions.Log.Basic
import Mathlib.Analysis.SpecialFunctions.Sqrt

/-!
Facts about real elementary functions that the SMT encoding assumes as axioms.
Each one is a direct citation of a Mathlib lemma.
-/

theorem ax_exp_zero : Real.exp 0 = 1 := Real.exp_zero

theorem ax_exp_pos (x : ℝ) : 0 < Real.exp x := Real.exp_pos x

theorem ax_exp_lt (x y : ℝ) : Real.exp x < Real.exp y ↔ x < y := Real.exp_lt_exp

theorem ax_exp_le_one (x : ℝ) : Real.exp x ≤ 1 ↔ x ≤ 0 := Real.exp_le_one_iff

theorem ax_log_exp (x : ℝ) : Real.log (Real.exp x) = x := Real.log_exp x

theorem ax_exp_log (x : ℝ) (h : 0 < x) : Real.exp (Real.log x) = x := Real.exp_log h

theorem ax_log_mul (x y : ℝ) (hx : 0 < x) (hy : 0 < y) :
    Real.log (x*y) = Real.log x + Real.log y := Real.log_mul hx.ne' hy.ne'

theorem ax_log_div (x y : ℝ) (hx : 0 < x) (hy : 0 < y) :
    Real.log (x/y) = Real.log x - Real.log y := Real.log_div hx.ne' hy.ne'

theorem ax_log_lt (x y : ℝ) (hx : 0 < x) (hy : 0 < y) :
    Real.log x < Real.log y ↔ x < y := Real.log_lt_log_iff hx hy

theorem ax_sqrt_sq (y : ℝ) (h : 0 ≤ y) : Real.sqrt y * Real.sqrt y = y := Real.mul_self_sqrt h

theorem ax_sqrt_nonneg (y : ℝ) : 0 ≤ Real.sqrt y := Real.sqrt_nonneg y

theorem ax_cos_add_pi (x : ℝ) : Real.cos (x + Real.pi) = - Real.cos x := Real.cos_add_pi x

theorem ax_cos_add (a b : ℝ) :
    Real.cos (a+b) = Real.cos a * Real.cos b - Real.sin a * Real.sin b := Real.cos_add a b

theorem ax_cos_periodic (x : ℝ) (k : ℤ) : Real.cos (x + k * (2*Real.pi)) = Real.cos x :=
  Real.cos_add_int_mul_two_pi x k

theorem ax_sin_periodic (x : ℝ) (k : ℤ) : Real.sin (x + k * (2*Real.pi)) = Real.sin x :=
  Real.sin_add_int_mul_two_pi x k

theorem ax_rpow_sq (x a : ℝ) (hx : 0 < x) : (x ^ a) * (x ^ a) = x ^ (2*a) := by
  rw [← Real.rpow_add hx, two_mul]

theorem ax_rpow_pos (x a : ℝ) (hx : 0 < x) : 0 < x ^ a := Real.rpow_pos_of_pos hx a

theorem ax_pi_pos : 0 < Real.pi := Real.pi_pos
