import Mathlib.Algebra.BigOperators.Group.Finset.Basic
import Mathlib.Algebra.Order.Ring.Int
import Mathlib.Tactic.Ring
import Mathlib.Tactic.Linarith

/-!
Work-partitioning lemmas: a chain of non-empty half-open integer intervals
`[lo k, hi k)`, `k < n`, with `lo 0 = s`, `hi (n-1) = s + m` and `hi k = lo (k+1)`
covers `[s, s+m)` exactly once, and the sizes sum to `m`.
-/

open Finset

/-- every earlier block ends at or before the start of a later block -/
private theorem chain_hi_le_lo (n : ℕ) (lo hi : ℕ → ℤ)
    (chain : ∀ k, k + 1 < n → hi k = lo (k+1))
    (nonempty : ∀ k, k < n → lo k < hi k) :
    ∀ j, j < n → ∀ k, k < j → hi k ≤ lo j := by
  intro j
  induction j with
  | zero => intro _ k hk; omega
  | succ j ih =>
    intro hj k hk
    have hjn : j < n := by omega
    rcases Nat.lt_succ_iff_lt_or_eq.mp hk with hlt | heq
    · have h1 := ih hjn k hlt
      have h2 := nonempty j hjn
      have h3 := chain j hj
      linarith
    · subst heq
      exact le_of_eq (chain k hj)

/-- existence, by induction along the chain -/
private theorem chain_exists (n : ℕ) (lo hi : ℕ → ℤ) (s : ℤ)
    (first : lo 0 = s)
    (chain : ∀ k, k + 1 < n → hi k = lo (k+1)) :
    ∀ j, j < n → ∀ p, s ≤ p → p < hi j → ∃ k, k ≤ j ∧ lo k ≤ p ∧ p < hi k := by
  intro j
  induction j with
  | zero =>
    intro _ p hsp hp
    exact ⟨0, le_refl 0, by rw [first]; exact hsp, hp⟩
  | succ j ih =>
    intro hj p hsp hp
    have hjn : j < n := by omega
    by_cases hlt : p < hi j
    · obtain ⟨k, hk, h1, h2⟩ := ih hjn p hsp hlt
      exact ⟨k, by omega, h1, h2⟩
    · refine ⟨j + 1, le_refl _, ?_, hp⟩
      rw [← chain j hj]
      exact not_lt.mp hlt

theorem partition_cover (n : ℕ) (lo hi : ℕ → ℤ) (s m : ℤ) (hn : 1 ≤ n)
    (first : lo 0 = s) (last : hi (n-1) = s + m)
    (chain : ∀ k, k + 1 < n → hi k = lo (k+1))
    (nonempty : ∀ k, k < n → lo k < hi k) :
    ∀ p, s ≤ p → p < s + m → ∃! k, k < n ∧ lo k ≤ p ∧ p < hi k := by
  intro p hsp hpm
  have hmono := chain_hi_le_lo n lo hi chain nonempty
  obtain ⟨k, hk, h1, h2⟩ :=
    chain_exists n lo hi s first chain (n - 1) (by omega) p hsp (by rw [last]; exact hpm)
  refine ⟨k, ⟨by omega, h1, h2⟩, ?_⟩
  rintro k' ⟨hk', h1', h2'⟩
  rcases Nat.lt_trichotomy k' k with hlt | heq | hgt
  · have := hmono k (by omega) k' hlt
    exfalso; linarith
  · exact heq
  · have := hmono k' hk' k hgt
    exfalso; linarith

/-- telescoping along the chain -/
private theorem chain_sum (n : ℕ) (lo hi : ℕ → ℤ)
    (chain : ∀ k, k + 1 < n → hi k = lo (k+1)) :
    ∀ j, j < n → (∑ k ∈ Finset.range (j + 1), (hi k - lo k)) = hi j - lo 0 := by
  intro j
  induction j with
  | zero => intro _; simp
  | succ j ih =>
    intro hj
    rw [Finset.sum_range_succ, ih (by omega), chain j hj]
    ring

theorem partition_sizes_sum (n : ℕ) (lo hi : ℕ → ℤ) (s m : ℤ) (hn : 1 ≤ n)
    (first : lo 0 = s) (last : hi (n-1) = s + m)
    (chain : ∀ k, k + 1 < n → hi k = lo (k+1)) :
    (∑ k ∈ Finset.range n, (hi k - lo k)) = m := by
  have h := chain_sum n lo hi chain (n - 1) (by omega)
  have hn' : n - 1 + 1 = n := by omega
  rw [hn'] at h
  rw [h, last, first]
  ring

/-- every batch of a chained partition lies inside the covered range -/
theorem partition_bounds (n : ℕ) (lo hi : ℕ → ℤ) (s m : ℤ) (hn : 1 ≤ n)
    (first : lo 0 = s) (last : hi (n-1) = s + m)
    (chain : ∀ k, k + 1 < n → hi k = lo (k+1))
    (nonempty : ∀ k, k < n → lo k < hi k) :
    ∀ k, k < n → s ≤ lo k ∧ hi k ≤ s + m := by
  have mono : ∀ k, k < n → s ≤ lo k := by
    intro k
    induction k with
    | zero => intro _; rw [first]
    | succ j ih =>
      intro hj
      have hj' : j < n := Nat.lt_of_succ_lt hj
      have h1 := ih hj'
      have h2 := nonempty j hj'
      have h3 := chain j hj
      omega
  have up : ∀ d k, k + d + 1 = n → hi k ≤ s + m := by
    intro d
    induction d with
    | zero =>
      intro k hk
      have : k = n - 1 := by omega
      rw [this, last]
    | succ e ih =>
      intro k hk
      have hk1 : k + 1 < n := by omega
      have h3 := chain k hk1
      have h2 := nonempty (k+1) hk1
      have h4 := ih (k+1) (by omega)
      omega
  intro k hk
  exact ⟨mono k hk, up (n - 1 - k) k (by omega)⟩
