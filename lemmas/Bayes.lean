import Mathlib.LinearAlgebra.Matrix.NonsingularInverse
import Mathlib.LinearAlgebra.Matrix.SchurComplement
import Mathlib.LinearAlgebra.Matrix.PosDef
import Mathlib.Algebra.Order.Star.Real
import Mathlib.Data.Real.Basic
import Mathlib.Tactic.Ring
import Mathlib.Tactic.Linarith

/-!
Gaussian marginalisation identities in matrix form.

`C := diagonal (1/w)` (noise covariance, `w p > 0`), `Λ := diagonal lam` (prior covariance,
`lam i > 0`), `Ainv := Λ⁻¹ + Mᵀ C⁻¹ M`, `A := Ainv⁻¹`, `B := C + M Λ Mᵀ`,
`a := A (Mᵀ C⁻¹ y + Λ⁻¹ μ)`.

* `det_identity`  : `det B = det C * det Λ * det Ainv`
* `quad_identity` : `(y - Mμ)ᵀ B⁻¹ (y - Mμ)
    = (y - Mx)ᵀ C⁻¹ (y - Mx) + (x - μ)ᵀ Λ⁻¹ (x - μ) - (x - a)ᵀ Ainv (x - a)` for every `x`.

Each comes in three forms: `_gen` (arbitrary invertible / symmetric `C`, `Λ`), the literal
form with `(diagonal _)⁻¹`, and `_explicit` with `C⁻¹ = diagonal w`, `Λ⁻¹ = diagonal (1/lam)`
written out (the shape produced by the entrywise bridges in `Marginal.lean`).
-/

open Matrix BigOperators

variable {n k : Type*} [Fintype n] [Fintype k] [DecidableEq n] [DecidableEq k]

/-! ### diagonal helpers (same as in `Marginal.lean`; files are checked standalone) -/

theorem inv_diagonal_one_div {m : Type*} [Fintype m] [DecidableEq m] (d : m → ℝ)
    (hd : ∀ i, d i ≠ 0) : (diagonal (fun i => 1 / d i))⁻¹ = diagonal d := by
  apply Matrix.inv_eq_right_inv
  rw [diagonal_mul_diagonal, ← diagonal_one]
  congr 1
  funext i
  exact one_div_mul_cancel (hd i)

theorem inv_diagonal_eq_one_div {m : Type*} [Fintype m] [DecidableEq m] (d : m → ℝ)
    (hd : ∀ i, d i ≠ 0) : (diagonal d)⁻¹ = diagonal (fun i => 1 / d i) := by
  apply Matrix.inv_eq_right_inv
  rw [diagonal_mul_diagonal, ← diagonal_one]
  congr 1
  funext i
  exact mul_one_div_cancel (hd i)

theorem isUnit_diagonal_of_ne_zero {m : Type*} [Fintype m] [DecidableEq m] (d : m → ℝ)
    (hd : ∀ i, d i ≠ 0) : IsUnit (diagonal d) := by
  rw [Matrix.isUnit_iff_isUnit_det, det_diagonal, isUnit_iff_ne_zero]
  exact Finset.prod_ne_zero_iff.mpr (fun i _ => hd i)

/-! ### determinant identity -/

/-- matrix determinant lemma, generalised form: `det (C + M Λ Mᵀ) = det C · det Λ · det (Λ⁻¹ + Mᵀ C⁻¹ M)` -/
theorem det_identity_gen (C : Matrix n n ℝ) (L : Matrix k k ℝ) (M : Matrix n k ℝ)
    (hC : IsUnit C) (hL : IsUnit L) :
    (C + M * L * Mᵀ).det = C.det * L.det * (L⁻¹ + Mᵀ * C⁻¹ * M).det := by
  have hCd : IsUnit C.det := (Matrix.isUnit_iff_isUnit_det C).mp hC
  have hLd : IsUnit L.det := (Matrix.isUnit_iff_isUnit_det L).mp hL
  have e : (1 : Matrix k k ℝ) + L * Mᵀ * C⁻¹ * M = L * (L⁻¹ + Mᵀ * C⁻¹ * M) := by
    rw [Matrix.mul_add, Matrix.mul_nonsing_inv L hLd]
    simp only [Matrix.mul_assoc]
  rw [Matrix.mul_assoc M L Mᵀ, Matrix.det_add_mul M (L * Mᵀ) hCd, e, Matrix.det_mul, mul_assoc]

/-- literal form: `C = diagonal (1/w)`, `Λ = diagonal lam`, inverses written with `⁻¹` -/
theorem det_identity (M : Matrix n k ℝ) (w : n → ℝ) (lam : k → ℝ)
    (hw : ∀ p, 0 < w p) (hl : ∀ i, 0 < lam i) :
    (diagonal (fun p => 1 / w p) + M * diagonal lam * Mᵀ).det
      = (diagonal (fun p => 1 / w p)).det * (diagonal lam).det
        * ((diagonal lam)⁻¹ + Mᵀ * (diagonal (fun p => 1 / w p))⁻¹ * M).det :=
  det_identity_gen _ _ M
    (isUnit_diagonal_of_ne_zero _ (fun p => one_div_ne_zero (hw p).ne'))
    (isUnit_diagonal_of_ne_zero _ (fun i => (hl i).ne'))

/-- explicit form: `C⁻¹ = diagonal w`, `Λ⁻¹ = diagonal (1/lam)`, determinants of the diagonal
matrices evaluated as products -/
theorem det_identity_explicit (M : Matrix n k ℝ) (w : n → ℝ) (lam : k → ℝ)
    (hw : ∀ p, 0 < w p) (hl : ∀ i, 0 < lam i) :
    (diagonal (fun p => 1 / w p) + M * diagonal lam * Mᵀ).det
      = (∏ p, 1 / w p) * (∏ i, lam i)
        * (diagonal (fun i => 1 / lam i) + Mᵀ * diagonal w * M).det := by
  have h := det_identity M w lam hw hl
  rw [inv_diagonal_one_div w (fun p => (hw p).ne'),
    inv_diagonal_eq_one_div lam (fun i => (hl i).ne'), det_diagonal, det_diagonal] at h
  exact h

/-! ### bilinear-form helpers -/

omit [DecidableEq n] [DecidableEq k] in
/-- move a matrix across a dot product -/
theorem mulVec_dotProduct_eq (N : Matrix n k ℝ) (z : k → ℝ) (v : n → ℝ) :
    (N *ᵥ z) ⬝ᵥ v = z ⬝ᵥ Nᵀ *ᵥ v := by
  rw [dotProduct_comm, dotProduct_mulVec, ← mulVec_transpose, dotProduct_comm]

omit [Fintype k] [DecidableEq n] [DecidableEq k] in
theorem dot_mulVec_symm (S : Matrix n n ℝ) (hS : Sᵀ = S) (u v : n → ℝ) :
    u ⬝ᵥ S *ᵥ v = v ⬝ᵥ S *ᵥ u := by
  rw [dotProduct_mulVec, ← mulVec_transpose, hS, dotProduct_comm]

omit [Fintype k] [DecidableEq n] [DecidableEq k] in
/-- expansion of a symmetric quadratic form at a difference -/
theorem quad_sub (S : Matrix n n ℝ) (hS : Sᵀ = S) (u v : n → ℝ) :
    (u - v) ⬝ᵥ S *ᵥ (u - v) = u ⬝ᵥ S *ᵥ u - 2 * (u ⬝ᵥ S *ᵥ v) + v ⬝ᵥ S *ᵥ v := by
  rw [mulVec_sub, dotProduct_sub, sub_dotProduct, sub_dotProduct, dot_mulVec_symm S hS v u]
  ring

omit [Fintype n] [DecidableEq n] [DecidableEq k] in
/-- completing the square in parameter space -/
theorem complete_square_param (Li G : Matrix k k ℝ) (hLi : Liᵀ = Li) (hG : Gᵀ = G)
    (x μ p a : k → ℝ) (ha : (Li + G) *ᵥ a = p + Li *ᵥ μ) :
    -2 * (μ ⬝ᵥ p) + μ ⬝ᵥ G *ᵥ μ - (a - μ) ⬝ᵥ (Li + G) *ᵥ (a - μ)
      = -2 * (x ⬝ᵥ p) + x ⬝ᵥ G *ᵥ x + (x - μ) ⬝ᵥ Li *ᵥ (x - μ)
          - (x - a) ⬝ᵥ (Li + G) *ᵥ (x - a) := by
  have hS : (Li + G)ᵀ = Li + G := by rw [transpose_add, hLi, hG]
  rw [quad_sub (Li + G) hS, quad_sub (Li + G) hS, quad_sub Li hLi]
  have h1 : x ⬝ᵥ (Li + G) *ᵥ a = x ⬝ᵥ p + x ⬝ᵥ Li *ᵥ μ := by rw [ha, dotProduct_add]
  have h2 : a ⬝ᵥ (Li + G) *ᵥ μ = μ ⬝ᵥ p + μ ⬝ᵥ Li *ᵥ μ := by
    rw [dot_mulVec_symm (Li + G) hS, ha, dotProduct_add]
  have h3 : μ ⬝ᵥ (Li + G) *ᵥ μ = μ ⬝ᵥ Li *ᵥ μ + μ ⬝ᵥ G *ᵥ μ := by
    rw [add_mulVec, dotProduct_add]
  have h4 : x ⬝ᵥ (Li + G) *ᵥ x = x ⬝ᵥ Li *ᵥ x + x ⬝ᵥ G *ᵥ x := by
    rw [add_mulVec, dotProduct_add]
  linarith

/-! ### quadratic identity -/

omit [DecidableEq n] in
/-- Quadratic identity for the Woodbury form of `B⁻¹`: `W` stands for `C⁻¹`, `Li` for `Λ⁻¹`,
`A` is any right inverse of `Ainv = Li + Mᵀ W M`. -/
theorem quad_identity_core (W : Matrix n n ℝ) (Li : Matrix k k ℝ) (M : Matrix n k ℝ)
    (A : Matrix k k ℝ) (hW : Wᵀ = W) (hLi : Liᵀ = Li)
    (hA : (Li + Mᵀ * W * M) * A = 1) (y : n → ℝ) (μ x : k → ℝ) :
    (y - M *ᵥ μ) ⬝ᵥ (W - W * M * A * Mᵀ * W) *ᵥ (y - M *ᵥ μ)
      = (y - M *ᵥ x) ⬝ᵥ W *ᵥ (y - M *ᵥ x) + (x - μ) ⬝ᵥ Li *ᵥ (x - μ)
        - (x - A *ᵥ ((Mᵀ * W) *ᵥ y + Li *ᵥ μ)) ⬝ᵥ
            (Li + Mᵀ * W * M) *ᵥ (x - A *ᵥ ((Mᵀ * W) *ᵥ y + Li *ᵥ μ)) := by
  set G : Matrix k k ℝ := Mᵀ * W * M with hGdef
  set p : k → ℝ := (Mᵀ * W) *ᵥ y with hpdef
  set a : k → ℝ := A *ᵥ (p + Li *ᵥ μ) with hadef
  have hG : Gᵀ = G := by
    rw [hGdef, transpose_mul, transpose_mul, transpose_transpose, hW, Matrix.mul_assoc]
  have hA' : A * (Li + G) = 1 := mul_eq_one_comm.mp hA
  have ha : (Li + G) *ᵥ a = p + Li *ᵥ μ := by
    rw [hadef, mulVec_mulVec, hA, one_mulVec]
  -- data-space quadratic, for any parameter vector `z`
  have E1 : ∀ z : k → ℝ, (y - M *ᵥ z) ⬝ᵥ W *ᵥ (y - M *ᵥ z)
      = y ⬝ᵥ W *ᵥ y - 2 * (z ⬝ᵥ p) + z ⬝ᵥ G *ᵥ z := by
    intro z
    have e1 : y ⬝ᵥ W *ᵥ (M *ᵥ z) = z ⬝ᵥ p := by
      rw [dot_mulVec_symm W hW, mulVec_dotProduct_eq, hpdef, mulVec_mulVec]
    have e2 : (M *ᵥ z) ⬝ᵥ W *ᵥ (M *ᵥ z) = z ⬝ᵥ G *ᵥ z := by
      rw [mulVec_dotProduct_eq, mulVec_mulVec, mulVec_mulVec]
    rw [quad_sub W hW, e1, e2]
  -- the projected residual `q = Mᵀ W (y - M μ)`
  have hq : (Mᵀ * W) *ᵥ (y - M *ᵥ μ) = (Li + G) *ᵥ (a - μ) := by
    rw [mulVec_sub, mulVec_mulVec, mulVec_sub, ha, add_mulVec]
    abel
  have hAq : A *ᵥ ((Li + G) *ᵥ (a - μ)) = a - μ := by
    rw [mulVec_mulVec, hA', one_mulVec]
  have hWM : (Mᵀ * W)ᵀ = W * M := by rw [transpose_mul, transpose_transpose, hW]
  have E2 : (y - M *ᵥ μ) ⬝ᵥ (W * M * A * Mᵀ * W) *ᵥ (y - M *ᵥ μ)
      = (a - μ) ⬝ᵥ (Li + G) *ᵥ (a - μ) := by
    have assoc : W * M * A * Mᵀ * W = (Mᵀ * W)ᵀ * (A * (Mᵀ * W)) := by
      rw [hWM]; simp only [Matrix.mul_assoc]
    rw [assoc, ← mulVec_mulVec, ← mulVec_dotProduct_eq,
      ← mulVec_mulVec (y - M *ᵥ μ) A (Mᵀ * W), hq, hAq, dotProduct_comm]
  rw [sub_mulVec, dotProduct_sub, E2, E1 μ, E1 x]
  have key := complete_square_param Li G hLi hG x μ p a ha
  linarith

/-- general form: arbitrary symmetric invertible `C`, `Λ` -/
theorem quad_identity_gen (C : Matrix n n ℝ) (L : Matrix k k ℝ) (M : Matrix n k ℝ)
    (hCs : Cᵀ = C) (hLs : Lᵀ = L) (hC : IsUnit C) (hL : IsUnit L)
    (hA : IsUnit (L⁻¹ + Mᵀ * C⁻¹ * M)) (y : n → ℝ) (μ x : k → ℝ) :
    (y - M *ᵥ μ) ⬝ᵥ (C + M * L * Mᵀ)⁻¹ *ᵥ (y - M *ᵥ μ)
      = (y - M *ᵥ x) ⬝ᵥ C⁻¹ *ᵥ (y - M *ᵥ x) + (x - μ) ⬝ᵥ L⁻¹ *ᵥ (x - μ)
        - (x - (L⁻¹ + Mᵀ * C⁻¹ * M)⁻¹ *ᵥ ((Mᵀ * C⁻¹) *ᵥ y + L⁻¹ *ᵥ μ)) ⬝ᵥ
            (L⁻¹ + Mᵀ * C⁻¹ * M) *ᵥ
              (x - (L⁻¹ + Mᵀ * C⁻¹ * M)⁻¹ *ᵥ ((Mᵀ * C⁻¹) *ᵥ y + L⁻¹ *ᵥ μ)) := by
  rw [add_mul_mul_inv_eq_sub C M L Mᵀ hC hL hA]
  have hW : (C⁻¹)ᵀ = C⁻¹ := by rw [transpose_nonsing_inv, hCs]
  have hLi : (L⁻¹)ᵀ = L⁻¹ := by rw [transpose_nonsing_inv, hLs]
  exact quad_identity_core C⁻¹ L⁻¹ M _ hW hLi
    (Matrix.mul_nonsing_inv _ ((Matrix.isUnit_iff_isUnit_det _).mp hA)) y μ x

/-- literal form: `C = diagonal (1/w)`, `Λ = diagonal lam`, inverses written with `⁻¹` -/
theorem quad_identity (M : Matrix n k ℝ) (w : n → ℝ) (lam : k → ℝ)
    (hw : ∀ p, 0 < w p) (hl : ∀ i, 0 < lam i)
    (hA : IsUnit ((diagonal lam)⁻¹ + Mᵀ * (diagonal (fun p => 1 / w p))⁻¹ * M))
    (y : n → ℝ) (μ x : k → ℝ) :
    (y - M *ᵥ μ) ⬝ᵥ (diagonal (fun p => 1 / w p) + M * diagonal lam * Mᵀ)⁻¹ *ᵥ (y - M *ᵥ μ)
      = (y - M *ᵥ x) ⬝ᵥ (diagonal (fun p => 1 / w p))⁻¹ *ᵥ (y - M *ᵥ x)
        + (x - μ) ⬝ᵥ (diagonal lam)⁻¹ *ᵥ (x - μ)
        - (x - ((diagonal lam)⁻¹ + Mᵀ * (diagonal (fun p => 1 / w p))⁻¹ * M)⁻¹ *ᵥ
                ((Mᵀ * (diagonal (fun p => 1 / w p))⁻¹) *ᵥ y + (diagonal lam)⁻¹ *ᵥ μ)) ⬝ᵥ
            ((diagonal lam)⁻¹ + Mᵀ * (diagonal (fun p => 1 / w p))⁻¹ * M) *ᵥ
              (x - ((diagonal lam)⁻¹ + Mᵀ * (diagonal (fun p => 1 / w p))⁻¹ * M)⁻¹ *ᵥ
                ((Mᵀ * (diagonal (fun p => 1 / w p))⁻¹) *ᵥ y + (diagonal lam)⁻¹ *ᵥ μ)) :=
  quad_identity_gen _ _ M (diagonal_transpose _) (diagonal_transpose _)
    (isUnit_diagonal_of_ne_zero _ (fun p => one_div_ne_zero (hw p).ne'))
    (isUnit_diagonal_of_ne_zero _ (fun i => (hl i).ne')) hA y μ x

/-- explicit form: `C⁻¹ = diagonal w`, `Λ⁻¹ = diagonal (1/lam)` written out -/
theorem quad_identity_explicit (M : Matrix n k ℝ) (w : n → ℝ) (lam : k → ℝ)
    (hw : ∀ p, 0 < w p) (hl : ∀ i, 0 < lam i)
    (hA : IsUnit (diagonal (fun i => 1 / lam i) + Mᵀ * diagonal w * M))
    (y : n → ℝ) (μ x : k → ℝ) :
    (y - M *ᵥ μ) ⬝ᵥ (diagonal (fun p => 1 / w p) + M * diagonal lam * Mᵀ)⁻¹ *ᵥ (y - M *ᵥ μ)
      = (y - M *ᵥ x) ⬝ᵥ diagonal w *ᵥ (y - M *ᵥ x)
        + (x - μ) ⬝ᵥ diagonal (fun i => 1 / lam i) *ᵥ (x - μ)
        - (x - (diagonal (fun i => 1 / lam i) + Mᵀ * diagonal w * M)⁻¹ *ᵥ
                ((Mᵀ * diagonal w) *ᵥ y + diagonal (fun i => 1 / lam i) *ᵥ μ)) ⬝ᵥ
            (diagonal (fun i => 1 / lam i) + Mᵀ * diagonal w * M) *ᵥ
              (x - (diagonal (fun i => 1 / lam i) + Mᵀ * diagonal w * M)⁻¹ *ᵥ
                ((Mᵀ * diagonal w) *ᵥ y + diagonal (fun i => 1 / lam i) *ᵥ μ)) := by
  have hCi := inv_diagonal_one_div w (fun p => (hw p).ne')
  have hLi := inv_diagonal_eq_one_div lam (fun i => (hl i).ne')
  have h := quad_identity M w lam hw hl (by rw [hCi, hLi]; exact hA) y μ x
  rw [hCi, hLi] at h
  exact h

/-! ### the invertibility hypothesis `hA` is automatic for positive `w`, `lam` -/

/-- `Ainv = Λ⁻¹ + Mᵀ W M` is positive definite, hence invertible, when `w > 0`, `lam > 0` -/
theorem Ainv_isUnit (M : Matrix n k ℝ) (w : n → ℝ) (lam : k → ℝ)
    (hw : ∀ p, 0 < w p) (hl : ∀ i, 0 < lam i) :
    IsUnit (diagonal (fun i => 1 / lam i) + Mᵀ * diagonal w * M) := by
  have h1 : (diagonal (fun i => 1 / lam i)).PosDef :=
    PosDef.diagonal (fun i => one_div_pos.mpr (hl i))
  have h2 : (Mᵀ * diagonal w * M).PosSemidef := by
    have := (PosSemidef.diagonal (d := w) (fun p => (hw p).le)).conjTranspose_mul_mul_same M
    rwa [conjTranspose_eq_transpose_of_trivial] at this
  exact (h1.add_posSemidef h2).isUnit

/-- `quad_identity_explicit` with the invertibility hypothesis discharged -/
theorem quad_identity_of_pos (M : Matrix n k ℝ) (w : n → ℝ) (lam : k → ℝ)
    (hw : ∀ p, 0 < w p) (hl : ∀ i, 0 < lam i) (y : n → ℝ) (μ x : k → ℝ) :
    (y - M *ᵥ μ) ⬝ᵥ (diagonal (fun p => 1 / w p) + M * diagonal lam * Mᵀ)⁻¹ *ᵥ (y - M *ᵥ μ)
      = (y - M *ᵥ x) ⬝ᵥ diagonal w *ᵥ (y - M *ᵥ x)
        + (x - μ) ⬝ᵥ diagonal (fun i => 1 / lam i) *ᵥ (x - μ)
        - (x - (diagonal (fun i => 1 / lam i) + Mᵀ * diagonal w * M)⁻¹ *ᵥ
                ((Mᵀ * diagonal w) *ᵥ y + diagonal (fun i => 1 / lam i) *ᵥ μ)) ⬝ᵥ
            (diagonal (fun i => 1 / lam i) + Mᵀ * diagonal w * M) *ᵥ
              (x - (diagonal (fun i => 1 / lam i) + Mᵀ * diagonal w * M)⁻¹ *ᵥ
                ((Mᵀ * diagonal w) *ᵥ y + diagonal (fun i => 1 / lam i) *ᵥ μ)) :=
  quad_identity_explicit M w lam hw hl (Ainv_isUnit M w lam hw hl) y μ x
