import Mathlib.Analysis.SpecialFunctions.Log.Deriv
import Mathlib.Analysis.SpecialFunctions.Log.Basic
import Mathlib.Tactic.FieldSimp
import Mathlib.Tactic.Ring
import Mathlib.Tactic.Linarith

/-!
Log-uniform distribution on `[a, b]`, `0 < a < b`: inverse-CDF sampling stays in the
support, the CDF inverts the sampler, and the density / log-density formulas.
-/

/-- the normalising constant `log b - log a` is positive -/
theorem uniformlog_norm_pos (a b : ℝ) (ha : 0 < a) (hab : a < b) :
    0 < Real.log b - Real.log a :=
  sub_pos.mpr (Real.log_lt_log ha hab)

theorem uniformlog_draw_in_support (a b u : ℝ) (ha : 0 < a) (hab : a < b)
    (hu0 : 0 ≤ u) (hu1 : u < 1) :
    a ≤ Real.exp (u * (Real.log b - Real.log a) + Real.log a) ∧
      Real.exp (u * (Real.log b - Real.log a) + Real.log a) < b := by
  have hc := uniformlog_norm_pos a b ha hab
  have hb : 0 < b := lt_trans ha hab
  constructor
  · have h : Real.log a ≤ u * (Real.log b - Real.log a) + Real.log a := by
      have := mul_nonneg hu0 hc.le
      linarith
    calc a = Real.exp (Real.log a) := (Real.exp_log ha).symm
      _ ≤ _ := Real.exp_le_exp.mpr h
  · have h : u * (Real.log b - Real.log a) + Real.log a < Real.log b := by
      have := mul_lt_mul_of_pos_right hu1 hc
      linarith
    calc _ < Real.exp (Real.log b) := Real.exp_lt_exp.mpr h
      _ = b := Real.exp_log hb

theorem uniformlog_cdf_inverse (a b u : ℝ) (ha : 0 < a) (hab : a < b) :
    (Real.log (Real.exp (u * (Real.log b - Real.log a) + Real.log a)) - Real.log a)
      / (Real.log b - Real.log a) = u := by
  have hc := (uniformlog_norm_pos a b ha hab).ne'
  rw [Real.log_exp, add_sub_cancel_right, mul_div_assoc, div_self hc, mul_one]

theorem uniformlog_density (a b x : ℝ) (ha : 0 < a) (hab : a < b) (hx : 0 < x) :
    HasDerivAt (fun t => (Real.log t - Real.log a) / (Real.log b - Real.log a))
      (1 / (x * (Real.log b - Real.log a))) x := by
  have hc := (uniformlog_norm_pos a b ha hab).ne'
  have h := ((Real.hasDerivAt_log hx.ne').sub_const (Real.log a)).div_const
    (Real.log b - Real.log a)
  have e : x⁻¹ / (Real.log b - Real.log a) = 1 / (x * (Real.log b - Real.log a)) := by
    field_simp
  rw [← e]
  exact h

theorem uniformlog_logpdf (a b x : ℝ) (ha : 0 < a) (hab : a < b) (hx : 0 < x) :
    Real.log (1 / (x * (Real.log b - Real.log a)))
      = - Real.log x - Real.log (Real.log b - Real.log a) := by
  have hc := (uniformlog_norm_pos a b ha hab).ne'
  rw [one_div, Real.log_inv, Real.log_mul hx.ne' hc]
  ring
