"""Contracts of the pool plumbing: run_worker, the two workers, marginal_ln_likelihood_helper, make_full_samples.
Clauses are labelled with the property they belong to (C16 partition, C05 order/partition independence,
C10 child generators, C13 read-only opens)."""
import ast

import z3

from jvc.lib import LIB as _L, model
from jvc.symexec import Contract, arr_index, b_and, index, length, q_forall, to_z3
from jvc.values import (Arr, NameRef, Obj, Opaque, PyDict, PyList, SliceOf, SliceV, SymSeq, Unsupported, fresh_arr, fresh_fn,
                        fresh_int, fresh_name, is_z3, PyObj)

from . import c16spec as C16
from .common import LLF, ll_of_rows, make_rng, reshaped_from_3d, samples_obj, trace
from .filemodel import file_param
from .rejection import helper_param, pool_param, rng_param, KQ, QM, kernel_batch_ll, kernel_batch_post, samples_unpack

U = "thejoker.utils."


# ---- batch_tasks as a callee: a fresh partition satisfying the C16 postconditions ----------------------------------------------
def _res_batch_tasks(ex, path, bound, node):
    arr = bound.get("arr")
    args = bound.get("args")
    L = fresh_int("n_tasks_made")
    lo = fresh_fn("lo", z3.IntSort(), z3.IntSort())
    hi = fresh_fn("hi", z3.IntSort(), z3.IntSort())
    if args is None:
        extra = []
    elif isinstance(args, PyList) and args.tail is None:
        extra = list(args.items)
    else:
        raise Unsupported("batch_tasks callee: args of unknown length")

    def elem(k):
        kz = to_z3(k)
        first = PyList([lo(kz), hi(kz)], None, True) if arr is None else SliceOf(arr, lo(kz), hi(kz))
        return PyList([first, lo(kz)] + extra, None, False)
    s = SymSeq(L, elem)
    s.partition = (lo, hi)
    return s


def _bt_callee(with_arr):
    ens = dict(C16.ENSURES_ARR if with_arr else C16.ENSURES)
    ens.pop("args-passed", None)      # the builder places the extra args structurally
    return Contract(U + "batch_tasks", "C16", requires=["n_tasks >= 1", "n_batches >= 1", "start_idx >= 0"] +
                    (["len(arr) >= start_idx + n_tasks"] if with_arr else []),
                    ensures=ens, defs=C16.DEFS_ARR if with_arr else C16.DEFS_IDX, result=_res_batch_tasks)


class _BTDispatch(Contract):
    """call-site contract of batch_tasks: the with-array or the index variant, by the `arr` argument"""


def _res_bt_any(ex, path, bound, node):
    return _res_batch_tasks(ex, path, bound, node)


batch_tasks_callee_idx = _bt_callee(False)
batch_tasks_callee_arr = _bt_callee(True)


# ---- numpy.random plumbing (assumed library contracts) ----------------------------------------------------------------------------
def rng_with_seedseq(name="rng"):
    g = make_rng(name)
    ss = Obj("SeedSeq", {"gen": name})
    g.fields["bit_generator"] = Obj("BitGen", {"_seed_seq": ss, "gen": name})
    return g


def rng_ss_param(ex, path, name):
    return rng_with_seedseq(name)


@model("SeedSeq.spawn", doc="SeedSequence.spawn(n): n children keyed (parent, spawned+k), k<n; pairwise distinct from each other and "
                            "from every earlier or later child of the same parent; increments the parent's spawn counter by n")
def _spawn(ex, path, args, kwargs, node, fn):
    ss, n = args
    cnt = path.ghost.setdefault("spawned", {})
    base = cnt.get(ss.fields["gen"], z3.Int(f"spawned_before:{ss.fields['gen']}"))
    cnt[ss.fields["gen"]] = base + to_z3(n)
    path.ghost.setdefault("spawn_events", []).append({"gen": ss.fields["gen"], "base": base, "n": n, "line": node.lineno})
    return SymSeq(n, lambda k, ss=ss, base=base: Obj("SeedSeq", {"gen": f"child-of:{ss.fields['gen']}", "parent": ss.fields["gen"],
                                                               "child_index": base + to_z3(k)}), "list")


@model("numpy.random.PCG64", doc="PCG64(seed_seq): a bit generator whose stream is a function of the seed sequence's key")
def _pcg(ex, path, args, kwargs, node, fn):
    ss = args[0]
    if not (isinstance(ss, Obj) and ss.cls == "SeedSeq"):
        raise Unsupported("PCG64 of something that is not a SeedSequence")
    return Obj("BitGen", {"_seed_seq": ss, "gen": ss.fields["gen"], "parent": ss.fields.get("parent"),
                          "child_index": ss.fields.get("child_index")})


@model("numpy.random.Generator", doc="Generator(bitgen): draws come from that bit generator's stream")
def _gen(ex, path, args, kwargs, node, fn):
    bg = args[0]
    g = Obj("Generator", {"name": bg.fields["gen"], "bit_generator": bg, "parent": bg.fields.get("parent"),
                          "child_index": bg.fields.get("child_index")}, ident=bg.fields["gen"])
    return g


@model("pool.map", doc="pool.map(f, tasks) == [f(t) for t in tasks], in task order (S9); f is applied to each task exactly once")
def _pool_map(ex, path, args, kwargs, node, fn):
    pool, f, tasks = args
    n = length(tasks)
    path.ghost.setdefault("pool_maps", []).append({"fn": f, "tasks": tasks, "line": node.lineno})

    def elem(k, f=f, tasks=tasks):
        return Obj("applied", {"fn": f, "arg": index(tasks, k)})
    s = SymSeq(n, elem)
    s.mapped = (f, tasks)
    return s


LIB = {"SeedSeq.spawn": _spawn, "numpy.random.PCG64": _pcg, "numpy.random.Generator": _gen, "pool.map": _pool_map}


# ---- run_worker -----------------------------------------------------------------------------------------------------------------------
def worker_param(ex, path, name):
    return Opaque("worker")


RW_DEFS_IDX = {
    "NS": ([], "prior_samples_file.nrows if n_prior_samples is None else n_prior_samples"),
    "T": (["k"], "result[k].arg"),
    "lo": (["k"], "T(k)[0][0]"),
    "hi": (["k"], "T(k)[0][1]"),
}
RW_DEFS_ARR = {
    "NS": ([], "len(samples_idx)"),
    "T": (["k"], "result[k].arg"),
    "lo": (["k"], "slice_lo(T(k)[0])"),
    "hi": (["k"], "slice_hi(T(k)[0])"),
}
RW_ENS = {
    "C16:one-result-per-task-in-task-order": "len(result) >= 1 and all(result[k].fn is worker for k in range(len(result)))",
    "C16:first": "lo(0) == 0",
    "C16:last": "hi(len(result) - 1) == NS()",
    "C16:chain": "all(hi(k) == lo(k + 1) for k in range(len(result) - 1))",
    "C16:each-nonempty": "all(lo(k) < hi(k) for k in range(len(result)))",
    "C16:own-start": "all(T(k)[1] == lo(k) for k in range(len(result)))",
    "C05:task-args-passed": "all(T(k)[2] is task_args[0] and T(k)[3] is task_args[1] for k in range(len(result)))",
    "C13:read-only-opens": "all_opens_read_only()",
}
RW_ENS_ARR = dict(RW_ENS, **{"C16:slices-of-the-given-index-array": "all(slice_base(T(k)[0]) is samples_idx for k in range(len(result)))"})
RW_ENS_RNG = {
    "C10:one-child-generator-per-task": "all(T(k)[4].parent == 'rng' for k in range(len(result)))",
    "C10:children-distinct-within-the-call": "all(implies(k != j, T(k)[4].child_index != T(j)[4].child_index) for k in range(len(result)) for j in range(len(result)))",
    "C10:children-fresh-across-calls": "all(T(k)[4].child_index >= spawned_before('rng') for k in range(len(result))) and "
                                       "spawned_after('rng') == spawned_before('rng') + len(result)",
    "C10:parent-stream-not-drawn-from": "n_rng_events() == 0",
}
RW_ENS_NORNG = {"C10:no-generator-touched": "n_rng_events() == 0 and len(T(0)) == 4"}


def task_args_param(ex, path, name):
    return PyList([Opaque("task_arg0"), Opaque("task_arg1")], None, True)


@model("spawned_before")
def _sp_before(ex, path, args, kwargs, node, fn):
    return z3.Int(f"spawned_before:{args[0]}")


@model("spawned_after")
def _sp_after(ex, path, args, kwargs, node, fn):
    return path.ghost.get("spawned", {}).get(args[0], z3.Int(f"spawned_before:{args[0]}"))


LIB.update({"spawned_before": _sp_before, "spawned_after": _sp_after})

_rw_params = {"worker": worker_param, "pool": pool_param, "prior_samples_file": file_param, "task_args": task_args_param}


def _rw_cases(arr):
    out = []
    for nb in ("none", "pos"):
        for rng in ("none", rng_ss_param):
            c = {"_name": f"{'idx-array' if arr else 'range'},n_batches={nb},rng={'given' if rng != 'none' else 'None'}",
                 "n_batches": nb, "rng": rng}
            if arr:
                c.update({"samples_idx": "intarr", "n_prior_samples": "none", "_requires": ["len(samples_idx) >= 1"]})
                out.append((c, rng != "none"))
            else:
                for npri in ("none", "pos"):
                    c2 = dict(c, samples_idx="none", n_prior_samples=npri)
                    c2["_name"] += f",n_prior={npri}"
                    out.append((c2, rng != "none"))
    return out


run_worker_contracts = []
for arr in (False, True):
    for case, has_rng in _rw_cases(arr):
        run_worker_contracts.append(Contract(
            QM + "run_worker", "C16", params=_rw_params, cases=[case],
            requires=["prior_samples_file.nrows >= 1", "pool.size >= 0"],
            ensures={**(RW_ENS_ARR if arr else RW_ENS), **(RW_ENS_RNG if has_rng else RW_ENS_NORNG)},
            defs=RW_DEFS_ARR if arr else RW_DEFS_IDX))

RW_CALLEES = {U + "batch_tasks": None}   # filled by dispatch below


class BatchTasksDispatch(Contract):
    pass


def _bt_dispatch():
    """one call-site contract for batch_tasks that picks the arr / no-arr variant from the argument"""
    c = Contract(U + "batch_tasks", "C16", requires=["n_tasks >= 1", "n_batches >= 1", "start_idx >= 0",
                                                      "arr is None or len(arr) >= start_idx + n_tasks"],
                 result=_res_batch_tasks)
    # ensures are evaluated with the right helper definitions depending on arr: use guarded clauses
    ens = {}
    for k, v in C16.ENSURES.items():
        if k == "args-passed":
            continue
        ens[k] = v
    c.ensures = ens
    c.defs = {"lo": (["t"], "slice_lo(t[0]) if is_slice(t[0]) else t[0][0]"),
              "hi": (["t"], "slice_hi(t[0]) if is_slice(t[0]) else t[0][1]")}
    return c


@model("is_slice")
def _is_slice(ex, path, args, kwargs, node, fn):
    return isinstance(args[0], SliceOf)


LIB["is_slice"] = _is_slice
batch_tasks_callee = _bt_dispatch()
RW_CALLEES = {U + "batch_tasks": batch_tasks_callee}


# =================================================================================================================================
# C05 chain: read_batch (callee), the two workers, run_worker as a callee, concatenate over a partition, the two helpers
def _rows_of(sl, packed):
    """rows of the cache selected by a task's first element: (lo, hi) tuple -> contiguous range; slice of an index array -> gather"""
    if isinstance(sl, PyList) and sl.is_tuple and len(sl.items) == 2:
        lo, hi = sl.items
        r = arr_index(packed, (SliceV(lo, hi, None),))
        r.row_of = lambda j, lo=lo: to_z3(lo) + to_z3(j)
        r.n_rows = to_z3(hi) - to_z3(lo)
        return r
    if isinstance(sl, SliceOf) and isinstance(sl.base, Arr):
        base, lo, hi = sl.base, sl.lo, sl.hi
        idx = Arr([to_z3(hi) - to_z3(lo)], lambda j: base.at(to_z3(lo) + to_z3(j)), "int")
        r = arr_index(packed, (idx,))
        r.row_of = lambda j, idx=idx: idx.at(j)
        r.n_rows = to_z3(hi) - to_z3(lo)
        return r
    if isinstance(sl, Arr):
        r = arr_index(packed, (sl,))
        r.row_of = lambda j, sl=sl: sl.at(j)
        r.n_rows = sl.shape[0]
        return r
    raise Unsupported(f"read_batch selector {sl!r}")


def _res_read_batch(ex, path, bound, node):
    f = bound["prior_samples_file"]
    path.ghost.setdefault("file_opens", []).append({"file": f.ident, "mode": "r", "api": "read_batch", "line": node.lineno})
    return _rows_of(bound["slice_or_idx"], f.fields["packed"])


read_batch_callee = Contract(
    U + "read_batch", "C12",
    requires=["columns is joker_helper_packed_order()", "units is joker_helper_internal_units()"],
    ensures={}, result=_res_read_batch)


@model("joker_helper_packed_order")
def _jh_po(ex, path, args, kwargs, node, fn):
    return path.ghost["helper"].fields["packed_order"]


@model("joker_helper_internal_units")
def _jh_iu(ex, path, args, kwargs, node, fn):
    return path.ghost["helper"].fields["internal_units"]


LIB.update({"joker_helper_packed_order": _jh_po, "joker_helper_internal_units": _jh_iu})


def _task_param(kind, with_post):
    def build(ex, path, name):
        from .rejection import helper_param as _hp
        from .filemodel import file_obj
        f = file_obj("prior_samples_file")
        path.assume(f.fields["nrows"] >= 0)
        helper = _hp(ex, path, "joker_helper")
        path.ghost["helper"] = helper
        lo, hi = z3.Int("task_lo"), z3.Int("task_hi")
        if kind == "range":
            first = PyList([lo, hi], None, True)
            path.assume(0 <= lo, lo <= hi, hi <= f.fields["nrows"])
        else:
            idx = fresh_arr("samples_idx", 1, "int")
            k = z3.Int(fresh_name("k"))
            path.assume(idx.shape[0] >= 0, 0 <= lo, lo <= hi, hi <= idx.shape[0],
                        q_forall([k], b_and(0 <= k, k < idx.shape[0]), b_and(0 <= idx.at(k), idx.at(k) < f.fields["nrows"]), pats=[idx.at(k)]))
            first = SliceOf(idx, lo, hi)
        items = [first, lo, f, helper]
        if with_post:
            child = Obj("Generator", {"name": "child", "parent": "rng", "child_index": z3.Int("child_index")}, ident="task-rng")
            items += [z3.Int("n_linear_samples"), child]
            path.assume(items[4] >= 1)
        path.ghost["task_file"] = f
        path.ghost["task_first"] = first
        return PyList(items, None, True)
    return build


@model("task_rows")
def _task_rows(ex, path, args, kwargs, node, fn):
    return _rows_of(path.ghost["task_first"], path.ghost["task_file"].fields["packed"])


LIB["task_rows"] = _task_rows

ll_worker = [Contract(QM + "marginal_ln_likelihood_worker", "C05", params={"task": _task_param(kind, False)},
                      cases=[{"_name": kind}],
                      ensures={"C05:one-value-per-row-in-order": "len(result) == len(task_rows()) and all(result[j] == LL(task_rows(), j) for j in range(len(task_rows())))",
                               "C13:read-only-opens": "all_opens_read_only()",
                               "C10:no-draw": "n_rng_events() == 0"})
             for kind in ("range", "index-array")]
post_worker = [Contract(QM + "make_full_samples_worker", "C05", params={"task": _task_param(kind, True)},
                        cases=[{"_name": kind}],
                        ensures={"C02:rows-unaltered": "all(view3(result)[n, j, c] == task_rows()[n, c] for n in range(len(task_rows())) "
                                                       "for j in range(task[4]) for c in range(5))",
                                 "C03:each-draw-paired-with-its-own-nonlinear-row": "all(view3(result)[n, j, c] == task_rows()[n, c] for n in range(len(task_rows())) "
                                                                                    "for j in range(task[4]) for c in range(5))",
                                 "C10:draws-on-the-task-generator-only": "n_rng_events() == 1 and rng_event(0).gen == 'task-rng'",
                                 "C13:read-only-opens": "all_opens_read_only()"})
               for kind in ("range", "index-array")]


# ---- run_worker as a callee (what the two helpers rely on) -------------------------------------------------------------------------
def _res_run_worker(ex, path, bound, node):
    worker = bound["worker"]
    f = bound["prior_samples_file"]
    sidx = bound.get("samples_idx")
    npri = bound.get("n_prior_samples")
    rng = bound.get("rng")
    targs = bound.get("task_args")
    L = fresh_int("n_results")
    lo = fresh_fn("plo", z3.IntSort(), z3.IntSort())
    hi = fresh_fn("phi", z3.IntSort(), z3.IntSort())
    NS = sidx.shape[0] if sidx is not None else (f.fields["nrows"] if npri is None else npri)
    packed = f.fields["packed"]
    wname = worker.dotted if isinstance(worker, NameRef) else repr(worker)
    wname = ex.resolve_repo(wname)

    def first_of(k):
        kz = to_z3(k)
        return PyList([lo(kz), hi(kz)], None, True) if sidx is None else SliceOf(sidx, lo(kz), hi(kz))
    if wname.endswith("marginal_ln_likelihood_worker"):
        def elem(k):
            rows = _rows_of(first_of(k), packed)
            return ll_of_rows(rows)
    elif wname.endswith("make_full_samples_worker"):
        nlin = targs.items[2]
        npars = fresh_int("n_pars")
        path.assume(npars >= 7)
        raw3 = fresh_fn("raw3", z3.IntSort(), z3.IntSort(), z3.IntSort(), z3.IntSort(), z3.RealSort())

        def elem(k):
            rows = _rows_of(first_of(k), packed)
            kz = to_z3(k)
            # the worker's contract (proved above): nonlinear columns 0..4 are the rows read for this task, unchanged
            a3 = Arr([rows.n_rows, nlin, npars],
                     lambda n, j, c, kz=kz, rows=rows: z3.If(z3.And(to_z3(c) >= 0, to_z3(c) < 5), rows.at(n, c),
                                                             raw3(kz, to_z3(n), to_z3(j), to_z3(c))), "real")
            flat = reshaped_from_3d(a3, "raw")
            flat.rows = rows
            return flat
        trace(path).append({"gen": f"child-of:{rng.ident}" if isinstance(rng, Obj) else "<no generator>", "kind": "mvn-batch",
                            "size": NS, "value": None, "line": node.lineno})
    else:
        raise Unsupported(f"run_worker callee: unknown worker {wname}")
    s = SymSeq(L, elem)
    s.partition = (lo, hi, NS)
    s.sidx = sidx
    s.file = f
    return s


run_worker_callee = Contract(
    QM + "run_worker", "C16",
    requires=["not (n_prior_samples is not None and samples_idx is not None)"],
    ensures={"nonempty": "len(result) >= 1", "first": "plo_(result, 0) == 0", "last": "phi_(result, len(result) - 1) == pNS_(result)",
             "chain": "all(phi_(result, k) == plo_(result, k + 1) for k in range(len(result) - 1))",
             "each-nonempty": "all(plo_(result, k) < phi_(result, k) for k in range(len(result)))"},
    result=_res_run_worker)


@model("plo_")
def _plo(ex, path, args, kwargs, node, fn):
    return args[0].partition[0](to_z3(args[1]))


@model("phi_")
def _phi(ex, path, args, kwargs, node, fn):
    return args[0].partition[1](to_z3(args[1]))


@model("pNS_")
def _pns(ex, path, args, kwargs, node, fn):
    return args[0].partition[2]


LIB.update({"plo_": _plo, "phi_": _phi, "pNS_": _pns})

_prev_concat2 = _L["numpy.concatenate"]


@model("numpy.concatenate", doc="concatenate(list of arrays): the arrays one after the other.  For a list of symbolic length whose element "
                                "lengths telescope (len(seq[k]) == hi(k) - lo(k), hi(k) == lo(k+1), lo(0) == 0) position p of the result is "
                                "seq[k][p - lo(k)] for the unique k with lo(k) <= p < hi(k)  (Lean: Partition.partition_cover)")
def _concat_partition(ex, path, args, kwargs, node, fn):
    seq = args[0]
    if not isinstance(seq, SymSeq) or getattr(seq, "partition", None) is None:
        return _prev_concat2(ex, path, args, kwargs, node, fn)
    lo, hi, NS = seq.partition
    L = seq.length
    k = z3.Int(fresh_name("k"))
    # obligations of the telescoping lemma (discharged from the callee's postcondition)
    ex.ctx.vc(f"concat:first@{node.lineno}", path, lo(0) == 0, "call-pre", node.lineno)
    ex.ctx.vc(f"concat:chain@{node.lineno}", path, q_forall([k], b_and(0 <= k, k < L - 1), hi(k) == lo(k + 1)), "call-pre", node.lineno)
    ex.ctx.vc(f"concat:each-nonempty@{node.lineno}", path, q_forall([k], b_and(0 <= k, k < L), lo(k) < hi(k)), "call-pre", node.lineno)
    ex.ctx.vc(f"concat:last@{node.lineno}", path, z3.And(L >= 1, hi(L - 1) == to_z3(NS)), "call-pre", node.lineno)
    bo = fresh_fn("batch_of", z3.IntSort(), z3.IntSort())
    p = z3.Int(fresh_name("p"))
    path.assume(q_forall([p], b_and(0 <= p, p < to_z3(NS)), b_and(0 <= bo(p), bo(p) < L, lo(bo(p)) <= p, p < hi(bo(p))), pats=[bo(p)]),
                q_forall([k], b_and(0 <= k, k < L), b_and(0 <= lo(k), hi(k) <= to_z3(NS)), pats=[lo(k)]))
    ex.ctx.trusted_used.add("lemmas Partition.partition_cover / partition_bounds (Lean) instantiated for np.concatenate over a partition")
    e0 = seq.elem(z3.Int(fresh_name("k0")))
    v3 = getattr(e0, "view3", None)
    if v3 is not None:
        # parts are row-major flattenings of (rows_k, J, C) blocks: the concatenation is the flattening of the blocks stacked along axis 0
        J, C = v3.shape[1], v3.shape[2]
        a3 = Arr([NS, J, C], lambda n, j, c: seq.elem(bo(to_z3(n))).view3.at(to_z3(n) - lo(bo(to_z3(n))), j, c), e0.dtype, "stacked3")
        from .common import reshaped_from_3d as _r3
        r = _r3(a3, "concatenated")
    elif e0.ndim == 1:
        r = Arr([NS], lambda pp: seq.elem(bo(to_z3(pp))).at(to_z3(pp) - lo(bo(to_z3(pp)))), e0.dtype, "concatenated")
    else:
        r = Arr([NS] + list(e0.shape[1:]), lambda pp, *rest: seq.elem(bo(to_z3(pp))).at(to_z3(pp) - lo(bo(to_z3(pp))), *rest), e0.dtype, "concatenated")
    r.batch_of = bo
    r.parts = seq
    return r


LIB["numpy.concatenate"] = _concat_partition

# ---- the two helpers (bodies; the tempfile decorator is C13's) ----------------------------------------------------------------------
H_DEFS = {
    "F": ([], "prior_samples_file"),
    "NS": ([], "len(samples_idx) if samples_idx is not None else (F().nrows if n_prior_samples is None else n_prior_samples)"),
    "row": (["p"], "samples_idx[p] if samples_idx is not None else p"),
}
ll_helper_body = Contract(
    QM + "marginal_ln_likelihood_helper", "C05",
    params={"joker_helper": helper_param, "prior_samples_file": file_param, "pool": pool_param},
    cases=[{"_name": f"n_batches={nb},{sel}", "n_batches": nb,
            "samples_idx": "intarr" if sel == "index-array" else "none",
            "n_prior_samples": "pos" if sel == "first-n" else "none",
            "_requires": {"index-array": ["len(samples_idx) >= 1", "all(0 <= samples_idx[k] and samples_idx[k] < prior_samples_file.nrows for k in range(len(samples_idx)))"],
                          "first-n": ["n_prior_samples <= prior_samples_file.nrows"], "all": []}[sel]}
           for nb in ("none", "pos") for sel in ("all", "first-n", "index-array")],
    requires=["prior_samples_file.nrows >= 1"],
    ensures={"C05:one-value-per-requested-row": "len(result) == NS()",
             "C05:values-in-input-order-for-any-batching": "all(result[p] == LL(F().packed, row(p)) for p in range(NS()))",
             "C10:no-draw": "n_rng_events() == 0"},
    defs=H_DEFS)

full_body = Contract(
    QM + "make_full_samples", "C05",
    params={"joker_helper": helper_param, "prior_samples_file": file_param, "pool": pool_param, "rng": rng_ss_param,
            "samples_idx": "intarr", "n_linear_samples": "pos"},
    cases=[{"_name": f"n_batches={nb}", "n_batches": nb} for nb in ("none", "pos")],
    requires=["prior_samples_file.nrows >= 1", "len(samples_idx) >= 1",
              "all(0 <= samples_idx[k] and samples_idx[k] < prior_samples_file.nrows for k in range(len(samples_idx)))"],
    ensures={"C02:rows-unaltered-in-the-given-order": "all(view3(result.packed)[n, j, c] == prior_samples_file.packed[samples_idx[n], c] "
                                                      "for n in range(len(samples_idx)) for j in range(n_linear_samples) for c in range(5))",
             "C03:each-draw-paired-with-its-own-nonlinear-row-for-any-batching": "all(view3(result.packed)[n, j, c] == prior_samples_file.packed[samples_idx[n], c] "
                                                                                 "for n in range(len(samples_idx)) for j in range(n_linear_samples) for c in range(5))",
             "C03:units-from-helper": "result.units is joker_helper.internal_units",
             "C04:t_ref-from-data": "result.t_ref is joker_helper.data.t_ref",
             "C10:draws-only-on-children-of-the-handed-generator": "all(rng_event(k).gen == 'child-of:rng' for k in range(n_rng_events()))"},
    defs=H_DEFS)

CHAIN_CONTRACTS = ll_worker + post_worker + [ll_helper_body, full_body]
CHAIN_CALLEES = {
    U + "read_batch": read_batch_callee,
    QM + "run_worker": run_worker_callee,
    KQ + "batch_marginal_ln_likelihood": kernel_batch_ll, "CJokerHelper.batch_marginal_ln_likelihood": kernel_batch_ll,
    KQ + "batch_get_posterior_samples": kernel_batch_post, "CJokerHelper.batch_get_posterior_samples": kernel_batch_post,
    "thejoker.samples.JokerSamples.unpack": samples_unpack,
}
