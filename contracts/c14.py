"""C14 - iterative rejection sampling respects request, budget and acceptance rule."""
from . import filemodel
from . import rejection as R

PROPERTY = "C14"
CONTRACTS = R.select(R.iterative_inmem + R.iterative_file, {"C14"})
CALLEES = {**R.INMEM_CALLEES, **R.FILE_CALLEES}
LIB = filemodel.install_repo_models({})


# the plumbing this property's claim runs through (contracts/chain.py): listed here too, so that a change inside it is caught by THIS check
from . import chain as CH   # noqa: E402
CH.extend(CONTRACTS, CH.readers() + CH.plumbing() + CH.tables() + CH.wrapper())


def _EXTRA0():
    # the public entry point hands request, budget and batching options to the function that does the work, on both paths
    from jvc import effects
    return effects.check_option_forwarding(["thejoker.thejoker.TheJoker.iterative_rejection_sample"], PROPERTY,
                                           must_flow=[("max_prior_samples", "iterative_rejection_inmem", "prior_samples_batch")])


def EXTRA():
    from . import chain as _CHX
    return list(_EXTRA0()) + _CHX.frame_effects(PROPERTY)
