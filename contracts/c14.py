"""C14 - iterative rejection sampling respects request, budget and acceptance rule."""
from . import rejection as R

PROPERTY = "C14"
CONTRACTS = R.select(R.iterative_inmem, {"C14"})
CALLEES = dict(R.INMEM_CALLEES)
