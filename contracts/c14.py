"""C14 - iterative rejection sampling respects request, budget and acceptance rule."""
from . import filemodel
from . import rejection as R

PROPERTY = "C14"
CONTRACTS = R.select(R.iterative_inmem + R.iterative_file, {"C14"})
CALLEES = {**R.INMEM_CALLEES, **R.FILE_CALLEES}
LIB = filemodel.install_repo_models({})
