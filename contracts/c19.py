"""C19 - time-sampling diagnostics equal their definitions (max_phase_gap incl. the wrap arc, phase_coverage,
periods_spanned, MAP_sample, RVData.phase)."""
import ast

import z3

from jvc.lib import LIB as _L, model
from jvc.symexec import Contract, b_and, q_forall, to_z3
from jvc.values import Arr, Obj, Opaque, PyList, Unsupported, fresh_arr, fresh_int, fresh_name, fresh_real

from . import astromodel as A

PROPERTY = "C19"
SA = "thejoker.samples_analysis."


def sample_param(ex, path, name):
    P = A.quantity(z3.Real("P.value"), A.sym_unit("P.unit", A.U_DAY.fields["dim"]))
    path.assume(*P.fields["unit"].sym_facts, P.fields["value"] > 0)
    o = Obj("JokerSamples", {"P": P})
    o.fields["__getitem__"] = lambda ex_, p_, recv, key, node: recv.fields[key]
    return o


def data_param(ex, path, name):
    t = fresh_arr("t_bmjd", 1, "real")
    path.assume(t.shape[0] >= 1)
    tref = z3.Real("t_ref_bmjd")
    o = Obj("RVData", {"t": A.time_obj(t), "t_ref": A.time_obj(tref), "_t_bmjd": t, "_t_ref_bmjd": tref, "__len__": t.shape[0]},
            ident="data")
    return o


def _res_phase(ex, path, bound, node):
    data, P = bound["self"], bound["P"]
    cache = path.ghost.setdefault("phase_cache", {})
    key = (data.ident, id(P))
    if key not in cache:
        n = data.fields["__len__"]
        a = fresh_arr("phase", 1, "real", [n])
        k = z3.Int(fresh_name("k"))
        path.assume(q_forall([k], b_and(0 <= k, k < n), b_and(a.at(k) >= 0, a.at(k) < 1), pats=[a.at(k)]))
        cache[key] = (P, A.quantity(a, A.U_ONE))
    return cache[key][1]


phase_callee = Contract("thejoker.data.RVData.phase", PROPERTY, requires=["t_ref is None"], ensures={}, result=_res_phase)

_sorted_cache = {}
_prev_sort = _L["numpy.sort"]


@model("numpy.sort", doc=_prev_sort.__doc__ or "sort: deterministic (two calls on the same array agree)")
def _sort_cached(ex, path, args, kwargs, node, fn):
    v = args[0]
    inner = v.fields["value"] if isinstance(v, Obj) and v.cls == "Quantity" else v
    cache = path.ghost.setdefault("sort_cache", {})
    if id(inner) not in cache:
        cache[id(inner)] = (inner, _prev_sort(ex, path, args, kwargs, node, fn))
    return cache[id(inner)][1]


LIB = {"numpy.sort": _sort_cached}

GAP_DEFS = {
    "p": ([], "np.sort(data.phase(sample['P'])).value"),
    "n": ([], "len(data)"),
    "wrap": ([], "p()[0] + 1 - p()[n() - 1]"),
}
max_phase_gap = Contract(
    SA + "max_phase_gap", PROPERTY, params={"sample": sample_param, "data": data_param},
    defs=GAP_DEFS,
    ensures={
        "bounds-every-interior-gap": "all(result >= p()[i + 1] - p()[i] for i in range(n() - 1))",
        "bounds-the-wrap-arc": "result >= wrap()",
        "is-one-of-the-arcs": "result == wrap() or any(result == p()[i + 1] - p()[i] for i in range(n() - 1))",
    })

CONTRACTS = [max_phase_gap]
CALLEES = {"thejoker.data.RVData.phase": phase_callee, "RVData.phase": phase_callee}


# ---- phase_coverage ---------------------------------------------------------------------------------------------------
@model("occupied_bins", doc="spec: j -> 'some observation has phase in [j/n_bins, (j+1)/n_bins)' (last bin closed)")
def _occupied(ex, path, args, kwargs, node, fn):
    ph, nb = args
    x = ph.fields["value"] if isinstance(ph, Obj) else ph
    nbz = to_z3(nb)

    def at(j):
        i = z3.Int(fresh_name("i"))
        jz = to_z3(j)
        lo = z3.ToReal(jz) / z3.ToReal(nbz)
        hi = z3.ToReal(jz + 1) / z3.ToReal(nbz)
        return z3.Exists([i], z3.And(0 <= i, i < to_z3(x.shape[0]), lo <= x.at(i), z3.If(jz == nbz - 1, x.at(i) <= hi, x.at(i) < hi)))
    return Arr([nb], at, "bool", "occupied")


LIB["occupied_bins"] = _occupied
LIB["count_true"] = _L["<Arr>.sum"]

phase_coverage = Contract(
    SA + "phase_coverage", PROPERTY, params={"sample": sample_param, "data": data_param, "n_bins": "pos"},
    ensures={"fraction-of-occupied-bins": "result * n_bins == count_true(occupied_bins(data.phase(sample['P']), n_bins))"})

# ---- periods_spanned ----------------------------------------------------------------------------------------------------
periods_spanned = Contract(
    SA + "periods_spanned", PROPERTY, params={"sample": sample_param, "data": data_param},
    defs={"Pday": ([], "sample['P'].value * sample['P'].unit.scale / 86400")},
    ensures={
        "baseline-over-period": "all(result * Pday() >= data._t_bmjd[i] - data._t_bmjd[j] for i in range(len(data)) for j in range(len(data)))",
        "attained": "any(result * Pday() == data._t_bmjd[i] - data._t_bmjd[j] for i in range(len(data)) for j in range(len(data)))",
    })

CONTRACTS += [phase_coverage, periods_spanned]


# ---- RVData.phase -----------------------------------------------------------------------------------------------------------
def P_param(ex, path, name):
    P = A.quantity(z3.Real("P.value"), A.sym_unit("P.unit", A.U_DAY.fields["dim"]))
    path.assume(*P.fields["unit"].sym_facts, P.fields["value"] > 0)
    return P


@model("frac_", doc="spec: x - floor(x)")
def _frac(ex, path, args, kwargs, node, fn):
    x = to_z3(args[0], "real")
    return x - z3.ToReal(z3.ToInt(x))


LIB["frac_"] = _frac

rvdata_phase = Contract(
    "thejoker.data.RVData.phase", PROPERTY, params={"self": data_param, "P": P_param},
    cases=[{"_name": "default-epoch", "t_ref": "none"}],
    # elapsed time in days, expressed in periods: (dt / P.value) [day / P-unit] x (day per P-unit)^-1
    defs={"periods": (["dt"], "(dt / P.value) * (86400 / P.unit.scale)")},
    ensures={
        "dimensionless": "result.unit.dim == (0, 0, 0) and result.unit.scale == 1",
        "is-the-fractional-number-of-periods-since-t_ref": "all(result.value[i] == frac_(periods(self._t_bmjd[i] - self._t_ref_bmjd)) for i in range(len(self)))",
        "in-unit-interval": "all(0 <= result.value[i] and result.value[i] < 1 for i in range(len(self)))",
    })


# ---- MAP_sample ---------------------------------------------------------------------------------------------------------------
def logprob_samples_param(ex, path, name):
    n = z3.Int("n_samples")
    path.assume(n >= 1)
    lnp = fresh_arr("ln_prior", 1, "real", [n])
    lnl = fresh_arr("ln_likelihood", 1, "real", [n])
    tbl = Obj("QTable", {"colnames": PyList(["P", "e", "omega", "M0", "s", "ln_prior", "ln_likelihood"])})
    o = Obj("JokerSamples", {"tbl": tbl, "ln_prior": A.quantity(lnp, A.U_ONE), "ln_likelihood": A.quantity(lnl, A.U_ONE), "__len__": n},
            ident="samples")

    def getitem(ex_, p_, recv, key, node):
        if isinstance(key, str):
            return recv.fields[key]
        return Obj("JokerSamples", {"row_of": recv, "row_index": key, "cls_name": "JokerSamples"})   # C17: a member row
    o.fields["__getitem__"] = getitem
    return o


MAP_sample = Contract(
    SA + "MAP_sample", PROPERTY, params={"samples": logprob_samples_param},
    cases=[{"_name": "sample-only", "return_index": "false"}, {"_name": "with-index", "return_index": "true"}],
    defs={"row": ([], "result[0] if return_index else result"),
          "post": (["i"], "samples['ln_prior'].value[i] + samples['ln_likelihood'].value[i]")},
    ensures={
        "is-a-row-of-the-input": "row().row_of is samples and 0 <= row().row_index and row().row_index < len(samples)",
        "maximises-ln_prior-plus-ln_likelihood": "all(post(i) <= post(row().row_index) for i in range(len(samples)))",
        "index-returned": "implies(return_index, result[1] == row().row_index)",
    })

CONTRACTS += [rvdata_phase, MAP_sample]
# the diagnostics read sample['P']: the period column is whatever was assigned to it last (contract stated in c17.py)
from . import c17 as _C17S   # noqa: E402
from .chain import clone as _clone_s   # noqa: E402
CONTRACTS += [_clone_s(_c, lib=_C17S.LIB, hooks=_C17S.HOOKS, home="c17") for _c in _C17S.setitem]
ASSUMPTIONS = ["numpy: sort (non-decreasing rearrangement), max/min/argmax, concatenate, linspace, histogram bin semantics",
               "astropy: Time - Time is a TimeDelta in days; Quantity % 1.0 converts to dimensionless first; Time.jd = mjd + 2400000.5",
               "JokerSamples.__getitem__(int) returns that member row (decided in C17)"]
NOT_DECIDED = ["invariance under permutation of the observations and under time reversal are properties of the *definition* "
               "(sorted phases / arcs on the circle); they hold for the code exactly because result == definition is discharged"]


def EXTRA():
    # the diagnostics only READ their arguments (asking twice gives the same answer)
    from jvc import effects
    return effects.check_no_inplace_on_borrowed(["thejoker.samples_analysis.MAP_sample", "thejoker.samples_analysis.max_phase_gap",
                                                 "thejoker.samples_analysis.phase_coverage", "thejoker.samples_analysis.periods_spanned",
                                                 "thejoker.data.RVData.phase"], PROPERTY)
