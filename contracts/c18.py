"""C18 - only priors and data that satisfy the sampler's assumptions are accepted.
Exceptional postconditions: *if the constructor / validator returns normally, then every validation predicate holds*;
the inputs carry one symbolic Boolean per way of being wrong (missing, unit-less, wrong dimension, not a random
variable, non-Normal), so a deleted or weakened check makes the corresponding clause refutable."""
import z3

from jvc.lib import LIB as _L

_LOCAL = {}


def model(*names, doc=""):
    """library contracts of THIS module only (applied through LIB to C18's contracts and to their clones, `home="c18"`): they override builtins such
    as dict / Unit.is_equivalent, so they must not be registered in the global table other properties use"""
    def deco(f):
        for n in names:
            _LOCAL[n] = f
        return f
    return deco


from jvc.symexec import Contract, str_const, to_z3
from jvc.values import Arr, NameRef, Obj, Opaque, PyDict, PyList, Unsupported, fresh_arr, fresh_int, fresh_name, PyObj

from . import astromodel as A

PROPERTY = "C18"
PR = "thejoker.prior."
HOOKS = {"inline": {"thejoker.prior_helpers.validate_poly_trend", "thejoker.prior_helpers.validate_n_offsets",
                    "thejoker.prior_helpers.get_nonlinear_equiv_units", "thejoker.prior_helpers.get_linear_equiv_units",
                    "thejoker.prior_helpers.get_v0_offsets_equiv_units"}}

NONLIN = ["P", "e", "omega", "M0", "s"]


def names_for(poly_trend, n_offsets):
    lin = ["K"] + [f"v{i}" for i in range(poly_trend)]
    off = [f"dv0_{i}" for i in range(1, n_offsets + 1)]
    return NONLIN, lin, off


def var_obj(name):
    """a candidate prior variable with one symbolic flag per validation question"""
    unit = Obj("Unit", {"name": f"unit_of_{name}"})
    # the unit the user attached: an arbitrary physical dimension (time, length, angle exponents)
    unit.fields["symdim"] = tuple(z3.Int(f"{name}.unit.{d}") for d in A.DIMS)
    flags = {q: z3.Bool(f"{name}.{q}") for q in ("has_unit", "has_owner", "is_random_variable")}
    pname = Opaque(f"{name}.print_name", z3.Const(f"{name}.print_name", PyObj))
    op = Obj("Op", {"_print_name": PyList([pname, "tex"], None, True)})
    op.type_pred = lambda short, f=flags["is_random_variable"]: f
    owner = Obj("Apply", {"op": op})
    v = Obj("TensorVariable", {"name": name, "__tensor_unit__": unit, "owner": owner, "flags": flags, "print_name": pname})
    v.fields["__hasattr__"] = lambda a, flags=flags: {"__tensor_unit__": flags["has_unit"], "owner": flags["has_owner"]}.get(a, False)
    return v


def canonical_dim(name):
    """the canonical units of the property: P a time, e a number, omega / M0 angles, s / K / v0 / offsets velocities, v_i a velocity per time**i"""
    if name == "P":
        return (1, 0, 0)
    if name == "e":
        return (0, 0, 0)
    if name in ("omega", "M0"):
        return (0, 0, 1)
    if name in ("s", "K") or name.startswith("dv0_"):
        return (-1, 1, 0)
    return (-1 - int(name[1:]), 1, 0)


@model("Unit.is_equivalent")
def _is_equiv_sym(ex, path, args, kwargs, node, fn):
    a = args[0]
    if "symdim" in a.fields:
        if not A.is_unit(args[1]) or "dim" not in args[1].fields:
            raise Unsupported("is_equivalent against something that is not a known unit")
        return z3.And(*[s_ == d for s_, d in zip(a.fields["symdim"], args[1].fields["dim"])])
    return _prev_equiv(ex, path, args, kwargs, node, fn)


_prev_equiv = _L["Unit.is_equivalent"]
LIB = {"Unit.is_equivalent": _is_equiv_sym}


def pars_param(poly_trend, n_offsets):
    def build(ex, path, name):
        nl, lin, off = names_for(poly_trend, n_offsets)
        present = {n_: z3.Bool(f"{n_}.given") for n_ in nl + lin}
        vars_ = {n_: var_obj(n_) for n_ in nl + lin + off}
        path.ghost["vars"] = vars_
        path.ghost["present"] = present
        d = Obj("dict", {"vars": vars_, "present": dict(present)})
        d.fields["__contains__"] = lambda item, d=d: d.fields["present"].get(item, False)
        d.fields["__getitem__"] = lambda ex_, p_, recv, key, node_: recv.fields["vars"][key]
        d.type_pred = lambda short: "dict" in short
        d.fields["__mutate__"] = _dict_mutate
        return d
    return build


def _dict_mutate(recv, meth, args):
    if meth != "update" or not isinstance(args[0], PyDict):
        raise Unsupported(f"dict.{meth}")
    new = Obj("dict", dict(recv.fields), recv.ident)
    new.fields["vars"] = dict(recv.fields["vars"])
    new.fields["present"] = dict(recv.fields["present"])
    for k in args[0].keys:
        new.fields["vars"][k] = args[0].vals[k]
        new.fields["present"][k] = True
    new.fields["__contains__"] = lambda item, d=new: d.fields["present"].get(item, False)
    new.type_pred = recv.type_pred
    return new


@model("dict")
def _dict_sym(ex, path, args, kwargs, node, fn):
    if args and isinstance(args[0], Obj) and args[0].cls == "dict":
        return args[0]
    return _prev_dict(ex, path, args, kwargs, node, fn)


_prev_dict = _L["dict"]
LIB["dict"] = _dict_sym


@model("dict.update")
def _dict_update(ex, path, args, kwargs, node, fn):
    raise Unsupported("dict.update as an expression")


def offsets_param(n_offsets):
    def build(ex, path, name):
        # the offset priors handed in as a list of variables named dv0_1.. (their names are what the constructor keys them by)
        vars_ = path.ghost.get("vars") or {}
        return PyList([vars_.get(f"dv0_{i}") or var_obj(f"dv0_{i}") for i in range(1, n_offsets + 1)])
    return build


def self_param(ex, path, name):
    o = Obj("JokerPrior", {"__qualclass__": "thejoker.prior.JokerPrior"}, ident="self")
    return o


# self.par_names and self.n_offsets are properties of the real class: inline them
def _prop_inline(qual):
    from jvc.extract import locate

    def res(ex, path, bound, node):
        return ex.call_inline(qual, [bound["self"]], {}, path, node)
    c = Contract(qual, PROPERTY, ensures={}, result=res)
    c.is_property = True
    return c


n_offsets_prop = _prop_inline(PR + "JokerPrior.n_offsets")
par_names_prop = _prop_inline(PR + "JokerPrior.par_names")
validate_model_callee = Contract(PR + "_validate_model", PROPERTY, ensures={}, result=lambda ex, path, bound, node: Obj("pm.Model", {"named_vars": PyDict()}))


@model("ok_var", doc="spec: the parameter is present, carries a unit, and the unit is convertible to the canonical one")
def _ok_var(ex, path, args, kwargs, node, fn):
    n_ = args[0]
    v = path.ghost["vars"][n_]
    pres = path.ghost["present"].get(n_, True)
    sd = v.fields["__tensor_unit__"].fields["symdim"]
    return z3.And(to_z3(pres), v.fields["flags"]["has_unit"], *[s_ == d for s_, d in zip(sd, canonical_dim(n_))])


@model("ok_linear", doc="spec: the linear parameter's prior is a random variable whose distribution is Normal (or the FixedCompanionMass Normal)")
def _ok_linear(ex, path, args, kwargs, node, fn):
    v = path.ghost["vars"][args[0]]
    pn = v.fields["print_name"].term
    return z3.And(v.fields["flags"]["has_owner"], v.fields["flags"]["is_random_variable"],
                  z3.Or(pn == str_const("Normal"), pn == str_const("FixedCompanionMass")))


LIB.update({"ok_var": _ok_var, "ok_linear": _ok_linear})


@model("<PyList>.update")
def _noop(ex, path, args, kwargs, node, fn):
    raise Unsupported("update")


def _obj_update(ex, path, args, kwargs, node, fn):
    raise Unsupported("dict-object update")


def prior_contracts():
    out = []
    for pt_, no in ((1, 0), (2, 0), (1, 1), (3, 2)):
        nl, lin, off = names_for(pt_, no)
        ens = {
            "every-required-parameter-present-with-convertible-unit": " and ".join(f"ok_var('{n_}')" for n_ in nl + lin + off),
            "every-linear-and-offset-prior-is-normal": " and ".join(f"ok_linear('{n_}')" for n_ in lin + off),
            "parameter-order-nonlinear-linear-offsets": f"self.par_names == {nl + lin + off!r}",
            "stores-the-validated-parameters": "self.pars is pars",
            # the kernel helper reads the k-th offset prior as the prior of the k-th further survey's column (C08)
            "offset-priors-kept-in-the-given-order": " and ".join([f"len(self.v0_offsets) == {no}"] + [f"self.v0_offsets[{i}] is v0_offsets[{i}]" for i in range(no)]),
        }
        out.append(Contract(PR + "JokerPrior.__init__", PROPERTY,
                            params={"self": self_param, "pars": pars_param(pt_, no), "poly_trend": ("const", pt_),
                                    "v0_offsets": offsets_param(no) if no else "none", "model": "opaque"},
                            cases=[{"_name": f"poly_trend={pt_},n_offsets={no}"}], ensures=ens))
    return out


@model("pars_entry")
def _pars_entry(ex, path, args, kwargs, node, fn):
    return path.ghost["pars_entry"]


LIB["pars_entry"] = _pars_entry
from . import unitmaps as _UM
CONTRACTS = prior_contracts() + _UM.contracts(PROPERTY)

# `_validate_model` (above it enters JokerPrior.__init__ as a callee model): a pymc Model handed in is the one returned; anything else that is not
# None never comes back (the TypeError is the only way out).  The `model is None` branch depends on pymc's context stack and stays assumed.
validate_model = [
    Contract(PR + "_validate_model", PROPERTY, params={"model": lambda ex, path, n: Obj("pymc.Model", {"named_vars": PyDict()}, ident="model")},
             cases=[{"_name": "a-pymc-Model"}], ensures={"the-given-model-is-returned": "result is model"}),
    Contract(PR + "_validate_model", PROPERTY, params={"model": lambda ex, path, n: Obj("dict-like-not-a-Model", {"named_vars": PyDict()}, ident="model")},
             cases=[{"_name": "not-a-Model"}], ensures={"never-returned-as-a-model": "False"}),
]
for _c in validate_model:
    _c.callees = {}
    _c.lib = {"pymc.Model": lambda ex, path, args, kwargs, node, fn: Obj("pymc.Model", {"named_vars": PyDict()}, ident=f"fresh-model@{node.lineno}")}
CONTRACTS += validate_model
CALLEES = {PR + "_validate_model": validate_model_callee,
           PR + "JokerPrior.n_offsets": n_offsets_prop, "JokerPrior.n_offsets": n_offsets_prop,
           PR + "JokerPrior.par_names": par_names_prop, "JokerPrior.par_names": par_names_prop}
ASSUMPTIONS = ["pytensor introspection: hasattr(var, 'owner'), isinstance(var.owner.op, RandomVariable), op._print_name[0] name the distribution",
               "astropy Unit.is_equivalent decides unit convertibility"]
NOT_DECIDED = []


# ---- TheJoker.__init__ -----------------------------------------------------------------------------------------------------------------
def flagged(name, types):
    """an arbitrary object whose answers to isinstance / hasattr questions are symbolic Booleans"""
    def build(ex, path, _n):
        o = Obj(name, {}, ident=name)
        tflags = {t: z3.Bool(f"{name}.is_{t}") for t in types}
        aflags = {}
        o.type_pred = lambda short, tflags=tflags: z3.Or(*[tflags[t] for t in short if t in tflags]) if any(t in tflags for t in short) else False
        o.fields["__hasattr__"] = lambda a, aflags=aflags, name=name: aflags.setdefault(a, z3.Bool(f"{name}.has_{a}"))
        path.ghost.setdefault("flags", {})[name] = (tflags, aflags)
        return o
    return build


@model("schwimmbad.SerialPool")
def _serial(ex, path, args, kwargs, node, fn):
    return Obj("SerialPool", {"size": 0, "is_default_pool": True})


@model("numpy.random.default_rng")
def _default_rng(ex, path, args, kwargs, node, fn):
    return Obj("Generator", {"name": "<fresh default_rng>", "is_default_rng": True})


@model("os.path.expanduser", "os.path.abspath")
def _ospath(ex, path, args, kwargs, node, fn):
    return Opaque("path")


@model("tflag", doc="spec: the symbolic answer to isinstance(obj, T)")
def _tflag(ex, path, args, kwargs, node, fn):
    return path.ghost["flags"][args[0]][0][args[1]]


@model("aflag", doc="spec: the symbolic answer to hasattr(obj, name)")
def _aflag(ex, path, args, kwargs, node, fn):
    return path.ghost["flags"][args[0]][1].setdefault(args[1], z3.Bool(f"{args[0]}.has_{args[1]}"))


LIB.update({"schwimmbad.SerialPool": _serial, "numpy.random.default_rng": _default_rng, "os.path.expanduser": _ospath, "os.path.abspath": _ospath,
            "tflag": _tflag, "aflag": _aflag})

thejoker_init = [
    Contract("thejoker.thejoker.TheJoker.__init__", PROPERTY,
             params={"self": lambda ex, path, n: Obj("TheJoker", {}, ident="self"), "prior": flagged("prior", ["JokerPrior"]), "tempfile_path": "none"},
             cases=[{"_name": f"pool={'given' if pg else 'None'},rng={'given' if rg else 'None'}",
                     "pool": flagged("pool", []) if pg else "none", "rng": flagged("rng", ["Generator"]) if rg else "none"}],
             ensures={"prior-is-a-JokerPrior": "tflag('prior', 'JokerPrior') and self.prior is prior",
                      **({"pool-has-map-and-close": "aflag('pool', 'map') and aflag('pool', 'close') and self.pool is pool"} if pg else
                         {"default-pool-is-serial": "self.pool.is_default_pool"}),
                      **({"rng-is-a-numpy-Generator": "tflag('rng', 'Generator') and self.rng is rng"} if rg else
                         {"default-rng": "self.rng.is_default_rng"})})
    for pg in (False, True) for rg in (False, True)]


# ---- validate_prepare_data: source checks ----------------------------------------------------------------------------------------------
def sources_param(K):
    def build(ex, path, name):
        d = PyDict()
        flags = []
        for k in range(K):
            n = z3.Int(f"n_{k}")
            path.assume(n >= 0)        # a survey whose rows were all non-finite is an (empty) RVData too: it contributes no epoch and no column
            isrv, hascov = z3.Bool(f"src{k}.is_RVData"), z3.Bool(f"src{k}.has_cov")
            o = Obj("source", {"_has_cov": hascov, "__len__": n, "t": A.time_obj(fresh_arr(f"t_{k}", 1, "real", [n])),
                               "rv": A.quantity(fresh_arr(f"rv_{k}", 1, "real", [n]), A.U_KM), "rv_err": A.quantity(fresh_arr(f"e_{k}", 1, "real", [n]), A.U_KM)},
                    ident=f"src{k}")
            o.type_pred = lambda short, isrv=isrv: isrv if "RVData" in short else False
            flags.append((isrv, hascov))
            d = d.set(k + 10, o)
        path.ghost["src_flags"] = flags
        return d
    return build


@model("all_sources_ok", doc="spec: every source is an RVData without a full covariance")
def _all_src_ok(ex, path, args, kwargs, node, fn):
    return z3.And(*[z3.And(a, z3.Not(b)) for a, b in path.ghost["src_flags"]])


LIB["all_sources_ok"] = _all_src_ok
from .c08 import ctor as _ctor, trend_callee as _trend   # noqa: E402

def _res_trend_shape(ex, path, bound, node):
    """get_trend_design_matrix as a callee: the shape proved in C08 (`trend_matrix/shape`): one row per epoch, one column per distinct survey label
    plus one per further trend term"""
    data, ids, pt_ = bound["data"], bound["ids"], bound["poly_trend"]
    n = data.fields["__len__"]
    if ids is None:
        return fresh_arr("trend_M", 2, "real", [n, to_z3(pt_)])
    uq = _L["numpy.unique"](ex, path, [ids], {}, node, None)
    return fresh_arr("trend_M", 2, "real", [n, to_z3(uq.shape[0]) + to_z3(pt_) - 1])


_trend_shape = Contract("thejoker.likelihood_helpers.get_trend_design_matrix", "C08", ensures={}, result=_res_trend_shape)

vpd_checks = [Contract("thejoker.data_helpers.validate_prepare_data", PROPERTY,
                       params={"data": sources_param(K), "poly_trend": "pos", "n_offsets": "nat"},
                       cases=[{"_name": f"dict,K={K}"}],
                       ensures={"every-source-is-an-RVData-without-covariance": "all_sources_ok()",
                                # the marginalisation is exact only for the model the priors describe: one column per linear parameter
                                "one-design-matrix-column-per-linear-parameter": "result[2].shape[1] == 1 + n_offsets + (poly_trend - 1)"})
              for K in (2, 3)]


def single_param(ex, path, name):
    n = z3.Int("n_obs")
    o = Obj("RVData", {"__len__": n, "_t_bmjd": fresh_arr("t", 1, "real", [n]), "_t_ref_bmjd": z3.Real("tref")}, ident="data")
    return o


vpd_single = Contract("thejoker.data_helpers.validate_prepare_data", PROPERTY,
                      params={"data": single_param, "poly_trend": "pos", "n_offsets": "int"}, cases=[{"_name": "single-RVData"}],
                      ensures={"single-source-means-no-offsets": "n_offsets == 0"})

CONTRACTS += thejoker_init + vpd_checks + [vpd_single]
CALLEES.update({"thejoker.data.RVData": _ctor, "thejoker.data.RVData.__init__": _ctor, "thejoker.likelihood_helpers.get_trend_design_matrix": _trend_shape})

# every call prepares and uses THIS call's data, whatever earlier calls left on the sampler (contract stated in c08.py)
from . import c08 as _C08H   # noqa: E402
from .chain import clone as _clone   # noqa: E402
CONTRACTS += [_clone(_c, home="c08") for _c in _C08H.make_helper]

LIB.update({k: v for k, v in _LOCAL.items() if k not in LIB})
