"""C03 - linear parameters are drawn from the exact conditional posterior N(a, A): call-site obligations of
rng.multivariate_normal(mean=a, cov=inv(Ainv), size=n_linear_samples_per) with the same W, mu, Lambda (incl. the capped
K-variance rule) as the marginal likelihood; copy of the nonlinear columns; Lean: posterior_mean_cov / Ainv_entrywise."""
from . import kernel as KN
from . import rejection as R

PROPERTY = "C03"
from . import filemodel   # noqa: E402
from . import workers as _W   # noqa: E402
CONTRACTS = [KN.make_AAinv, KN.likelihood_worker[1], KN.bgp] + R.select([R.full_inmem], {"C03"})
CALLEES = dict(KN.CALLEES)
CALLEES.update(R.INMEM_CALLEES)
LIB = dict(KN.LIB)
# the cached path: blocks of linear draws come back from the pool and are put together for any batching (make_full_samples[_worker])
_chain = R.select(_W.post_worker + [_W.full_body], {"C03"})
for _c in _chain:
    _c.callees = dict(_W.CHAIN_CALLEES)
    _c.lib = filemodel.install_repo_models(dict(_W.LIB))
CONTRACTS += _chain
# the raw rows come back to the user through JokerSamples.unpack: column j is the parameter named by the j-th key of the kernel's units table
from . import c17 as _C17   # noqa: E402
CONTRACTS += _C17.unpack
HOOKS = KN.HOOKS
AXIOMS = KN.AXIOMS
LEMMAS = ["Marginal.lean"]
ASSUMPTIONS = KN.ASSUMPTIONS + ["numpy Generator.multivariate_normal draws independently from N(mean, cov) (its law is not decided)",
                                "np.linalg.inv is the two-sided inverse"]
NOT_DECIDED = ["that the draws are distributed as N(a, A) and independent (numpy)"]

# the plumbing this property's claim runs through (contracts/chain.py): listed here too, so that a change inside it is caught by THIS check
from . import chain as CH   # noqa: E402
CH.extend(CONTRACTS, CH.readers() + CH.plumbing(('post',)) + CH.tables(pack=True, unpack=True))


def EXTRA():
    from . import chain as _CHX
    return _CHX.frame_effects(PROPERTY)
