"""C03 - linear parameters are drawn from the exact conditional posterior N(a, A): call-site obligations of
rng.multivariate_normal(mean=a, cov=inv(Ainv), size=n_linear_samples_per) with the same W, mu, Lambda (incl. the capped
K-variance rule) as the marginal likelihood; copy of the nonlinear columns; Lean: posterior_mean_cov / Ainv_entrywise."""
from . import kernel as KN
from . import rejection as R

PROPERTY = "C03"
CONTRACTS = [KN.make_AAinv, KN.likelihood_worker[1], KN.bgp] + R.select([R.full_inmem], {"C03"})
CALLEES = dict(KN.CALLEES)
CALLEES.update(R.INMEM_CALLEES)
LIB = dict(KN.LIB)
HOOKS = KN.HOOKS
AXIOMS = KN.AXIOMS
LEMMAS = ["Marginal.lean"]
ASSUMPTIONS = KN.ASSUMPTIONS + ["numpy Generator.multivariate_normal draws independently from N(mean, cov) (its law is not decided)",
                                "np.linalg.inv is the two-sided inverse"]
NOT_DECIDED = ["that the draws are distributed as N(a, A) and independent (numpy)"]
