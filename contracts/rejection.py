"""Contracts of the rejection-sampling functions (in-memory and file-cache paths).  Shared by
C02 (acceptance rule, rows unaltered, truncation), C06 (log-prob columns attached to their own row),
C05 (same rng-trace prefix on both paths), C10 (draws only on the handed generator), C14 (iterative).

Every clause label starts with the property it belongs to; a property's module selects its clauses.
"""
import z3

from jvc.symexec import Contract, b_and, q_forall, to_z3
from jvc.values import Arr, Obj, Opaque, PyDict, PyList, Unsupported, fresh_arr, fresh_int, fresh_name

from .common import reshaped_from_3d, batch_param, helper_obj, ll_of_rows, make_rng, samples_obj, trace

Q = "thejoker.likelihood_helpers."
QM = "thejoker.multiproc_helpers."
KQ = "thejoker.src.fast_likelihood.CJokerHelper."


def helper_param(ex, path, name):
    return helper_obj()


def rng_param(ex, path, name):
    return make_rng(name)


def lnprior_param(ex, path, name):
    a = fresh_arr(name, 1, "real")
    path.assume(a.shape[0] >= 0)
    return a


# ------------------------------------------------------------------------------------------------------------
# kernel methods, as seen by their Python callers (these two contracts are proved against the .pyx in C01/C03/C05)
def _res_batch_ll(ex, path, bound, node):
    return ll_of_rows(bound["chunk"])


kernel_batch_ll = Contract(
    KQ + "batch_marginal_ln_likelihood", "C01",
    requires=["chunk.shape[1] == 5"],
    ensures={"len": "len(result) == chunk.shape[0]"},
    result=_res_batch_ll)


def _res_batch_post(ex, path, bound, node):
    chunk, nlin, rng = bound["chunk"], bound["n_linear_samples_per"], bound["rng"]
    npars = fresh_int("n_pars")
    path.assume(npars >= 7)
    raw = reshaped_from_3d(fresh_arr("raw3", 3, "real", [chunk.shape[0], nlin, npars]), "raw_samples")
    ll = fresh_arr("raw_ll", 1, "real", [to_z3(chunk.shape[0]) * to_z3(nlin)])
    trace(path).append({"gen": rng.ident if isinstance(rng, Obj) else "<not a generator>", "kind": "mvn-batch",
                        "size": chunk.shape[0], "value": raw, "line": node.lineno})
    return PyList([raw, ll], None, True)


kernel_batch_post = Contract(
    KQ + "batch_get_posterior_samples", "C03",
    requires=["chunk.shape[1] == 5", "n_linear_samples_per >= 1"],
    ensures={"nonlinear-copied": "all(view3(result[0])[n, j, c] == chunk[n, c] "
                                 "for n in range(chunk.shape[0]) for j in range(n_linear_samples_per) for c in range(5))"},
    result=_res_batch_post)


def _res_unpack(ex, path, bound, node):
    kw = bound.get("kwargs") or PyDict()
    extra = {"packed": bound["packed_samples"], "units": bound["units"]}
    for k in ("t_ref", "poly_trend", "n_offsets"):
        extra[k] = kw.vals.get(k) if isinstance(kw, PyDict) else None
    return samples_obj(None, None, None, extra)


samples_unpack = Contract(
    "thejoker.samples.JokerSamples.unpack", "C17",
    ensures={}, result=_res_unpack)

# ------------------------------------------------------------------------------------------------------------
marginal_inmem = Contract(
    Q + "marginal_ln_likelihood_inmem", "C02",
    params={"joker_helper": helper_param, "prior_samples_batch": batch_param},
    ensures={
        "C02:len": "len(result) == len(prior_samples_batch)",
        "C02:value": "all(result[i] == LL(prior_samples_batch, i) for i in range(len(prior_samples_batch)))",
        "C10:no-draw": "n_rng_events() == 0",
    },
    result=lambda ex, path, bound, node: ll_of_rows(bound["prior_samples_batch"]))


def _res_full_inmem(ex, path, bound, node):
    rows, nlin, rng, helper = bound["prior_samples_batch"], bound.get("n_linear_samples", 1), bound["rng"], bound["joker_helper"]
    npars = fresh_int("n_pars")
    path.assume(npars >= 7)
    packed = reshaped_from_3d(fresh_arr("packed3", 3, "real", [rows.shape[0], nlin, npars]), "packed")
    trace(path).append({"gen": rng.ident if isinstance(rng, Obj) else "<not a generator>", "kind": "mvn-batch",
                        "size": rows.shape[0], "value": packed, "line": node.lineno})
    return samples_obj(rows, nlin, helper, {"packed": packed, "units": helper.fields["internal_units"],
                                            "t_ref": helper.fields["data"].fields["t_ref"],
                                            "poly_trend": helper.fields["prior"].fields["poly_trend"],
                                            "n_offsets": helper.fields["prior"].fields["n_offsets"]})


FULL_ENS = {
    "C02:rows-unaltered": "all(view3(result.packed)[n, j, c] == prior_samples_batch[n, c] "
                          "for n in range(len(prior_samples_batch)) for j in range(n_linear_samples) for c in range(5))",
    "C03:units-from-helper": "result.units is joker_helper.internal_units",
    "C04:t_ref-from-data": "result.t_ref is joker_helper.data.t_ref",
    "C17:meta": "result.poly_trend == joker_helper.prior.poly_trend and result.n_offsets == joker_helper.prior.n_offsets",
    "C10:draws-on-handed-rng": "n_rng_events() == 1 and rng_event(0).gen == 'rng' and rng_event(0).kind == 'mvn-batch'",
}
full_inmem = Contract(
    Q + "make_full_samples_inmem", "C02",
    params={"joker_helper": helper_param, "prior_samples_batch": batch_param, "rng": rng_param, "n_linear_samples": "pos"},
    ensures=FULL_ENS, result=_res_full_inmem)

# ---- rejection_sample_inmem ------------------------------------------------------------------------------------
# spec vocabulary (all ghost):  N = evaluated rows; lls[i] = LL(row i); uu = the first draw on the handed generator;
# acc(i) = exp(lls[i] - max lls) > uu[i];  good = index array by which the returned rows were gathered from the library
REJ_DEFS = {
    "N": ([], "len(prior_samples_batch)"),
    "lls": ([], "lls_of(prior_samples_batch)"),
    "uu": ([], "rng_event(0).value"),
    "acc": (["i"], "exp_(lls()[i] - amax(lls())) > uu()[i]"),
    "S": ([], "result[0] if return_all_logprobs else result"),
    "good": ([], "src_idx(S().rows, prior_samples_batch)"),
    "K": ([], "N() if max_posterior_samples is None else max_posterior_samples"),
}
REJ_ENS = {
    "C02:draw-is-first-event-uniform-N": "rng_event(0).kind == 'uniform' and rng_event(0).gen == 'rng' and rng_event(0).size == N()",
    "C02:accepted-only": "all(acc(good()[k]) for k in range(len(good())))",
    "C02:in-range": "all(0 <= good()[k] and good()[k] < N() for k in range(len(good())))",
    "C02:evaluation-order": "all(good()[k] < good()[k + 1] for k in range(len(good()) - 1))",
    "C02:at-most-max": "len(good()) <= max(K(), 0)",
    "C02:first-accepted-kept": "all(implies(acc(i) and len(good()) >= 1 and i <= good()[len(good()) - 1], "
                               "0 <= wit(good(), i) and wit(good(), i) < len(good()) and good()[wit(good(), i)] == i) for i in range(N()))",
    "C02:all-accepted-kept-unless-truncated": "implies(len(good()) < K(), all(implies(acc(i), 0 <= wit(good(), i) and wit(good(), i) < len(good()) and good()[wit(good(), i)] == i) "
                                              "for i in range(N())))",
    "C02:rows-unaltered": "all(view3(S().packed)[k, j, c] == prior_samples_batch[good()[k], c] "
                          "for k in range(len(good())) for j in range(n_linear_samples) for c in range(5))",
    "C02:row-count": "view3(S().packed).shape[0] == len(good()) and view3(S().packed).shape[1] == n_linear_samples",
    "C06:all-logprobs-in-evaluation-order": "implies(return_all_logprobs, len(result[1]) == N() and "
                                            "all(result[1][i] == LL(prior_samples_batch, i) for i in range(N())))",
    "C10:only-handed-generator": "all(rng_event(k).gen == 'rng' for k in range(n_rng_events()))",
    "C10:trace-shape": "n_rng_events() == 2 and rng_event(1).kind == 'mvn-batch'",
    "C04:t_ref-from-data": "S().t_ref is joker_helper.data.t_ref",
}
REJ_ENS_LNP = {
    "C06:ln_likelihood-own-row": "len(S().cols['ln_likelihood']) == len(good()) and "
                                 "all(S().cols['ln_likelihood'][k] == LL(prior_samples_batch, good()[k]) for k in range(len(good())))",
    "C06:ln_prior-own-row": "len(S().cols['ln_prior']) == len(good()) and "
                            "all(S().cols['ln_prior'][k] == ln_prior[good()[k]] for k in range(len(good())))",
}
REJ_ENS_NOLNP = {"C06:no-logprob-columns": "len(S().cols) == 0"}

_rej_params = {"joker_helper": helper_param, "prior_samples_batch": batch_param, "rng": rng_param,
               "n_linear_samples": "pos"}
rejection_inmem = [
    Contract(Q + "rejection_sample_inmem", "C02", params=_rej_params,
             cases=[{"_name": f"ln_prior=arr,max={m},all={r}", "ln_prior": lnprior_param, "max_posterior_samples": m, "return_all_logprobs": r,
                     "_requires": ["max_posterior_samples >= 0"] if m == "int" else []}
                    for m in ("none", "int") for r in ("false", "true")],
             requires=["len(prior_samples_batch) >= 1", "len(ln_prior) == len(prior_samples_batch)"],
             ensures={**REJ_ENS, **REJ_ENS_LNP}, defs=REJ_DEFS,
             cover=["max_posterior_samples is None or max_posterior_samples < len(prior_samples_batch)"]),
    Contract(Q + "rejection_sample_inmem", "C02", params=_rej_params,
             cases=[{"_name": f"ln_prior={l},max={m},all={r}", "ln_prior": l, "max_posterior_samples": m, "return_all_logprobs": r,
                     "_requires": ["max_posterior_samples >= 0"] if m == "int" else []}
                    for (l, m) in (("none", "none"), ("none", "int"), ("false", "int")) for r in ("false", "true")],
             requires=["len(prior_samples_batch) >= 1"],
             ensures={**REJ_ENS, **REJ_ENS_NOLNP}, defs=REJ_DEFS),
]

INMEM_CALLEES = {
    KQ + "batch_marginal_ln_likelihood": kernel_batch_ll,
    "CJokerHelper.batch_marginal_ln_likelihood": kernel_batch_ll,
    KQ + "batch_get_posterior_samples": kernel_batch_post,
    "CJokerHelper.batch_get_posterior_samples": kernel_batch_post,
    "thejoker.samples.JokerSamples.unpack": samples_unpack,
    Q + "marginal_ln_likelihood_inmem": marginal_inmem,
    Q + "make_full_samples_inmem": full_inmem,
}


def select(contracts, prefixes):
    """copy of the contracts keeping only the clauses that belong to the given properties."""
    out = []
    for c in contracts:
        ens = {k: v for k, v in c.ensures.items() if k.split(":")[0] in prefixes}
        if not ens:
            continue
        c2 = Contract(c.qual, c.prop, c.params, c.requires, ens, c.invariants, c.defs, c.cases, c.result, c.cover,
                      c.raises, c.ghost_pre, c.notes, c.modifies, c.exc_ensures, c.assumes)
        out.append(c2)
    return out


# ---- iterative_rejection_inmem -------------------------------------------------------------------------------
# ghost vocabulary: E = number of rows evaluated (size of the last acceptance draw); rows 0..E-1 of the library were
# evaluated, each exactly once (all_marg_lls[p] == LL(row p) for p < E is carried by the loop invariant).
IT_DEFS = {
    "NT": ([], "len(prior_samples_batch)"),
    "uu": ([], "rng_event(-2).value"),
    "E": ([], "rng_event(-2).size"),
    "lls": ([], "lls_of(prior_samples_batch[0:E()])"),
    "acc": (["i"], "exp_(lls()[i] - amax(lls())) > uu()[i]"),
    "full": ([], "src_idx(result.rows, prior_samples_batch)"),
    "good": ([], "where_part(result.rows)"),
    "first_batch": ([], "growth_factor * n_requested_samples if init_batch_size is None else init_batch_size"),
}
IT_INV = {
    "evaluated-prefix": "len(all_marg_lls) == start_idx",
    "start-nonneg": "start_idx >= 0",
    "next-batch-nonempty": "n_process >= 1",
    "within-library": "start_idx + n_process <= n_total_samples",
    "each-row-once": "all(all_marg_lls[p] == LL(prior_samples_batch, p) for p in range(start_idx))",
}
IT_ENS = {
    "C14:returns-samples": "result.cls_name == 'JokerSamples'",
    "C14:acceptance-draw": "rng_event(-2).kind == 'uniform' and rng_event(-2).gen == 'rng' and rng_event(-1).kind == 'mvn-batch'",
    "C14:budget": "1 <= E() and E() <= NT()",
    "C14:accepted-only": "all(acc(good()[k]) for k in range(len(good())))",
    "C14:in-range": "all(0 <= good()[k] and good()[k] < E() for k in range(len(good())))",
    "C14:evaluation-order": "all(good()[k] < good()[k + 1] for k in range(len(good()) - 1))",
    "C14:at-most-requested": "len(good()) <= n_requested_samples",
    "C14:first-accepted-kept": "all(implies(acc(i) and len(good()) >= 1 and i <= good()[len(good()) - 1], "
                               "0 <= wit(good(), i) and wit(good(), i) < len(good()) and good()[wit(good(), i)] == i) for i in range(E()))",
    "C14:all-accepted-kept-unless-truncated": "implies(len(good()) < n_requested_samples, all(implies(acc(i), "
                                              "0 <= wit(good(), i) and wit(good(), i) < len(good()) and good()[wit(good(), i)] == i) for i in range(E())))",
    "C14:returned-row-is-the-evaluated-one": "len(full()) == len(good()) and all(full()[k] == good()[k] for k in range(len(good())))",
    "C14:rows-unaltered": "all(view3(result.packed)[k, j, c] == prior_samples_batch[full()[k], c] "
                          "for k in range(len(full())) for j in range(n_linear_samples) for c in range(5))",
    "C14:row-count": "view3(result.packed).shape[0] == len(good()) and view3(result.packed).shape[1] == n_linear_samples",
    "C14:library-big-enough-on-return": "first_batch() <= NT()",
    "C10:only-handed-generator": "all(rng_event(k).gen == 'rng' for k in range(n_rng_events()))",
}
IT_ENS_LNP = {
    "C06:ln_likelihood-own-row": "len(result.cols['ln_likelihood']) == len(good()) and "
                                 "all(result.cols['ln_likelihood'][k] == LL(prior_samples_batch, good()[k]) for k in range(len(good())))",
    "C06:ln_prior-own-row": "len(result.cols['ln_prior']) == len(good()) and "
                            "all(result.cols['ln_prior'][k] == ln_prior[good()[k]] for k in range(len(good())))",
}
IT_EXC = {
    # every failure is a *raised* exception: checked by C14:returns-samples on all returning paths
}
_it_params = {"joker_helper": helper_param, "prior_samples_batch": batch_param, "rng": rng_param,
              "n_requested_samples": "pos", "growth_factor": "pos", "n_linear_samples": "pos"}
iterative_inmem = [
    Contract(Q + "iterative_rejection_inmem", "C14", params=_it_params,
             cases=[{"_name": f"ln_prior={'arr' if l else 'None'},init={i}", "ln_prior": lnprior_param if l else "none",
                     "init_batch_size": i} for l in (True, False) for i in ("none", "pos")],
             requires=["len(prior_samples_batch) >= 1"],
             ensures=IT_ENS, invariants={1: IT_INV}, defs=IT_DEFS,
             cover=["n_requested_samples * growth_factor < len(prior_samples_batch)"]),
    Contract(Q + "iterative_rejection_inmem", "C14", params=_it_params,
             cases=[{"_name": f"ln_prior=arr,init={i}", "ln_prior": lnprior_param, "init_batch_size": i} for i in ("none", "pos")],
             requires=["len(prior_samples_batch) >= 1", "len(ln_prior) == len(prior_samples_batch)"],
             ensures=IT_ENS_LNP, invariants={1: IT_INV}, defs=IT_DEFS),
]


# =============================================================================================================
# file-cache path
from .filemodel import file_param, samples_lib_param  # noqa: E402


def pool_param(ex, path, name):
    return Obj("pool", {"size": z3.Int("pool.size")}, ident="pool")


def _lls_from_file(f, idx=None, n=None):
    packed = f.fields["packed"]
    if idx is not None:
        a = Arr([idx.shape[0]], lambda k: ll_of_rows(packed).at(idx.at(k)), "real", "lls")
        a.facts = list(getattr(idx, "facts", []))
        return a
    return Arr([n], lambda k: ll_of_rows(packed).at(k), "real", "lls")


def _res_ll_helper(ex, path, bound, node):
    f = bound["prior_samples_file"]
    idx = bound.get("samples_idx")
    npri = bound.get("n_prior_samples")
    if idx is not None:
        return _lls_from_file(f, idx=idx)
    return _lls_from_file(f, n=f.fields["nrows"] if npri is None else npri)


# contract of the *decorated* marginal_ln_likelihood_helper as seen by callers that pass a file name
ll_helper = Contract(
    QM + "marginal_ln_likelihood_helper", "C05",
    requires=["not (n_prior_samples is not None and samples_idx is not None)",
              "samples_idx is None or all(0 <= samples_idx[k] and samples_idx[k] < prior_samples_file.nrows for k in range(len(samples_idx)))",
              "n_prior_samples is None or (0 <= n_prior_samples and n_prior_samples <= prior_samples_file.nrows)"],
    ensures={"len": "len(result) == (len(samples_idx) if samples_idx is not None else "
                    "(prior_samples_file.nrows if n_prior_samples is None else n_prior_samples))"},
    result=_res_ll_helper)


def _res_full_file(ex, path, bound, node):
    f, idx, rng, helper = bound["prior_samples_file"], bound["samples_idx"], bound["rng"], bound["joker_helper"]
    nlin = bound.get("n_linear_samples", 1)
    rows = f.fields["packed"]
    from jvc.symexec import arr_index
    rows_g = arr_index(rows, (idx,))
    npars = fresh_int("n_pars")
    path.assume(npars >= 7)
    packed = reshaped_from_3d(fresh_arr("packed3", 3, "real", [rows_g.shape[0], nlin, npars]), "packed")
    trace(path).append({"gen": rng.ident if isinstance(rng, Obj) else "<not a generator>", "kind": "mvn-batch",
                        "size": rows_g.shape[0], "value": packed, "line": node.lineno})
    return samples_obj(rows_g, nlin, helper, {"packed": packed, "units": helper.fields["internal_units"],
                                              "t_ref": helper.fields["data"].fields["t_ref"],
                                              "poly_trend": helper.fields["prior"].fields["poly_trend"],
                                              "n_offsets": helper.fields["prior"].fields["n_offsets"]})


full_file = Contract(
    QM + "make_full_samples", "C02",
    requires=["all(0 <= samples_idx[k] and samples_idx[k] < prior_samples_file.nrows for k in range(len(samples_idx)))"],
    ensures={"C02:rows-unaltered": "all(view3(result.packed)[n, j, c] == prior_samples_file.packed[samples_idx[n], c] "
                                   "for n in range(len(samples_idx)) for j in range(n_linear_samples) for c in range(5))"},
    result=_res_full_file)

FILE_CALLEES = {
    QM + "marginal_ln_likelihood_helper": ll_helper,
    QM + "make_full_samples": full_file,
}

# ---- rejection_sample_helper --------------------------------------------------------------------------------------
# ghost vocabulary: NE = number of evaluated rows; ev(k) = library row evaluated k-th; uu = the acceptance draw;
# pick = positions (in evaluation order) of the returned rows; full = library rows of the returned samples
FREJ_DEFS = {
    "F": ([], "prior_samples_file"),
    "NE": ([], "F().nrows if n_prior_samples is None else n_prior_samples"),
    "ue": ([], "rng_event(1) if randomize_prior_order else rng_event(0)"),
    "uu": ([], "ue().value"),
    "ev": (["k"], "rng_event(0).value[k] if randomize_prior_order else k"),
    "ll": (["k"], "LL(F().packed, ev(k))"),
    "lls": ([], "ev_lls(F().packed, rng_event(0).value if randomize_prior_order else None, NE())"),
    "acc": (["k"], "exp_(lls()[k] - amax(lls())) > uu()[k]"),
    "S": ([], "result[0] if return_all_logprobs else result"),
    "full": ([], "src_idx(S().rows, F().packed)"),
    # positions, in evaluation order, of the returned rows
    "pick": ([], "where_part(S().rows)"),
    "K": ([], "NE() if max_posterior_samples is None else max_posterior_samples"),
}
FREJ_ENS = {
    "C02:shuffle-is-a-choice-without-replacement": "implies(randomize_prior_order, rng_event(0).kind == 'choice' and rng_event(0).gen == 'rng' "
                                                   "and rng_event(0).size == NE() and rng_event(0).N == F().nrows)",
    "C02:draw-is-uniform-NE": "ue().kind == 'uniform' and ue().gen == 'rng' and ue().size == NE()",
    "C02:returned-row-is-the-evaluated-one": "len(pick()) == len(full()) and all(full()[r] == ev(pick()[r]) for r in range(len(full())))",
    "C02:accepted-only": "all(acc(pick()[r]) for r in range(len(pick())))",
    "C02:in-range": "all(0 <= pick()[r] and pick()[r] < NE() for r in range(len(pick())))",
    "C02:evaluation-order": "all(pick()[r] < pick()[r + 1] for r in range(len(pick()) - 1))",
    "C02:at-most-max": "len(pick()) <= max(K(), 0)",
    "C02:first-accepted-kept": "all(implies(acc(k) and len(pick()) >= 1 and k <= pick()[len(pick()) - 1], "
                               "0 <= wit(pick(), k) and wit(pick(), k) < len(pick()) and pick()[wit(pick(), k)] == k) for k in range(NE()))",
    "C02:all-accepted-kept-unless-truncated": "implies(len(pick()) < K(), all(implies(acc(k), 0 <= wit(pick(), k) and wit(pick(), k) < len(pick()) and pick()[wit(pick(), k)] == k) "
                                              "for k in range(NE())))",
    "C02:rows-unaltered": "all(view3(S().packed)[r, j, c] == F().packed[full()[r], c] "
                          "for r in range(len(full())) for j in range(n_linear_samples) for c in range(5))",
    "C06:all-logprobs-in-evaluation-order": "implies(return_all_logprobs, len(result[1]) == NE() and all(result[1][k] == ll(k) for k in range(NE())))",
    "C10:only-handed-generator": "all(rng_event(k).gen == 'rng' for k in range(n_rng_events()))",
    "C13:read-only-opens": "all_opens_read_only()",
}
FREJ_ENS_LNP = {
    "C06:ln_prior-is-the-column-at-own-row": "is_array(S().cols['ln_prior']) and len(S().cols['ln_prior']) == len(full()) and "
                                             "all(S().cols['ln_prior'][r] == F().lnp[full()[r]] for r in range(len(full())))",
    "C06:ln_likelihood-own-row": "len(S().cols['ln_likelihood']) == len(full()) and "
                                 "all(S().cols['ln_likelihood'][r] == LL(F().packed, full()[r]) for r in range(len(full())))",
}
_frej_params = {"joker_helper": helper_param, "prior_samples_file": file_param, "pool": pool_param, "rng": rng_param,
                "n_linear_samples": "pos", "n_batches": "opaque"}


def _frej_cases(lnp):
    out = []
    for npri in ("none", "int"):
        for m in ("none", "int"):
            for rand in ("false", "true"):
                for ra in ("false", "true"):
                    req = []
                    if npri == "int":
                        req.append("n_prior_samples >= 1")
                    if m == "int":
                        req.append("max_posterior_samples >= 0")
                    out.append({"_name": f"npri={npri},max={m},rand={rand},all={ra}", "n_prior_samples": npri, "max_posterior_samples": m,
                                "randomize_prior_order": rand, "return_all_logprobs": ra, "return_logprobs": "true" if lnp else "false",
                                "_requires": req})
    return out


rejection_file = [
    Contract(QM + "rejection_sample_helper", "C02", params=_frej_params, cases=_frej_cases(False),
             requires=["prior_samples_file.nrows >= 1"], ensures=FREJ_ENS, defs=FREJ_DEFS),
    Contract(QM + "rejection_sample_helper", "C06", params=_frej_params, cases=_frej_cases(True),
             requires=["prior_samples_file.nrows >= 1"], ensures={**FREJ_ENS_LNP}, defs=FREJ_DEFS),
]


# ---- iterative_rejection_helper (file path) -----------------------------------------------------------------------
FIT_DEFS = {
    "F": ([], "prior_samples_file"),
    "MP": ([], "F().nrows if max_prior_samples is None else max_prior_samples"),
    "uu": ([], "rng_event(-2).value"),
    "E": ([], "rng_event(-2).size"),
    "ev": (["k"], "rng_event(0).value[k] if randomize_prior_order else k"),
    "lls": ([], "ev_lls(F().packed, rng_event(0).value if randomize_prior_order else None, E())"),
    "acc": (["k"], "exp_(lls()[k] - amax(lls())) > uu()[k]"),
    "full": ([], "src_idx(result.rows, F().packed)"),
    "pick": ([], "where_part(result.rows)"),
    "first_batch": ([], "growth_factor * n_requested_samples if init_batch_size is None else init_batch_size"),
}
FIT_INV = {
    "evaluated-prefix": "len(all_marg_lls) == start_idx",
    "start-nonneg": "start_idx >= 0",
    "next-batch-nonempty": "n_process >= 1",
    "within-budget": "start_idx + n_process <= max_prior_samples",
    "each-row-once": "all(all_marg_lls[p] == LL(prior_samples_file.packed, all_idx[p]) for p in range(start_idx))",
}
FIT_ENS = {
    "C14:returns-samples": "result.cls_name == 'JokerSamples'",
    "C14:shuffle-is-a-choice-without-replacement": "implies(randomize_prior_order, rng_event(0).kind == 'choice' and rng_event(0).gen == 'rng' "
                                                   "and rng_event(0).size == MP() and rng_event(0).N == F().nrows)",
    "C14:acceptance-draw": "rng_event(-2).kind == 'uniform' and rng_event(-2).gen == 'rng' and rng_event(-1).kind == 'mvn-batch'",
    "C14:budget": "1 <= E() and E() <= MP() and MP() <= F().nrows",
    "C14:returned-row-is-the-evaluated-one": "len(pick()) == len(full()) and all(full()[r] == ev(pick()[r]) for r in range(len(full())))",
    "C14:accepted-only": "all(acc(pick()[r]) for r in range(len(pick())))",
    "C14:in-range": "all(0 <= pick()[r] and pick()[r] < E() for r in range(len(pick())))",
    "C14:evaluation-order": "all(pick()[r] < pick()[r + 1] for r in range(len(pick()) - 1))",
    "C14:at-most-requested": "len(pick()) <= n_requested_samples",
    "C14:first-accepted-kept": "all(implies(acc(k) and len(pick()) >= 1 and k <= pick()[len(pick()) - 1], "
                               "0 <= wit(pick(), k) and wit(pick(), k) < len(pick()) and pick()[wit(pick(), k)] == k) for k in range(E()))",
    "C14:all-accepted-kept-unless-truncated": "implies(len(pick()) < n_requested_samples, all(implies(acc(k), "
                                              "0 <= wit(pick(), k) and wit(pick(), k) < len(pick()) and pick()[wit(pick(), k)] == k) for k in range(E())))",
    "C14:rows-unaltered": "all(view3(result.packed)[r, j, c] == F().packed[full()[r], c] "
                          "for r in range(len(full())) for j in range(n_linear_samples) for c in range(5))",
    "C14:library-big-enough-on-return": "first_batch() <= MP()",
    "C10:only-handed-generator": "all(rng_event(k).gen == 'rng' for k in range(n_rng_events()))",
    "C13:read-only-opens": "all_opens_read_only()",
}
FIT_ENS_LNP = {
    "C06:ln_prior-is-the-column-at-own-row": "is_array(result.cols['ln_prior']) and len(result.cols['ln_prior']) == len(full()) and "
                                             "all(result.cols['ln_prior'][r] == F().lnp[full()[r]] for r in range(len(full())))",
    "C06:ln_likelihood-own-row": "len(result.cols['ln_likelihood']) == len(full()) and "
                                 "all(result.cols['ln_likelihood'][r] == LL(F().packed, full()[r]) for r in range(len(full())))",
}
_fit_params = {"joker_helper": helper_param, "prior_samples_file": file_param, "pool": pool_param, "rng": rng_param,
               "n_requested_samples": "pos", "growth_factor": "pos", "n_linear_samples": "pos", "n_batches": "opaque"}


def _fit_cases(lnp):
    out = []
    for mp in ("none", "int"):
        for init in ("none", "pos"):
            for rand in ("false", "true"):
                out.append({"_name": f"max_prior={mp},init={init},rand={rand}", "max_prior_samples": mp, "init_batch_size": init,
                            "randomize_prior_order": rand, "return_logprobs": "true" if lnp else "false",
                            "_requires": ["max_prior_samples <= prior_samples_file.nrows"] if mp == "int" else []})
    return out


iterative_file = [
    Contract(QM + "iterative_rejection_helper", "C14", params=_fit_params, cases=_fit_cases(False),
             requires=["prior_samples_file.nrows >= 1"], ensures=FIT_ENS, invariants={1: FIT_INV}, defs=FIT_DEFS),
    Contract(QM + "iterative_rejection_helper", "C06", params=_fit_params, cases=_fit_cases(True),
             requires=["prior_samples_file.nrows >= 1"], ensures=FIT_ENS_LNP, invariants={1: FIT_INV}, defs=FIT_DEFS),
]
