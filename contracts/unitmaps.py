"""The canonical-unit tables (thejoker.prior_helpers): every layer that validates a unit - JokerPrior.__init__, JokerSamples.__init__ /
__setitem__ - looks the expected dimension up in these maps, so the properties that say "units convertible to the canonical ones" (C18) and
"tables keep their units" (C17) depend on them.  The clauses are taken from the property: P a time, e a pure number, omega / M0 angles,
s, K, v0 and the offsets velocities, and v_i a velocity per time**i.

poly_trend / n_offsets are enumerated (unit powers are concrete integers in the unit model): the listed values are decided for every input
of the listed shape, larger values are not decided here."""
from jvc.symexec import Contract

from . import astromodel as A

PH = "thejoker.prior_helpers."
MAX_TREND = 5
MAX_OFFSETS = 4


def _is_dim(ex, path, args, kwargs, node, fn):
    u_ = args[0]
    return A.is_unit(u_) and tuple(u_.fields["dim"]) == tuple(args[1:4])


LIB = {"is_dim_": _is_dim}


def contracts(prop):
    out = []
    for pt in range(1, MAX_TREND + 1):
        names = ["K"] + [f"v{i}" for i in range(pt)]
        out.append(Contract(PH + "get_linear_equiv_units", prop, params={"poly_trend": ("const", pt)}, cases=[{"_name": f"poly_trend={pt}"}],
                            ensures={"K-then-one-entry-per-trend-term-in-order": f"list(result.keys()) == {names!r}",
                                     "K-is-a-velocity": "is_dim_(result['K'], -1, 1, 0)",
                                     "v_i-is-a-velocity-per-time**i": " and ".join(f"is_dim_(result['v{i}'], {-1 - i}, 1, 0)" for i in range(pt))}))
    for no in range(0, MAX_OFFSETS + 1):
        names = [f"dv0_{i}" for i in range(1, no + 1)]
        out.append(Contract(PH + "get_v0_offsets_equiv_units", prop, params={"n_offsets": ("const", no)}, cases=[{"_name": f"n_offsets={no}"}],
                            ensures={"one-entry-per-offset-in-order": f"list(result.keys()) == {names!r}",
                                     "every-offset-is-a-velocity": " and ".join(f"is_dim_(result['{n}'], -1, 1, 0)" for n in names) or "True"}))
    out.append(Contract(PH + "get_nonlinear_equiv_units", prop, params={}, cases=[{"_name": "table"}],
                        ensures={"the-five-nonlinear-parameters-in-order": "list(result.keys()) == ['P', 'e', 'omega', 'M0', 's']",
                                 "P-time,e-number,omega-M0-angles,s-velocity": "is_dim_(result['P'], 1, 0, 0) and is_dim_(result['e'], 0, 0, 0) and "
                                 "is_dim_(result['omega'], 0, 0, 1) and is_dim_(result['M0'], 0, 0, 1) and is_dim_(result['s'], -1, 1, 0)"}))
    for c in out:
        c.lib = dict(LIB)
        c.hooks = {"inline": {PH + "validate_poly_trend", PH + "validate_n_offsets"}}
        c.home = "unitmaps"
    return out


CONTRACTS = []
CALLEES = {}
HOOKS = {"inline": {PH + "validate_poly_trend", PH + "validate_n_offsets"}}
AXIOMS = []
