"""C13 - failures propagate and never leak cache files or damage user files.
Exceptional-path contracts on the real AST with EVERY CALL A POTENTIAL RAISE POINT (S6), which covers 'the k-th
invocation fails' for all k at once: the executor forks a raising path at every statement that contains a call; events
(calls, attribute stores, deletions) are recorded on each path and the clauses below are checked on every return path
and on every raising path."""
import z3

from jvc.lib import LIB as _L, model
from jvc.symexec import Contract
from jvc.values import Arr, NameRef, Obj, Opaque, PyDict, PyList, Unsupported, fresh_bool, fresh_name

from . import filemodel
from . import rejection as R
from . import workers as W

PROPERTY = "C13"
FUNC_ARGS = ["joker_helper", "prior_samples_file", "pool", "rng", "n_prior_samples"]


def _globals(ex, path):
    return {"func_args": PyList(list(FUNC_ARGS)), "func": Opaque("func"), "JokerSamples": NameRef("thejoker.samples.JokerSamples")}


HOOKS = {"globals": _globals}


def samples_arg(kind):
    def build(name="prior_samples"):
        o = Opaque(name)
        o.type_pred = {"str": lambda short: "str" in short, "JokerSamples": lambda short: "JokerSamples" in short,
                       "other": lambda short: False}[kind]
        o.kind = kind
        return o
    return build


def args_param(kind, positional):
    def build(ex, path, name):
        ps = samples_arg(kind)()
        path.ghost["prior_samples"] = ps
        return PyList([Opaque("joker_helper"), ps, Opaque("pool")] if positional else [Opaque("joker_helper")], None, True)
    return build


def kwargs_param(kind, positional, in_memory):
    def build(ex, path, name):
        d = PyDict()
        if not positional:
            ps = samples_arg(kind)()
            path.ghost["prior_samples"] = ps
            d = d.set("prior_samples_file", ps).set("pool", Opaque("pool"))
        d = d.set("rng", Opaque("rng"))
        # an option of the wrapped helper that merely passes through the decorator (any value)
        npri = z3.Int("n_prior_samples")
        path.assume(npri >= 1)
        d = d.set("n_prior_samples", npri)
        if in_memory is not None:
            d = d.set("in_memory", in_memory)
        return d
    return build


def _events(path):
    return path.ghost.get("events", [])


def _done(path, name):
    return [e for e in _events(path) if e["name"].endswith(name) and not e.get("attempted")]


@model("tempfile_created", doc="spec: NamedTemporaryFile(...) and f.close() both completed on this path")
def _created(ex, path, args, kwargs, node, fn):
    return bool(_done(path, "NamedTemporaryFile")) and bool(_done(path, "NamedTemporaryFile_result.close"))


@model("tempfile_unlinked_once", doc="spec: os.unlink(<that file>.name) completed exactly once, after the creation")
def _unlinked(ex, path, args, kwargs, node, fn):
    ev = _events(path)
    created = [i for i, e in enumerate(ev) if e["name"].endswith("NamedTemporaryFile") and not e.get("attempted")]
    unl = [i for i, e in enumerate(ev) if e["name"] == "os.unlink"]
    if not created or len(unl) != 1 or unl[0] < created[0]:
        return False
    a = ev[unl[0]]["args"][0]
    src = getattr(a, "attr_of", None)
    return src is not None and src[1] == "name" and getattr(src[0], "from_call", None) is ev[created[0]]


@model("no_swallowed_failure", doc="spec: no injected call failure was caught without being re-raised (the path would otherwise continue normally)")
def _no_swallow(ex, path, args, kwargs, node, fn):
    return not path.ghost.get("injected_failures")


@model("user_file_untouched", doc="spec: no write / unlink / remove event has the user's own argument as receiver or argument")
def _user_untouched(ex, path, args, kwargs, node, fn):
    ps = path.ghost.get("prior_samples")
    if getattr(ps, "kind", None) != "str":
        return True
    for e in _events(path):
        if e["name"] in ("os.unlink", "os.remove") and any(a is ps for a in e["args"]):
            return False
        if e.get("recv") is ps and e["name"].split(".")[-1] in ("write", "unlink", "remove"):
            return False
    return True


@model("wrapped_called_with_own_file", doc="spec: func was called, and with prior_samples_file = the user's file name (str) or the temp file's name (object)")
def _called(ex, path, args, kwargs, node, fn):
    calls = [e for e in _events(path) if e["name"] == "func" and not e.get("attempted")]
    if len(calls) != 1:
        return False
    v = calls[0]["kwargs"].get("prior_samples_file")
    ps = path.ghost.get("prior_samples")
    if getattr(ps, "kind", None) == "str" or any(k == "in_memory" and val is True for k, val in calls[0]["kwargs"].items()):
        return v is ps
    src = getattr(v, "attr_of", None)
    return src is not None and src[1] == "name"


@model("cache_written_from_object", doc="spec: when the samples were handed over as an object (and not in_memory), exactly one write was made, on THAT object "
                                        "(not on a slice or a copy of it), into the temporary file that the wrapped function is then given")
def _written(ex, path, args, kwargs, node, fn):
    ps = path.ghost.get("prior_samples")
    calls = [e for e in _events(path) if e["name"] == "func" and not e.get("attempted")]
    if getattr(ps, "kind", None) != "JokerSamples" or not calls or any(k == "in_memory" and val is True for k, val in calls[0]["kwargs"].items()):
        return True
    writes = [e for e in _events(path) if e["name"].split(".")[-1] == "write" and not e.get("attempted")]
    if len(writes) != 1 or writes[0].get("recv") is not ps:
        return False
    a = writes[0]["args"][0] if writes[0]["args"] else None
    src = getattr(a, "attr_of", None)
    return src is not None and src[1] == "name"


LIB = {"cache_written_from_object": _written, "tempfile_created": _created, "tempfile_unlinked_once": _unlinked, "no_swallowed_failure": _no_swallow,
       "user_file_untouched": _user_untouched, "wrapped_called_with_own_file": _called}
LIB = filemodel.install_repo_models(LIB)
LIB.update(W.LIB)

wrapper = []
for kind in ("str", "JokerSamples", "other"):
    for positional in (True, False):
        for in_memory in (None, True):
            c = Contract("thejoker.utils.tempfile_decorator.wrapper", PROPERTY,
                         params={"args": args_param(kind, positional), "kwargs": kwargs_param(kind, positional, in_memory)},
                         cases=[{"_name": f"{kind},{'positional' if positional else 'keyword'},in_memory={in_memory}"}],
                         ensures={"temp-file-removed-on-normal-exit": "implies(tempfile_created(), tempfile_unlinked_once())",
                                  "a-failure-never-ends-in-a-normal-return": "no_swallowed_failure()",
                                  "user-file-never-written-or-removed": "user_file_untouched()",
                                  "wrapped-function-gets-the-right-file": "wrapped_called_with_own_file()",
                                  "cache-file-written-from-the-object-itself": "cache_written_from_object()"},
                         exc_ensures={"temp-file-removed-on-every-failing-exit": "implies(tempfile_created(), tempfile_unlinked_once())",
                                      "user-file-never-written-or-removed": "user_file_untouched()"})
            c.cfg_mode = True
            c.calls_may_raise = True
            wrapper.append(c)

CONTRACTS = wrapper + R.select(R.rejection_file + R.iterative_file, {"C13"}) + R.select(W.run_worker_contracts + W.ll_worker + W.post_worker, {"C13"})
CALLEES = {**R.INMEM_CALLEES, **R.FILE_CALLEES, **W.RW_CALLEES, **W.CHAIN_CALLEES}
CALLEES.update(R.FILE_CALLEES)
ASSUMPTIONS = ["creating the temporary file and closing it (utils.py:281-282) is one atomic step", "pools re-raise worker exceptions in the parent (schwimmbad)",
               "tables.open_file / h5py.File with the literal mode 'r' do not modify the file",
               "an exception that kills the interpreter (or a signal) is out of scope: failures are control flow"]
NOT_DECIDED = ["OS-level faults (disk full while writing the temp file is a raising call, covered; a crash of the process is not)"]


def _EXTRA0():
    from jvc import effects
    return effects.check_no_sticky_state(["thejoker.thejoker.TheJoker.marginal_ln_likelihood", "thejoker.thejoker.TheJoker.rejection_sample",
                                          "thejoker.thejoker.TheJoker.iterative_rejection_sample", "thejoker.thejoker.TheJoker._make_joker_helper",
                                          "thejoker.multiproc_helpers.rejection_sample_helper", "thejoker.multiproc_helpers.iterative_rejection_helper",
                                          "thejoker.multiproc_helpers.marginal_ln_likelihood_helper", "thejoker.multiproc_helpers.run_worker"]) + \
        [dict(r, name="C13/effects/" + r["name"]) for r in effects.check_module_state(["thejoker.utils", "thejoker.multiproc_helpers", "thejoker.likelihood_helpers"])]


def EXTRA():
    from . import chain as _CHX
    return list(_EXTRA0()) + _CHX.frame_effects(PROPERTY) + __import__('jvc.effects', fromlist=['x']).check_pool_left_open(PROPERTY)
