"""C01 - the marginal log-likelihood equals the analytic Gaussian marginal (kernel contracts + Lean bridge)."""
from . import kernel as KN

PROPERTY = "C01"
CONTRACTS = list(KN.CONTRACTS)
CALLEES = dict(KN.CALLEES)
LIB = dict(KN.LIB)
HOOKS = KN.HOOKS
LEMMAS = ["Marginal.lean"]
ASSUMPTIONS = KN.ASSUMPTIONS
