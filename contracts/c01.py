"""C01 - the marginal log-likelihood equals the analytic Gaussian marginal.

Code-level (z3): entrywise postconditions of the kernel with the property's ghost weights W = ivar/(1+s^2 ivar):
  Ainv = L^-1 + M^T W M,  A = LAPACK inverse,  b = M mu,  B = W^-1 + M L M^T,  Binv = W - W M A M^T W,
  value = -1/2 (r^T Binv r + sum log(2 pi |LU(B)_ii|)),  per-row set-up (Keplerian column, jitter-inflated weights,
  K-variance rule with cap), slot map and unit conversions of CJokerHelper.__init__, design-matrix columns.
Bridge (Lean, lemmas/Marginal.lean): the entrywise statements are the matrix ones, Binv = B^-1 (Woodbury), and the
LU diagonal gives log det(2 pi B); hence value = ln N(y | M mu, C + s^2 I + M L M^T)."""
from . import c08 as C08
from . import kernel as KN

PROPERTY = "C01"
CONTRACTS = [c for c in KN.CONTRACTS if c is not KN.bgp] + [C08.ct_matrix, C08.ct_matrix_default, C08.trend_matrix, C08.vpd_data, KN.mean_std]
CALLEES = dict(KN.CALLEES)
CALLEES.update(C08.CALLEES)
LIB = dict(C08.LIB)
LIB.update(KN.LIB)
HOOKS = KN.HOOKS
AXIOMS = KN.AXIOMS
LEMMAS = ["Marginal.lean"]
ASSUMPTIONS = KN.ASSUMPTIONS + ["numpy unique / vander / hstack / mask store (design matrix)",
                                "per-row claims are per-iteration contracts proved for an arbitrary iteration from an arbitrary scratch state; "
                                "the value written to ll[n] is never rewritten (frame clause), so they hold for every row of every batch"]
NOT_DECIDED = ["floating-point round-off and conditioning", "convergence of twobody's Kepler solver for e > 0.99",
               "that LAPACK reports success (info == 0) on every positive-definite input (the failure value INF is part of the contract)"]

# the plumbing this property's claim runs through (contracts/chain.py): listed here too, so that a change inside it is caught by THIS check
from . import chain as CH   # noqa: E402
CH.extend(CONTRACTS, CH.readers() + CH.plumbing(('ll',)) + CH.tables(pack=True, unpack=False) + CH.wrapper())

# every call prepares and uses THIS call's data, whatever earlier calls left on the sampler (contract stated in c08.py)
from . import c08 as _C08H   # noqa: E402
from .chain import clone as _clone   # noqa: E402
CONTRACTS += [_clone(_c, home="c08") for _c in _C08H.make_helper]


def EXTRA():
    from . import chain as _CHX
    return _CHX.frame_effects(PROPERTY)
