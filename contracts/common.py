"""Shared symbolic models used by several properties' contracts: the kernel helper object, the numpy
Generator with a ghost draw trace, the JokerSamples result object, and the spec functions (amax, LL,
src_rows, ...).  Library behaviour stated here is ASSUMED (numpy.random.Generator) and is listed in
each evidence file; repository behaviour is never assumed here - it comes from contracts that are
themselves verified against the real source.
"""
import ast

import z3

from jvc.lib import LIB, amax_of, model
from jvc.symexec import (EXP, Contract, arith, b_and, b_implies, index, length, q_forall, to_z3, truth, val_eq)
from jvc.values import (Arr, NameRef, Obj, Opaque, PyDict, PyList, SliceV, Unsupported, fresh_arr, fresh_fn,
                        fresh_int, fresh_name, fresh_real, is_z3, PyObj)

# LL(P, e, omega, M0, s): the marginal ln-likelihood of one packed row for the (immutable) helper at hand.
# It is *defined* by the kernel contract proved in C01; here it is an uninterpreted function of the row.
LLF = z3.Function("LL", *([z3.RealSort()] * 5 + [z3.RealSort()]))


def ll_of_rows(batch, tag="lls"):
    n = batch.shape[0]
    a = Arr([n], lambda k: LLF(*[batch.at(k, c) for c in range(5)]), "real", tag)
    a.ll_of = batch
    return a


# ---- numpy.random.Generator with a ghost trace ---------------------------------------------------------
def make_rng(name="rng"):
    return Obj("Generator", {"name": name}, ident=name)


def trace(path):
    return path.ghost.setdefault("rng_trace", [])


@model("Generator.uniform", doc="rng.uniform(size=n): n values in [0,1); one event on the ghost draw trace of that generator")
def _uniform(ex, path, args, kwargs, node, fn):
    rng = args[0]
    n = kwargs.get("size", args[1] if len(args) > 1 else None)
    if n is None:
        raise Unsupported("uniform without size")
    a = fresh_arr("uu", 1, "real", [n])
    k = z3.Int(fresh_name("k"))
    path.assume(q_forall([k], b_and(0 <= k, k < to_z3(n)), b_and(a.at(k) >= 0, a.at(k) < 1), pats=[a.at(k)]))
    trace(path).append({"gen": rng.ident, "kind": "uniform", "size": n, "value": a, "line": node.lineno})
    return a


@model("Generator.choice", doc="rng.choice(N, size=k, replace=False): k pairwise distinct values in [0,N); one trace event")
def _choice(ex, path, args, kwargs, node, fn):
    rng, N = args[0], args[1]
    size = kwargs.get("size", args[2] if len(args) > 2 else None)
    rep = kwargs.get("replace", True)
    if rep is not False:
        raise Unsupported("choice with replacement")
    a = fresh_arr("choice", 1, "int", [size])
    k, k2 = z3.Int(fresh_name("k")), z3.Int(fresh_name("k"))
    path.assume(q_forall([k], b_and(0 <= k, k < to_z3(size)), b_and(a.at(k) >= 0, a.at(k) < to_z3(N)), pats=[a.at(k)]),
                q_forall([k, k2], b_and(0 <= k, k < k2, k2 < to_z3(size)), a.at(k) != a.at(k2),
                         pats=[z3.MultiPattern(a.at(k), a.at(k2))]))
    a.injective = True
    trace(path).append({"gen": rng.ident, "kind": "choice", "size": size, "N": N, "value": a, "line": node.lineno})
    return a


# ---- JokerSamples as seen by the rejection functions -------------------------------------------------------
def samples_obj(rows, n_lin, helper, extra=None):
    """result of make_full_samples*: `rows` = the packed nonlinear rows the linear draws were made for (ghost
    provenance; row r of the table is rows[r // n_lin]); cols = columns set afterwards via samples[name] = ..."""
    o = Obj("JokerSamples", {"rows": rows, "n_lin": n_lin, "cols": PyDict(), "helper": helper, "cls_name": "JokerSamples",
                             **(extra or {})})
    o.fields["__setitem__"] = _samples_setitem
    o.fields["__getitem__"] = _samples_getitem
    return o


def _samples_setitem(ex, path, base, key, value, node):
    if not isinstance(key, str):
        raise Unsupported("samples[<non-string>] = ...")
    o = base.with_field("cols", base.fields["cols"].set(key, value))
    return o


def _samples_getitem(ex, path, recv, key, node):
    raise Unsupported("samples[...] read")


def helper_obj():
    data = Obj("RVData", {"t_ref": Opaque("t_ref")})
    prior = Obj("JokerPrior", {"poly_trend": z3.Int("poly_trend"), "n_offsets": z3.Int("n_offsets")})
    return Obj("CJokerHelper", {"data": data, "prior": prior, "internal_units": Opaque("internal_units"),
                                "packed_order": Opaque("packed_order")}, ident="joker_helper")


def batch_param(ex, path, name):
    a = fresh_arr(name, 2, "real")
    path.assume(a.shape[0] >= 0, a.shape[1] == 5)
    a.shape[1] = 5
    return a


# ---- spec functions ------------------------------------------------------------------------------------------
@model("amax", doc="spec: maximum of a non-empty real array (upper bound, attained)")
def _spec_amax(ex, path, args, kwargs, node, fn):
    a = args[0]
    cache = path.ghost.setdefault("amax_cache", {})
    if id(a) in cache:
        return cache[id(a)][1]
    m = amax_of(ex, path, a, "spec_amax")
    cache[id(a)] = (a, m)
    return m


@model("exp_")
def _spec_exp(ex, path, args, kwargs, node, fn):
    return EXP(to_z3(args[0], "real"))


@model("src_idx", doc="spec: ghost provenance - the index array g with rows == base[g] (recorded gathers, composed)")
def _src_idx(ex, path, args, kwargs, node, fn):
    from jvc.symexec import gather_path
    rows, base = args
    g = gather_path(rows, base)
    if g is None:
        raise Unsupported("provenance of the returned rows is not a gather from the given library")
    return g


@model("rng_event", doc="spec: k-th event of the ghost draw trace")
def _rng_event(ex, path, args, kwargs, node, fn):
    t = trace(path)
    k = args[0]
    if k >= len(t) or k < -len(t):
        return Obj("event", {"kind": "<none>", "gen": "<none>", "size": -1, "value": None})
    e = t[k]
    return Obj("event", dict(e))


@model("n_rng_events")
def _n_rng_events(ex, path, args, kwargs, node, fn):
    return len(trace(path))


@model("LL", doc="spec: marginal ln-likelihood of a packed row (defined by the kernel contract, C01)")
def _spec_ll(ex, path, args, kwargs, node, fn):
    batch, i = args
    return LLF(*[batch.at(i, c) for c in range(5)])


@model("lls_of", doc="spec: the array i -> LL(row i) of a packed batch")
def _lls_of(ex, path, args, kwargs, node, fn):
    cache = path.ghost.setdefault("lls_cache", {})
    b = args[0]
    if id(b) not in cache:
        cache[id(b)] = (b, ll_of_rows(b))
    return cache[id(b)][1]


@model("view3", doc="spec: the (n, j, c) row-major view of a reshaped (n*j, c) array (numpy reshape contract)")
def _view3(ex, path, args, kwargs, node, fn):
    a = args[0]
    v = getattr(a, "view3", None)
    if v is None:
        raise Unsupported("array has no 3-d view ghost")
    return v


def reshaped_from_3d(a3, name="flat"):
    """np.array(x3).reshape(n*j, -1): fresh 2-d array carrying its 3-d row-major view as ghost.
    flat[n*J + j, c] == x3[n, j, c] is the library contract; it is *not* asserted as a quantified fact
    (nonlinear index); contracts speak about view3(flat) instead."""
    n, J, C = a3.shape
    flat = fresh_arr(name, 2, a3.dtype, [to_z3(n) * to_z3(J), C])
    flat.view3 = a3
    return flat


@model("ev_lls", doc="spec: k -> LL(row evaluated k-th); rows are order[k] (or k when order is None), NE of them")
def _ev_lls(ex, path, args, kwargs, node, fn):
    packed, order, ne = args
    key = ("ev_lls", id(packed), id(order))
    cache = path.ghost.setdefault("lls_cache", {})
    if key not in cache:
        base = ll_of_rows(packed)
        if order is None:
            a = Arr([ne], lambda k: base.at(k), "real", "ev_lls")
        else:
            a = Arr([ne], lambda k: base.at(order.at(k)), "real", "ev_lls")
        cache[key] = (packed, a)
    return cache[key][1]


@model("is_array", doc="spec: the value is a plain numeric array (not structured records)")
def _is_array(ex, path, args, kwargs, node, fn):
    return isinstance(args[0], Arr)


@model("all_opens_read_only", doc="spec: every file open recorded on this path used the literal mode 'r'")
def _all_ro(ex, path, args, kwargs, node, fn):
    return all(o["mode"] == "r" for o in path.ghost.get("file_opens", []))


@model("src_rowidx", doc="spec: the index array by which `rows` was gathered from its immediate source")
def _src_rowidx(ex, path, args, kwargs, node, fn):
    g = getattr(args[0], "gather", None)
    if g is None:
        raise Unsupported("rows carry no provenance")
    return g[1]


@model("wit", doc="spec: ghost witness - the position r with idx[r] == k, for an index array produced by np.where "
                  "(possibly sliced): the inverse `pos` that the where() library contract provides")
def _wit(ex, path, args, kwargs, node, fn):
    idx, k = args
    off = 0
    a = idx
    while getattr(a, "pos", None) is None:
        so = getattr(a, "slice_of", None)
        if so is None:
            raise Unsupported("index array is not a (slice of a) where() result")
        a, lo = so
        off = off + lo
    return a.pos(to_z3(k)) - to_z3(off)


def _is_where_like(a):
    while a is not None:
        if getattr(a, "pos", None) is not None:
            return True
        so = getattr(a, "slice_of", None)
        a = so[0] if so else None
    return False


@model("where_part", doc="spec: ghost provenance - the (sliced) np.where() index array through which `rows` was selected")
def _where_part(ex, path, args, kwargs, node, fn):
    a = args[0]
    seen = 0
    while seen < 8:
        seen += 1
        g = getattr(a, "gather", None)
        if g is None:
            break
        idx = g[1]
        if _is_where_like(idx):
            return idx
        a = idx
    raise Unsupported("the returned rows were not selected through a where() index array")
