"""C04 - a sample row denotes one RV curve everywhere (the Bayes identity holds).

(i)  get_orbit hands twobody exactly the element tuple the kernel uses: P, e, omega, M0 of the row, t0 = samples.t_ref
     (which is the data's reference epoch: make_full_samples* clauses), and a, i such that twobody's
     K = 2 pi a sin i / (P sqrt(1 - e^2)) recovers the row's K; the trend is the polynomial (v0, v1, ...) at t_ref.
(ii) ln_unmarginalized_likelihood evaluates sum_k ln N(y_k | model(t_k), sigma_k^2 + s^2) with s in the data unit.
(iii) Lean (lemmas/Bayes.lean): with C01's and C03's matrix statements,
      ln N(y | M mu, B) = ln N(y | M x, C_s) + ln N(x | mu, Lambda) - ln N(x | a, A)   (det_identity + quad_identity)."""
import ast

import z3

from jvc.lib import LIB as _L, model
from jvc.symexec import Contract, LOG, PI, SIN, SQRT, arith, b_and, make_sum, q_forall, to_z3
from jvc.values import Arr, NameRef, Obj, Opaque, PyDict, PyList, SymSeq, Unsupported, fresh_arr, fresh_int, fresh_name, fresh_real

from . import astromodel as A
from . import c17 as C17
from . import common  # noqa: F401
from . import tablemodel as T
from .kernel import RVU

PROPERTY = "C04"
S = "thejoker.samples.JokerSamples."
SPEED = (-1, 1, 0)
TIME = (1, 0, 0)
ANGLE = (0, 0, 1)


def AXIOMS(c):
    x = z3.Real("x!ax")
    return [z3.ForAll([x], z3.Implies(x > 0, z3.And(SQRT(x) > 0, SQRT(x) * SQRT(x) == x)), patterns=[SQRT(x)]), PI > 3, PI < 4,
            SIN(PI / 2) == 1]


history_cache = C17.history_cache


def samples_self(poly_trend, n_offsets, n=None):
    def build(ex, path, name):
        cols = [("P", A.sym_unit("P_unit", TIME)), ("e", A.U_ONE), ("omega", A.sym_unit("omega_unit", ANGLE)), ("M0", A.sym_unit("M0_unit", ANGLE)),
                ("s", A.sym_unit("s_unit", SPEED)), ("K", A.sym_unit("K_unit", SPEED))]
        for j in range(poly_trend):
            cols.append((f"v{j}", A.sym_unit(f"v{j}_unit", (-1 - j, 1, 0))))
        for k in range(1, n_offsets + 1):
            cols.append((f"dv0_{k}", A.sym_unit(f"dv0_{k}_unit", SPEED)))
        for _, u_ in cols:
            path.assume(*getattr(u_, "sym_facts", []))
        nn = z3.Int("n_samples") if n is None else n
        if n is None:
            path.assume(nn >= 1)
        meta = PyDict([("t_ref", A.time_obj(z3.Real("t_ref_bmjd"))), ("poly_trend", poly_trend), ("n_offsets", n_offsets)])
        tbl = T.samples_table(cols, nn, meta)
        k = z3.Int(fresh_name("k"))
        Pv, ev = tbl.fields["cols"].vals["P"].fields["value"], tbl.fields["cols"].vals["e"].fields["value"]
        path.assume(q_forall([k], b_and(0 <= k, k < nn), b_and(Pv.at(k) > 0, ev.at(k) >= 0, ev.at(k) < 1), pats=[Pv.at(k)]))
        return Obj("JokerSamples", {"tbl": tbl, "_cache": history_cache(), "__len__": nn, "__qualclass__": "thejoker.samples.JokerSamples"}, ident="self")
    return build


def _prop(name, fn_):
    c = Contract(S + name, PROPERTY, ensures={}, result=fn_)
    c.is_property = True
    return c


poly_trend_prop = _prop("poly_trend", lambda ex, path, bound, node: bound["self"].fields["tbl"].fields["meta"].vals["poly_trend"])
n_offsets_prop = _prop("n_offsets", lambda ex, path, bound, node: bound["self"].fields["tbl"].fields["meta"].vals["n_offsets"])


# ---- twobody objects (assumed library contract) ----------------------------------------------------------------------------------------------
@model("twobody.KeplerOrbit", "thejoker.samples.KeplerOrbit", "KeplerOrbit", doc="twobody.KeplerOrbit(...): an orbit object holding Keplerian elements")
def _kepler(ex, path, args, kwargs, node, fn):
    return Obj("KeplerOrbit", {"elements": Obj("KeplerElements", dict(kwargs))})


@model("twobody.PolynomialRVTrend", "thejoker.samples.PolynomialRVTrend", "PolynomialRVTrend",
       doc="twobody.PolynomialRVTrend(coeffs, t0): v(t) = sum_i coeffs[i] (t - t0)[day]^i")
def _trend(ex, path, args, kwargs, node, fn):
    return Obj("PolynomialRVTrend", {"coeffs": args[0], "t0": kwargs.get("t0")})


@model("copy.copy", doc="shallow copy")
def _copy(ex, path, args, kwargs, node, fn):
    o = args[0]
    if isinstance(o, Obj):
        return Obj(o.cls, {k: (Obj(v.cls, dict(v.fields)) if isinstance(v, Obj) and v.cls == "KeplerElements" else v) for k, v in o.fields.items()})
    return o


@model("<PyDict>.pop", doc="dict.pop(key, default) as an expression (the dict is empty in the verified calls)")
def _dpop(ex, path, args, kwargs, node, fn):
    d, k = args[0], args[1]
    if k in d.vals:
        raise Unsupported("kwargs.pop of a present key")
    return args[2] if len(args) > 2 else None


_prev_sqrt = _L["numpy.sqrt"]


@model("numpy.sqrt")
def _sqrt_q(ex, path, args, kwargs, node, fn):
    v = args[0]
    if A.is_q(v):
        if v.fields["unit"].fields["dim"] != (0, 0, 0):
            raise Unsupported("sqrt of a dimensional quantity")
        return A.quantity(_prev_sqrt(ex, path, [A.qval(v, A.U_ONE)], kwargs, node, fn), A.U_ONE)
    return _prev_sqrt(ex, path, args, kwargs, node, fn)


LIB = dict(C17.LIB)
LIB.update({"twobody.KeplerOrbit": _kepler, "thejoker.samples.KeplerOrbit": _kepler, "KeplerOrbit": _kepler, "twobody.PolynomialRVTrend": _trend,
            "thejoker.samples.PolynomialRVTrend": _trend, "PolynomialRVTrend": _trend, "copy.copy": _copy, "<PyDict>.pop": _dpop, "numpy.sqrt": _sqrt_q})
_L["astropy.units.dimensionless_unscaled"] = A.U_ONE
_L["astropy.units.au"] = A.U_AU
_L["astropy.units.yr"] = A.U_YEAR


@model("si", doc="spec: physical value of a quantity (value x unit scale)")
def _si(ex, path, args, kwargs, node, fn):
    q = args[0]
    if isinstance(q, Opaque) and "stale-cache-entry" in q.tag:
        # a value left in self._cache by an earlier call is arbitrary: so is its physical value
        return z3.Real("physical_value_of_" + q.tag.split("stale-cache-entry:")[1].split("[")[0].split(".")[0] + "_left_in_cache_by_an_earlier_call")
    return to_z3(q.fields["value"], "real") * to_z3(q.fields["unit"].fields["scale"], "real")


@model("sin_")
def _sin(ex, path, args, kwargs, node, fn):
    return SIN(to_z3(args[0], "real"))


@model("sqrt_")
def _sqrts(ex, path, args, kwargs, node, fn):
    return SQRT(to_z3(args[0], "real"))


LIB.update({"si": _si, "sin_": _sin, "sqrt_": _sqrts})

GO_DEFS = {
    "E": ([], "result.elements"),
    "row": (["c"], "self.tbl[c][index]"),
    # twobody's velocity semi-amplitude of the returned orbit:  K = 2 pi a sin i / (P sqrt(1 - e^2))
    "K_twobody": ([], "2 * pi_() * si(E()._a) * sin_(si(E()._i)) / (si(E()._P) * sqrt_(1 - E()._e.value * E()._e.value))"),
}


def get_orbit_contracts():
    out = []
    for pt_, no in ((1, 0), (2, 0), (3, 0), (1, 1)):
        ens = {
            "period-eccentricity-angles-of-this-row": "E()._P is_same row('P') and E()._e.value == row('e').value and E()._omega is_same row('omega') and E()._M0 is_same row('M0')",
            "reference-epoch-is-the-samples-t_ref": "E().t0 is self.tbl.meta['t_ref'] and result._vtrend.t0 is self.tbl.meta['t_ref']",
            "twobody-semi-amplitude-equals-the-row-K": "K_twobody() == si(row('K'))",
            "edge-on-inclination": "si(E()._i) == pi_() / 2",
            "trend-is-v0-v1-at-t_ref": f"len(result._vtrend.coeffs) == {pt_} and " + " and ".join(f"result._vtrend.coeffs[{j}] is_same row('v{j}')" for j in range(pt_)),
        }
        if no:
            ens["survey-offsets-representable-in-the-orbit"] = "False"
        # `is_same` is written as a comparison of physical values below (the spec language has no custom infix operators)
        ens = {k_: v_.replace(" is_same ", " |same| ") for k_, v_ in ens.items()}
        fixed = {}
        for k_, v_ in ens.items():
            parts = v_.split(" and ")
            newp = []
            for p_ in parts:
                if " |same| " in p_:
                    l_, r_ = p_.split(" |same| ")
                    newp.append(f"si({l_}) == si({r_})")
                else:
                    newp.append(p_)
            fixed[k_] = " and ".join(newp)
        out.append(Contract(S + "get_orbit", PROPERTY, params={"self": samples_self(pt_, no), "index": "int", "kwargs": lambda ex, path, n: PyDict()},
                            cases=[{"_name": f"poly_trend={pt_},n_offsets={no}"}], requires=["0 <= index and index < len(self)"],
                            ensures=fixed, defs=GO_DEFS))
    return out


get_orbit = get_orbit_contracts()
CONTRACTS = list(get_orbit)
CALLEES = {S + "t_ref": C17.t_ref_prop, "JokerSamples.t_ref": C17.t_ref_prop, S + "__getitem__": C17.getitem_callee, "JokerSamples.__getitem__": C17.getitem_callee,
           S + "poly_trend": poly_trend_prop, "JokerSamples.poly_trend": poly_trend_prop, S + "n_offsets": n_offsets_prop, "JokerSamples.n_offsets": n_offsets_prop}
HOOKS = {"inline": {"thejoker.prior_helpers.get_linear_equiv_units", "thejoker.prior_helpers.validate_poly_trend"}}
LEMMAS = ["Bayes.lean"]
ASSUMPTIONS = ["twobody: KeplerOrbit.radial_velocity(t) = K RVU(t; P[day], e, omega, M0, t0) + trend(t) with K = 2 pi a sin i / (P sqrt(1 - e^2)); "
               "PolynomialRVTrend(c, t0)(t) = sum c_i (t - t0)[day]^i; RVU is the same function as the kernel's c_rv_from_elements column",
               "sin(pi/2) = 1, sqrt(x)^2 = x for x > 0 (lemmas/Axioms.lean)"]
NOT_DECIDED = []


# ---- ln_unmarginalized_likelihood ---------------------------------------------------------------------------------------------------------------
U_KMS = A.unit(SPEED, 1000, "km/s")


def data_param(ex, path, name):
    nt = z3.Int("n_times")
    path.assume(nt >= 1)
    ru = A.sym_unit("rv_unit", SPEED)
    eu = A.sym_unit("err_unit", SPEED)
    path.assume(*ru.sym_facts, *eu.sym_facts)
    t = fresh_arr("t_bmjd", 1, "real", [nt])
    err = fresh_arr("rv_err", 1, "real", [nt])
    k = z3.Int(fresh_name("k"))
    path.assume(q_forall([k], b_and(0 <= k, k < nt), err.at(k) > 0, pats=[err.at(k)]))
    return Obj("RVData", {"rv": A.quantity(fresh_arr("rv", 1, "real", [nt]), ru), "rv_err": A.quantity(err, eu), "t": A.time_obj(t), "_t_bmjd": t, "__len__": nt},
               ident="data")


def _res_orbits(ex, path, bound, node):
    self = bound["self"]
    tbl = self.fields["tbl"]
    n = self.fields["__len__"]

    def elem(i):
        return Obj("KeplerOrbit", {"row": i, "samples": self})
    return SymSeq(n, elem)


orbits_prop = _prop("orbits", _res_orbits)


def model_rv_si(samples, i, tk):
    """the RV curve a row denotes (per get_orbit's contract + twobody's): K RVU(t; P[day], e, omega[rad], M0[rad], t_ref) + sum_j v_j (t - t_ref)^j, in m/s"""
    cols = samples.fields["tbl"].fields["cols"].vals
    meta = samples.fields["tbl"].fields["meta"].vals

    def si(c):
        q = cols[c]
        return q.fields["value"].at(i) * to_z3(q.fields["unit"].fields["scale"], "real")
    tref = meta["t_ref"].fields["mjd"]
    rv = si("K") * RVU(tk, si("P") / 86400, cols["e"].fields["value"].at(i), si("omega"), si("M0"), to_z3(tref, "real"))
    dt = tk - to_z3(tref, "real")
    p_ = z3.RealVal(1)
    for j in range(meta["poly_trend"]):
        rv = rv + si(f"v{j}") * z3.RealVal(86400 ** j) * p_        # v_j in (m/s)/s^j  x  (dt[day] * 86400)^j
        p_ = p_ * dt
    return rv


@model("KeplerOrbit.radial_velocity", doc="twobody: the row's RV curve at the given times (see model_rv_si), as a Quantity in km/s")
def _radial_velocity(ex, path, args, kwargs, node, fn):
    orb, t = args[0], args[1]
    tv = t.fields["mjd"]
    samples, i = orb.fields["samples"], orb.fields["row"]
    return A.quantity(Arr([tv.shape[0]], lambda k: model_rv_si(samples, i, tv.at(k)) / 1000, "real", "model_rv"), U_KMS)


@model("model_rv_", doc="spec: the RV curve of row i at time t_k in the data unit")
def _model_rv_spec(ex, path, args, kwargs, node, fn):
    samples, i, data, k = args
    # the curve in m/s, expressed in km/s (twobody's output unit), converted to the data unit
    q = A.quantity(model_rv_si(samples, to_z3(i), data.fields["_t_bmjd"].at(to_z3(k))) / 1000, U_KMS)
    return A.qval(q, data.fields["rv"].fields["unit"])


LIB.update({"KeplerOrbit.radial_velocity": _radial_velocity, "model_rv_": _model_rv_spec})

VAR = "(data.rv_err.value[k] * (data.rv_err.unit.scale / data.rv.unit.scale)) * (data.rv_err.value[k] * (data.rv_err.unit.scale / data.rv.unit.scale)) + " \
      "(self.tbl['s'].value[i] * (self.tbl['s'].unit.scale / data.rv.unit.scale)) * (self.tbl['s'].value[i] * (self.tbl['s'].unit.scale / data.rv.unit.scale))"
LNL = f"sum(-0.5 * (log_(2 * pi_() * ({VAR})) + (model_rv_(self, i, data, k) - data.rv.value[k]) * (model_rv_(self, i, data, k) - data.rv.value[k]) / ({VAR})) for k in range(len(data)))"


@model("log_")
def _log_spec(ex, path, args, kwargs, node, fn):
    return LOG(to_z3(args[0], "real"))


LIB["log_"] = _log_spec
LNL_IT = LNL.replace("[i]", "[_it]").replace("(self, i, data", "(self, _it, data")
lnlike = [Contract(
    S + "ln_unmarginalized_likelihood", PROPERTY, params={"self": samples_self(pt_, 0), "data": data_param}, cases=[{"_name": f"poly_trend={pt_}"}],
    invariants={1: {"length": "len(lls) == len(self)"}},
    # per-iteration contract (arbitrary row): the value stored for this row is the Gaussian log-likelihood of the row's own curve
    body_ensures={1: {"gaussian-log-likelihood-of-the-rows-own-curve-with-jitter-added-in-quadrature": f"lls[_it] == {LNL_IT}",
                      "earlier-rows-kept": "all(lls[q] == head(lls)[q] for q in range(len(self)) if q != _it)"}},
    ensures={"one-value-per-row": "len(result) == len(self)"})
    for pt_ in (1, 2)]
for _c in lnlike:
    _c.sum_congruence = True
CONTRACTS += lnlike
CALLEES.update({S + "orbits": orbits_prop, "JokerSamples.orbits": orbits_prop})
HOOKS["inline"] = set(HOOKS["inline"]) | {"thejoker.likelihood_helpers.ln_normal"}

# ---- the data's reference epoch: the number the kernel uses (data._t_ref_bmjd, t0 of the Keplerian column and of the trend) is the TCB MJD of the
# Time object that the samples inherit (data.t_ref -> samples.t_ref -> get_orbit's t0), for a reference epoch given in ANY time scale
from . import c15 as _C15   # noqa: E402

_src = [c for c in _C15.init_contracts if c.cases[0]["_name"] == "t=Time,err=1d,clean=true,t_ref=Time"][0]
ref_epoch = Contract(_C15.D + "__init__", PROPERTY, params=_src.params, cases=[dict(_src.cases[0], _name="t_ref given, any time scale")], defs=_src.defs,
                     ensures={"kernel-epoch-number-and-samples-t_ref-are-the-same-instant": "self._t_ref_bmjd == self.t_ref.tcb.mjd and self.t_ref is t_ref"})
ref_epoch.callees = dict(_C15.CALLEES)
ref_epoch.lib = dict(_C15.LIB)
CONTRACTS += [ref_epoch]


# the marginal likelihood of the identity is also evaluated through the cached path: the readers and the likelihood plumbing are listed here too
from . import chain as CH   # noqa: E402
CH.extend(CONTRACTS, CH.readers() + CH.plumbing(("ll",)) + CH.tables(pack=True, unpack=True))


def EXTRA():
    # orbit reconstruction and the unmarginalised likelihood only READ the samples and the data
    from jvc import effects
    return effects.check_no_inplace_on_borrowed([S + "get_orbit", S + "ln_unmarginalized_likelihood"], PROPERTY)
