"""Abstract model of a prior-samples cache file and of the JokerSamples library object, with the assumed
library contracts of pytables / h5py used by the sampling helpers (DESIGN Appendix A).

A cache file `F` is Obj("h5file") with ghost fields
    nrows   : Int         number of rows of the 'samples' table
    packed  : Arr[nrows,5] the five nonlinear columns in the kernel's internal units (what read_batch returns)
    lnp     : Arr[nrows]   the ln_prior column (meaningful when has_lnp)
    has_lnp : Bool
A JokerSamples library object has the same ghost fields; writing it to a temp file and reading it back is the
identity on them (assumed: astropy/h5py serialisation; the decision that the *same* object is written is C05/C13's).
"""
import z3

from jvc.lib import model
from jvc.symexec import b_and, q_forall, to_z3, length
from jvc.values import (Arr, NameRef, Obj, Opaque, PyDict, PyList, SliceV, Unsupported, fresh_arr, fresh_bool,
                        fresh_int, fresh_name, is_z3)


def file_obj(name="prior_samples_file", kind="h5file"):
    n = z3.Int(f"{name}.nrows")
    packed = fresh_arr(f"{name}.packed", 2, "real", [n, 5])
    lnp = fresh_arr(f"{name}.ln_prior", 1, "real", [n])
    o = Obj(kind, {"nrows": n, "packed": packed, "lnp": lnp, "has_lnp": z3.Bool(f"{name}.has_ln_prior"),
                   "name": name, "__len__": n}, ident=name)
    return o


def file_param(ex, path, name):
    o = file_obj(name)
    path.assume(o.fields["nrows"] >= 0)
    o.type_pred = lambda short: "str" in short
    return o


def samples_lib_param(ex, path, name):
    """a JokerSamples object holding prior samples"""
    o = file_obj(name, "JokerSamples")
    path.assume(o.fields["nrows"] >= 0)
    o.fields["cls_name"] = "JokerSamples"
    o.fields["__getitem__"] = _lib_getitem
    return o


def _lib_getitem(ex, path, recv, key, node):
    if key == "ln_prior":
        return recv.fields["lnp"]
    raise Unsupported(f"library[{key!r}]")


# ---- pytables / h5py (read-only opens) -----------------------------------------------------------------------------
@model("tables.open_file", doc="tb.open_file(path, mode='r'): read-only handle; never modifies the file")
def _tb_open(ex, path, args, kwargs, node, fn):
    f = args[0]
    mode = kwargs.get("mode", args[1] if len(args) > 1 else "r")
    path.ghost.setdefault("file_opens", []).append({"file": getattr(f, "ident", repr(f)), "mode": mode, "api": "tables", "line": node.lineno})
    if not isinstance(f, Obj):
        raise Unsupported("open_file on a non-file value")
    root = Obj("tb.root", {"file": f})
    root.fields["__getitem__"] = lambda ex_, p_, recv_, key, n_: Obj("tb.node", {"file": f, "shape": PyList([f.fields["nrows"]], None, True)})
    return Obj("tb.file", {"root": root, "file": f})


@model("h5py.File", doc="h5py.File(path, mode='r'): read-only handle")
def _h5_open(ex, path, args, kwargs, node, fn):
    f = args[0]
    mode = kwargs.get("mode", args[1] if len(args) > 1 else "r")
    path.ghost.setdefault("file_opens", []).append({"file": getattr(f, "ident", repr(f)), "mode": mode, "api": "h5py", "line": node.lineno})
    return Obj("h5.file", {"file": f})


@model("tb.node.read_coordinates", doc="Table.read_coordinates(coords, field=name): that column at the given rows, in the "
                                       "order of coords; with field=None: whole *records* (a structured array)")
def _read_coords(ex, path, args, kwargs, node, fn):
    nd, coords = args[0], args[1]
    field = kwargs.get("field", args[2] if len(args) > 2 else None)
    f = nd.fields["file"]
    if field is None:
        return Obj("records", {"file": f, "coords": coords, "cls_name": "structured-records"})
    if field == "ln_prior":
        col = f.fields["lnp"]
    else:
        raise Unsupported(f"read_coordinates(field={field!r})")
    r = Arr([coords.shape[0]], lambda k: col.at(coords.at(k)), "real")
    r.gather = (col, coords)
    r.facts = list(getattr(coords, "facts", []))
    return r


# the file models of THIS module, by name: a property module that relies on them lists them explicitly (install_repo_models), so that the
# same names registered by another module (contracts/c12.py has its own, richer file model for the readers) cannot shadow them
FILE_LIB = {"tables.open_file": _tb_open, "h5py.File": _h5_open, "tb.node.read_coordinates": _read_coords}


def install_repo_models(lib):
    for _k, _v in FILE_LIB.items():
        lib.setdefault(_k, _v)
    @model("thejoker.utils.table_contains_column", doc="(repo helper, read-only) True iff the table has that column")
    def _tcc(ex, path, args, kwargs, node, fn):
        f = args[0]
        col = args[1]
        if isinstance(f, Obj) and "file" in f.fields and col == "ln_prior":
            return f.fields["file"].fields["has_lnp"]
        raise Unsupported("table_contains_column")
    lib["thejoker.utils.table_contains_column"] = _tcc
    return lib
