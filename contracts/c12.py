"""C12 - sample files round-trip exactly and batch reads return the rows asked for.
read_batch dispatch and the three readers (rows/columns/conversion factors), the append-compatibility test of the
writer (schema equality), refusal-before-mutation of write_table_hdf5 (CFG/effect analysis: on every path that ends
in a raise, no mutating call was made before it, except the documented overwrite removal)."""
import ast
import itertools

import z3

from jvc.lib import LIB as _L, model
from jvc.symexec import Contract, arr_index, b_and, q_forall, str_const, to_z3
from jvc.values import Arr, NameRef, Obj, Opaque, PyDict, PyList, SliceV, SymSeq, Unsupported, fresh_arr, fresh_bool, fresh_int, fresh_name, PyObj

from . import astromodel as A
from . import common  # noqa: F401
from .common import make_rng

PROPERTY = "C12"
U = "thejoker.utils."
SH = "thejoker.samples_helpers."
COLS = ["P", "e", "omega", "M0", "s", "K"]
DIMS = {"P": (1, 0, 0), "e": (0, 0, 0), "omega": (0, 0, 1), "M0": (0, 0, 1), "s": (-1, 1, 0), "K": (-1, 1, 0)}


def cache_file(ex, path, name):
    """a samples file: per-column stored values and stored units (ghost)"""
    n = z3.Int("file.nrows")
    path.assume(n >= 0)
    cols, units = PyDict(), PyDict()
    for c in COLS:
        cols = cols.set(c, fresh_arr(f"file.{c}", 1, "real", [n]))
        u_ = A.sym_unit(f"file_unit_{c}", DIMS[c])
        path.assume(*u_.sym_facts)
        units = units.set(c, u_)
    o = Obj("h5file", {"nrows": n, "cols": cols, "units": units, "name": name}, ident=name)
    o.type_pred = lambda short: "str" in short
    path.ghost["file"] = o
    return o


def units_param(which):
    def build(ex, path, name):
        d = PyDict()
        for c in which:
            u_ = A.sym_unit(f"want_unit_{c}", DIMS[c])
            path.assume(*u_.sym_facts)
            d = d.set(c, u_)
        return d
    return build


# ---- pytables / h5py as used by the readers ------------------------------------------------------------------------------------------
@model("tables.open_file")
def _tb_open(ex, path, args, kwargs, node, fn):
    f = args[0]
    mode = kwargs.get("mode", args[1] if len(args) > 1 else "r")
    path.ghost.setdefault("file_opens", []).append({"file": f.ident, "mode": mode, "api": "tables", "line": node.lineno})
    nd = Obj("tb.node", {"file": f, "shape": PyList([f.fields["nrows"]], None, True)})
    root = Obj("tb.root", {"file": f})
    root.fields["__getitem__"] = lambda ex_, p_, recv_, key, n_: nd
    return Obj("tb.file", {"root": root, "file": f})


@model("h5py.File")
def _h5(ex, path, args, kwargs, node, fn):
    f = args[0]
    if not isinstance(f, Obj):
        return ex.opaque_call("h5py.File", args, kwargs, path, node)
    mode = kwargs.get("mode", args[1] if len(args) > 1 else "r")
    path.ghost.setdefault("file_opens", []).append({"file": f.ident, "mode": mode, "api": "h5py", "line": node.lineno})
    o = Obj("h5.file", {"file": f})
    o.fields["__getitem__"] = lambda ex_, p_, recv_, key, n_: Obj("h5.meta", {"file": f})
    return o


@model("tb.node.read", doc="Table.read(start, stop, step, field=name): that column at rows start, start+step, ... < stop (step None = 1)")
def _tb_read(ex, path, args, kwargs, node, fn):
    nd, start, stop, step = args[0], args[1], args[2], args[3]
    name = kwargs.get("field")
    col = nd.fields["file"].fields["cols"].vals[name]
    if step is not None and not (isinstance(step, int) and step == 1):
        raise Unsupported("Table.read with a step")
    r = arr_index(col, (SliceV(start, stop, None),))
    return r


@model("tb.node.read_coordinates", doc="Table.read_coordinates(coords, field=name): that column at the given rows, in the order of coords")
def _tb_read_coords(ex, path, args, kwargs, node, fn):
    nd, coords = args[0], args[1]
    name = kwargs.get("field")
    col = nd.fields["file"].fields["cols"].vals[name]
    return arr_index(col, (coords,))


@model("thejoker.utils.table_header_to_units", doc="(repo helper, parses the YAML header) column name -> stored unit")
def _hdr_units(ex, path, args, kwargs, node, fn):
    return args[0].fields["file"].fields["units"]


@model("astropy.io.misc.hdf5.meta_path", "thejoker.utils.meta_path")
def _meta_path(ex, path, args, kwargs, node, fn):
    return "meta_path"


LIB = {"tables.open_file": _tb_open, "h5py.File": _h5, "tb.node.read": _tb_read, "tb.node.read_coordinates": _tb_read_coords,
       "thejoker.utils.table_header_to_units": _hdr_units, "astropy.io.misc.hdf5.meta_path": _meta_path, "thejoker.utils.meta_path": _meta_path,
       "meta_path": _meta_path}


@model("stored", doc="spec: stored value of column `name` at row r")
def _stored(ex, path, args, kwargs, node, fn):
    return path.ghost["file"].fields["cols"].vals[args[0]].at(to_z3(args[1]))


@model("conv", doc="spec: exact factor from the stored unit of the column to the requested unit (1 when no unit is requested for it)")
def _conv(ex, path, args, kwargs, node, fn):
    name, units = args
    f = path.ghost["file"]
    if units is None or name not in units.vals:
        return 1
    return A.factor(f.fields["units"].vals[name], units.vals[name])


LIB.update({"stored": _stored, "conv": _conv})

READ_COLS = ["P", "e", "omega", "M0", "s"]


def _cell_clause(row_expr):
    return " and ".join(f"all(result[k, {c}] == stored('{nm}', {row_expr}) * conv('{nm}', units) for k in range(result.shape[0]))"
                        for c, nm in enumerate(READ_COLS))


def slice_param(ex, path, name):
    a, b = z3.Int("slice.start"), z3.Int("slice.stop")
    path.assume(0 <= a, a <= b, b <= z3.Int("file.nrows"))
    return SliceV(a, b, None)


read_batch_slice = [Contract(
    U + "read_batch_slice", PROPERTY,
    params={"prior_samples_file": cache_file, "columns": ("const", PyList(list(READ_COLS))), "slice": slice_param},
    cases=[{"_name": "units=None", "units": "none"}, {"_name": "units=all", "units": units_param(READ_COLS)},
           {"_name": "units=some", "units": units_param(["P", "s"])}],
    ensures={"shape": "result.shape[0] == slice.stop - slice.start and result.shape[1] == 5",
             "rows-start-to-stop-of-the-requested-columns-in-requested-units": _cell_clause("slice.start + k"),
             "read-only": "all_opens_read_only()"})]


def idx_param(ex, path, name):
    a = fresh_arr("idx", 1, "int")
    k = z3.Int(fresh_name("k"))
    path.assume(a.shape[0] >= 0, q_forall([k], b_and(0 <= k, k < a.shape[0]), b_and(0 <= a.at(k), a.at(k) < z3.Int("file.nrows")), pats=[a.at(k)]))
    return a


read_batch_idx = [Contract(
    U + "read_batch_idx", PROPERTY,
    params={"prior_samples_file": cache_file, "columns": ("const", PyList(list(READ_COLS))), "idx": idx_param},
    cases=[{"_name": "units=None", "units": "none"}, {"_name": "units=all", "units": units_param(READ_COLS)}],
    ensures={"shape": "result.shape[0] == len(idx) and result.shape[1] == 5",
             "the-rows-of-the-index-array-in-the-given-order": _cell_clause("idx[k]"),
             "read-only": "all_opens_read_only()"})]


# callee views for the dispatcher and the random reader
def _res_rb_idx(ex, path, bound, node):
    f, idx, units = bound["prior_samples_file"], bound["idx"], bound.get("units")
    cols = bound["columns"].items
    n = idx.shape[0]

    def at(k, c):
        out = None
        for ci in range(len(cols) - 1, -1, -1):
            nm = cols[ci]
            fac = 1 if units is None or nm not in units.vals else A.factor(f.fields["units"].vals[nm], units.vals[nm])
            v = f.fields["cols"].vals[nm].at(idx.at(k)) * to_z3(fac, "real")
            out = v if out is None else z3.If(to_z3(c) == ci, v, out)
        return out
    r = Arr([n, len(cols)], at, "real", "batch")
    r.read_via = ("idx", idx)
    return r


rb_idx_callee = Contract(U + "read_batch_idx", PROPERTY, ensures={}, result=_res_rb_idx)


def _res_rb_slice(ex, path, bound, node):
    sl = bound["slice"]
    n = to_z3(sl.hi) - to_z3(sl.lo)
    idx = Arr([n], lambda k: to_z3(sl.lo) + to_z3(k), "int")
    b2 = dict(bound, idx=idx)
    r = _res_rb_idx(ex, path, b2, node)
    r.read_via = ("slice", sl)
    return r


rb_slice_callee = Contract(U + "read_batch_slice", PROPERTY, ensures={}, result=_res_rb_slice)


def _res_rb_random(ex, path, bound, node):
    f, size, rng = bound["prior_samples_file"], bound["size"], bound.get("rng")
    idx = fresh_arr("random_idx", 1, "int", [size])
    k, k2 = z3.Int(fresh_name("k")), z3.Int(fresh_name("k"))
    path.assume(q_forall([k], b_and(0 <= k, k < to_z3(size)), b_and(0 <= idx.at(k), idx.at(k) < f.fields["nrows"]), pats=[idx.at(k)]),
                q_forall([k, k2], b_and(0 <= k, k < k2, k2 < to_z3(size)), idx.at(k) != idx.at(k2)))
    r = _res_rb_idx(ex, path, dict(bound, idx=idx), node)
    r.read_via = ("random", idx, rng)
    return r


rb_random_callee = Contract(U + "read_random_batch", PROPERTY, ensures={}, result=_res_rb_random)


@model("via", doc="spec: which reader produced the batch, and with which selection")
def _via(ex, path, args, kwargs, node, fn):
    v = getattr(args[0], "read_via", None)
    if v is None:
        raise Unsupported("batch was not produced by one of the readers")
    return PyList(list(v), None, True)


LIB["via"] = _via

_rb_params = {"prior_samples_file": cache_file, "columns": ("const", PyList(list(READ_COLS))), "units": units_param(["P", "s"])}
read_batch = [
    Contract(U + "read_batch", PROPERTY, params=dict(_rb_params, slice_or_idx=lambda ex, path, n: PyList([z3.Int("lo"), z3.Int("hi")], None, True), rng="none"),
             cases=[{"_name": "tuple"}], requires=["0 <= slice_or_idx[0] and slice_or_idx[0] <= slice_or_idx[1] and slice_or_idx[1] <= prior_samples_file.nrows"],
             ensures={"contiguous-range": "via(result)[0] == 'slice' and via(result)[1].start == slice_or_idx[0] and via(result)[1].stop == slice_or_idx[1]",
                      "rows": _cell_clause("slice_or_idx[0] + k"), "count": "result.shape[0] == slice_or_idx[1] - slice_or_idx[0]"}),
    Contract(U + "read_batch", PROPERTY, params=dict(_rb_params, slice_or_idx=slice_param, rng="none"), cases=[{"_name": "slice"}],
             ensures={"contiguous-range": "via(result)[0] == 'slice'", "rows": _cell_clause("slice_or_idx.start + k"),
                      "count": "result.shape[0] == slice_or_idx.stop - slice_or_idx.start"}),
    Contract(U + "read_batch", PROPERTY, params=dict(_rb_params, slice_or_idx=idx_param, rng="none"), cases=[{"_name": "index-array"}],
             ensures={"explicit-rows-in-the-given-order": "via(result)[0] == 'idx' and via(result)[1] is slice_or_idx", "rows": _cell_clause("slice_or_idx[k]"),
                      "count": "result.shape[0] == len(slice_or_idx)"}),
    Contract(U + "read_batch", PROPERTY, params=dict(_rb_params, slice_or_idx="nat", rng=lambda ex, path, n: make_rng("rng")), cases=[{"_name": "random-subset"}],
             requires=["slice_or_idx <= prior_samples_file.nrows"],
             ensures={"random-subset-from-the-handed-generator": "via(result)[0] == 'random' and via(result)[2] is rng",
                      "count": "result.shape[0] == slice_or_idx",
                      "no-row-twice": "all(implies(k != j, via(result)[1][k] != via(result)[1][j]) for k in range(slice_or_idx) for j in range(slice_or_idx))"}),
    Contract(U + "read_batch", PROPERTY, params=dict(_rb_params, slice_or_idx="real", rng="none"), cases=[{"_name": "unsupported-selector"}],
             ensures={"never-returns": "False"}),
]

read_random_batch = [Contract(
    U + "read_random_batch", PROPERTY,
    params={"prior_samples_file": cache_file, "columns": ("const", PyList(list(READ_COLS))), "size": "nat", "units": units_param(["P"]),
            "rng": lambda ex, path, n: make_rng("rng")},
    requires=["size <= prior_samples_file.nrows"],
    ensures={"indices-drawn-without-replacement-from-the-handed-generator":
             "rng_event(0).kind == 'choice' and rng_event(0).gen == 'rng' and rng_event(0).size == size and rng_event(0).N == prior_samples_file.nrows and n_rng_events() == 1",
             "reads-exactly-those-rows": "via(result)[0] == 'idx' and via(result)[1] is rng_event(0).value",
             "read-only": "all_opens_read_only()"})]


# ---- append compatibility: schema equality -----------------------------------------------------------------------------------------------
def dtype_lists():
    """all pairs of column-description lists with 0..2 entries each, every entry with or without a 'unit' key; names/datatypes/units symbolic"""
    out = []
    for L1 in range(3):
        for L2 in range(3):
            for pres in itertools.product((False, True), repeat=L1 + L2):
                out.append((L1, L2, pres))
    return out


def _entry(tag, with_unit):
    d = PyDict()
    d = d.set("name", Opaque(f"{tag}.name", z3.Const(f"{tag}.name", PyObj)))
    d = d.set("datatype", Opaque(f"{tag}.datatype", z3.Const(f"{tag}.datatype", PyObj)))
    if with_unit:
        d = d.set("unit", Opaque(f"{tag}.unit", z3.Const(f"{tag}.unit", PyObj)))
    return d


def dtype_param(which, L, pres):
    def build(ex, path, name):
        lst = PyList([_entry(f"d{which}_{i}", pres[i]) for i in range(L)])
        path.ghost[f"dtype{which}"] = lst
        return lst
    return build


@model("same_schema", doc="spec: same number of columns and, column by column, equal name, datatype and unit (a missing unit == the empty unit '')")
def _same_schema(ex, path, args, kwargs, node, fn):
    a, b = path.ghost["dtype1"], path.ghost["dtype2"]
    if len(a.items) != len(b.items):
        return False
    conds = []
    empty = str_const("")
    for d1, d2 in zip(a.items, b.items):
        conds.append(d1.vals["name"].term == d2.vals["name"].term)
        conds.append(d1.vals["datatype"].term == d2.vals["datatype"].term)
        u1 = d1.vals["unit"].term if "unit" in d1.vals else empty
        u2 = d2.vals["unit"].term if "unit" in d2.vals else empty
        conds.append(u1 == u2)
    return z3.And(*conds) if conds else True


LIB["same_schema"] = _same_schema
dtype_compare = []
for (L1, L2, pres) in dtype_lists():
    dtype_compare.append(Contract(
        SH + "_custom_tbl_dtype_compare", PROPERTY,
        params={"dtype1": dtype_param(1, L1, pres[:L1]), "dtype2": dtype_param(2, L2, pres[L1:])},
        cases=[{"_name": f"{L1}x{L2}:{''.join('u' if p else '-' for p in pres)}"}],
        ensures={"true-exactly-for-equal-schemas": "result == same_schema()"}))

CONTRACTS = read_batch_slice + read_batch_idx + read_batch + read_random_batch + dtype_compare
def _res_rb(ex, path, bound, node):
    sel = bound["slice_or_idx"]
    if isinstance(sel, SliceV):
        return _res_rb_slice(ex, path, dict(bound, slice=sel), node)
    raise Unsupported("read_batch callee: selector other than a slice")


rb_callee = Contract(U + "read_batch", PROPERTY, ensures={}, result=_res_rb)
CALLEES = {U + "read_batch": rb_callee, U + "read_batch_idx": rb_idx_callee, U + "read_batch_slice": rb_slice_callee, U + "read_random_batch": rb_random_callee}
ASSUMPTIONS = ["pytables Table.read / read_coordinates contracts; h5py/pytables read-only opens; the YAML header yields the stored unit of each column",
               "astropy / h5py serialise and restore column data, units and YAML meta faithfully (write -> read round trip is exercised by the twin, bounded)"]
NOT_DECIDED = ["FITS path", "slices with a step other than 1"]


# ---- write_table_hdf5: incompatible appends are refused before anything is altered (effect analysis) --------------------------------------
MUTATORS = ("remove", "create_group", "create_dataset", "resize")


def _mutations(path):
    out = []
    for e in path.ghost.get("events", []):
        if e.get("attempted"):
            continue
        last = e["name"].split(".")[-1]
        if e["kind"] == "call" and last in MUTATORS:
            out.append(last)
        elif e["kind"] in ("del", "setitem", "setattr") and "output" in str(getattr(e.get("recv"), "tag", "")):
            out.append(e["kind"])
    return out


@model("is_refusal", doc="spec: the path ends in an explicit `raise` of the writer (a refusal), or in the metadata-merge check raising")
def _is_refusal(ex, path, args, kwargs, node, fn):
    exc = path.exc
    if exc is None:
        return False
    stmt = getattr(exc, "stmt", None)
    return stmt is None or "metadata.merge" in stmt


@model("only_documented_removals", doc="spec: nothing in the file was altered before the refusal, except the documented removals "
                                       "(os.remove under overwrite-and-not-append, deleting the old dataset under append-and-overwrite) and creating a missing empty group")
def _only_doc(ex, path, args, kwargs, node, fn):
    append, overwrite = args
    allowed = {"create_group"}
    if overwrite is True and append is False:
        allowed.add("remove")
    if overwrite is True and append is True:
        allowed.add("del")
    return all(m in allowed for m in _mutations(path))


@model("append_extends_existing", doc="spec: a successful append onto an existing table resizes it and writes the new rows at the end; it never re-creates the dataset")
def _append_ext(ex, path, args, kwargs, node, fn):
    m = _mutations(path)
    if "resize" in m:
        return m.index("resize") < len(m) - 1 and m[-1] == "setitem" and "create_dataset" not in m
    return True


LIB.update({"is_refusal": _is_refusal, "only_documented_removals": _only_doc, "append_extends_existing": _append_ext})


def out_param(kind):
    def build(ex, path, name):
        o = Opaque("output")
        o.type_pred = (lambda short: "str" in short) if kind == "str" else (lambda short: "File" in short or "Group" in short)
        return o
    return build


@model("os.path.exists")
def _exists(ex, path, args, kwargs, node, fn):
    o = args[0]
    b = getattr(o, "_exists", None)
    if b is None:
        b = o._exists = fresh_bool("file_exists") if isinstance(o, Opaque) else fresh_bool("exists")
    return b


LIB["os.path.exists"] = _exists

write_table = []
for kind in ("str", "group"):
    for append in (False, True):
        for overwrite in (False, True):
            c = Contract(SH + "write_table_hdf5", PROPERTY,
                         params={"table": "opaque", "output": out_param(kind), "path": ("const", "samples"), "compression": "false",
                                 "append": "true" if append else "false", "overwrite": "true" if overwrite else "false", "serialize_meta": "true",
                                 "metadata_conflicts": ("const", "error"), "create_dataset_kwargs": lambda ex, path, n: PyDict()},
                         cases=[{"_name": f"output={kind},append={append},overwrite={overwrite}"}],
                         ensures={"a-successful-append-extends-the-existing-table": "append_extends_existing()"},
                         exc_ensures={"refused-before-anything-is-altered": f"implies(is_refusal(), only_documented_removals({append}, {overwrite}))"})
            c.cfg_mode = True
            c.calls_may_raise = True
            write_table.append(c)
CONTRACTS += write_table


# contracts carry their own callee table / library models so that other properties can list them unchanged
for _c in CONTRACTS:
    _c.callees = CALLEES
    _c.lib = LIB


# ---- the two small header helpers the readers rely on (above they enter as callee models): decided on a header with three column entries, one of
# which stores no unit ------------------------------------------------------------------------------------------------------------------------------
def _header_rows(path):
    if "hdr_rows" not in path.ghost:
        units = [Obj("Unit", {"name": f"stored_unit_{i}"}, ident=f"stored_unit_{i}") for i in range(2)]
        rows = [PyDict([("name", "colA"), ("unit", units[0])]), PyDict([("name", "colB")]), PyDict([("name", "colC"), ("unit", units[1])])]
        path.ghost["hdr_rows"] = rows
        path.ghost["hdr_units"] = units
    return path.ghost["hdr_rows"]


def _get_header(ex, path, args, kwargs, node, fn):
    return PyDict([("datatype", PyList(_header_rows(path)))])


def _Unit(ex, path, args, kwargs, node, fn):
    return args[0]


def _hdr_dataset(ex, path, name):
    return SymSeq(z3.Int("n_header_lines"), lambda k: Obj("bytes", {}))


def _decode(ex, path, args, kwargs, node, fn):
    return Opaque("header-line")


def _hdr_unit(ex, path, args, kwargs, node, fn):
    _header_rows(path)
    return path.ghost["hdr_units"][args[0]]


_HLIB = {"astropy.table.meta.get_header_from_yaml": _get_header, "astropy.io.misc.hdf5.get_header_from_yaml": _get_header, "thejoker.utils.get_header_from_yaml": _get_header, "get_header_from_yaml": _get_header,
         "astropy.units.Unit": _Unit, "bytes.decode": _decode, "hdr_unit_": _hdr_unit, "u_one_": lambda ex, path, args, kwargs, node, fn: A.U_ONE, "astropy.units.one": A.U_ONE,
         "astropy.io.misc.hdf5.meta_path": _meta_path, "thejoker.utils.meta_path": _meta_path, "meta_path": _meta_path}
header_units = Contract(U + "table_header_to_units", PROPERTY, params={"header_dataset": _hdr_dataset},
                        ensures={"every-column-of-the-header-is-listed-with-its-stored-unit": "result['colA'] is hdr_unit_(0) and result['colC'] is hdr_unit_(1)",
                                 "a-column-stored-without-unit-is-dimensionless": "result['colB'] is u_one_()",
                                 "nothing-else-is-listed": "len(result) == 3"})
header_units.lib = dict(_HLIB)
CONTRACTS += [header_units]


# `table_contains_column` (the readers' and the samplers' "does the library store ln_prior?" test): same header model; decided for the three
# stored names and for a name the header does not list
def _tcc_root(ex, path, name):
    root = Obj("tb.root", {}, ident="root")
    def _gi(ex_, p_, recv_, key, n_):
        p_.ghost.setdefault("tcc_keys", []).append(key)
        return _hdr_dataset(ex_, p_, "header_dataset")
    root.fields["__getitem__"] = _gi
    return root


def _tcc_key_ok(ex, path, args, kwargs, node, fn):
    keys = path.ghost.get("tcc_keys", [])
    # the class attribute by reference, or its value (pinned to "samples" by the JokerSamples.write/read contracts below)
    return len(keys) == 1 and keys[0] in ("meta_path(samples)", "meta_path(thejoker.samples.JokerSamples._hdf5_path)")


def _tcc_meta_path(ex, path, args, kwargs, node, fn):
    a = args[0]
    if isinstance(a, str):
        return f"meta_path({a})"
    return f"meta_path({getattr(a, 'dotted', type(a).__name__)})"


contains_column = [Contract(U + "table_contains_column", PROPERTY, params={"root": _tcc_root, "column": ("const", col)},
                            cases=[{"_name": f"column={col}"}],
                            ensures={"true-exactly-for-the-names-the-header-lists": f"result == {col != 'colD'}",
                                     "the-header-read-is-the-one-of-the-samples-table": "header_of_samples_table_()"})
                   for col in ("colA", "colB", "colC", "colD")]
for _c in contains_column:
    _c.lib = dict(_HLIB, header_of_samples_table_=_tcc_key_ok, **{k: _tcc_meta_path for k in ("astropy.io.misc.hdf5.meta_path", "thejoker.utils.meta_path", "meta_path")})
CONTRACTS += contains_column


# ---- JokerSamples.write / read: the wiring around the table writer / reader (cfg mode: calls are events) ---------------------------------------------
SJ = "thejoker.samples.JokerSamples."


def _ev_calls(path, short):
    return [e for e in path.ghost.get("events", []) if e.get("kind") == "call" and not e.get("attempted") and e["name"].split(".")[-1] == short]


def _w_ok(ex, path, args, kwargs, node, fn):
    ev = _ev_calls(path, "write_table_hdf5")
    if len(ev) != 1:
        return False
    e = ev[0]
    kw = e["kwargs"]
    self = path.env.get("self")
    return (len(e["args"]) >= 2 and e["args"][0] is self.fields["tbl"] and e["args"][1] is path.env.get("output")
            and kw.get("path") is self.fields["_hdf5_path"] and kw.get("append") is path.env.get("append") and kw.get("overwrite") is path.env.get("overwrite")
            and kw.get("serialize_meta") is True and kw.get("metadata_conflicts") == "error")


def _write_self(ex, path, name):
    return Obj("JokerSamples", {"tbl": Opaque("self.tbl"), "_hdf5_path": "samples", "__qualclass__": "thejoker.samples.JokerSamples"}, ident="self")


js_write = [Contract(SJ + "write", PROPERTY,
                     params={"self": _write_self, "output": (lambda ex, path, n, k=kind: (Opaque("h5py-group") if k == "group" else ("const", "lib.hdf5")[1])),
                             "overwrite": "bool", "append": "bool"},
                     cases=[{"_name": kind}],
                     ensures={"the-whole-table-goes-to-the-writer-with-metadata-and-conflicts-refused":
                              "written_with_meta_and_conflict_check()"})
            for kind in ("file-name", "group")]
for _c in js_write:
    _c.cfg_mode = True
    _c.callees = {}
    _c.lib = {"written_with_meta_and_conflict_check": _w_ok, "os.path.splitext": lambda ex, path, args, kwargs, node, fn: PyList(["lib", ".hdf5"], None, True)}
CONTRACTS += js_write


def _r_ok(ex, path, args, kwargs, node, fn):
    rd = _ev_calls(path, "read")
    if len(rd) != 1 or not rd[0]["args"] or rd[0]["args"][0] is not path.env.get("filename"):
        return False
    if rd[0]["kwargs"].get("path") != "samples":
        return False
    res = path.env.get("result")
    mk = getattr(res, "from_call", None)
    tbl_arg = mk["kwargs"].get("samples") if mk is not None else None
    if mk is not None and tbl_arg is None and mk["args"]:
        tbl_arg = mk["args"][0]
    if mk is None or getattr(tbl_arg, "from_call", None) is not rd[0]:
        return False
    # (the constructor takes the reference epoch etc. from the table's own metadata - proved in C17 -, so forwarding **tbl.meta as well is optional)
    return True


def _cls_param(ex, path, name):
    o = Opaque("JokerSamples-class")
    o.__dict__["_attrs"] = {"_hdf5_path": "samples"}
    return o


js_read = [Contract(SJ + "read", PROPERTY,
                    params={"cls": _cls_param, "filename": ("const", "lib.hdf5"), "path": "none"},
                    cases=[{"_name": "hdf5-file-name"}],
                    ensures={"the-table-read-from-that-file-and-path-becomes-the-samples-with-its-own-metadata": "read_then_built_from_the_table()"})]
for _c in js_read:
    _c.cfg_mode = True
    _c.callees = {}
    _c.lib = {"read_then_built_from_the_table": _r_ok, "os.path.splitext": lambda ex, path, args, kwargs, node, fn: PyList(["lib", ".hdf5"], None, True)}
CONTRACTS += js_read


def EXTRA():
    from . import chain as _CHX
    return _CHX.frame_effects(PROPERTY)
