"""C05 - results do not depend on batching, pool, cache path or call history.
History/partition independence is a frame + functional statement: LL(row) mentions only immutable helper fields
(proved on the kernel in C01's frame clauses), and the Python plumbing returns LL(row p) at position p for every
partition produced by batch_tasks (proved here, for all n_batches, with and without an index array)."""
from . import filemodel
from . import workers as W

PROPERTY = "C05"
CONTRACTS = list(W.CHAIN_CONTRACTS)
CALLEES = dict(W.CHAIN_CALLEES)
LIB = filemodel.install_repo_models(dict(W.LIB))
LEMMAS = ["Partition.lean"]
ASSUMPTIONS = ["pool.map order (S9); process isolation for MultiPool", "HDF5 round trip of a JokerSamples written to the temporary cache",
               "pickling of data/prior when the helper is sent to worker processes"]

# the readers the workers rely on (rows in the order of the index array / slice, exact conversion factors) - proved in C12, listed here
# too because the batching-independence claim depends on them
from . import c12 as _C12   # noqa: E402

CONTRACTS += _C12.read_batch_slice + _C12.read_batch_idx + _C12.read_batch
for _k, _v in _C12.CALLEES.items():
    CALLEES.setdefault(_k + "#c12", _v)
C12_CALLEES = dict(_C12.CALLEES)


# the plumbing this property's claim runs through (contracts/chain.py): listed here too, so that a change inside it is caught by THIS check
from . import chain as CH   # noqa: E402
CH.extend(CONTRACTS, CH.wrapper() + CH.tables(pack=True, unpack=False))


# every call prepares and uses THIS call's data, whatever earlier calls left on the sampler (contract stated in c08.py)
from . import c08 as _C08H   # noqa: E402
from .chain import clone as _clone   # noqa: E402
CONTRACTS += [_clone(_c, home="c08") for _c in _C08H.make_helper]


# the kernel's two batch loops: the value stored for a row is a function of that row and the helper's immutable fields only - every scratch cell an
# iteration reads (Keplerian column, jitter-inflated weights, K variance) is (re)written by that same iteration, whatever the previous row left
# (per-iteration contracts of contracts/kernel.py, proved from an ARBITRARY scratch state)
from . import kernel as _KN   # noqa: E402
CONTRACTS += [_clone(_c, callees=_KN.CALLEES, lib=_KN.LIB, hooks=_KN.HOOKS, home="c01") for _c in (_KN.bml, _KN.bgp)]


def _EXTRA0():
    from jvc import effects
    # call-history independence of the Python plumbing: no module-level cache or other state is written by these modules
    out = [dict(r, name="C05/effects/" + r["name"]) for r in effects.check_module_state(
        ["thejoker.utils", "thejoker.multiproc_helpers", "thejoker.likelihood_helpers", "thejoker.samples", "thejoker.samples_helpers"])]
    # the batching option reaches the helpers (the result is proved independent of its value there)
    out += [r for r in effects.check_option_forwarding(["thejoker.thejoker.TheJoker.marginal_ln_likelihood", "thejoker.thejoker.TheJoker.rejection_sample",
                                                        "thejoker.thejoker.TheJoker.iterative_rejection_sample"], PROPERTY) if "n_batches" in r["name"]]
    return out


def EXTRA():
    from . import chain as _CHX
    return list(_EXTRA0()) + _CHX.frame_effects(PROPERTY)
