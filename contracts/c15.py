"""C15 - RVData preserves the observations it is given: one mask and one permutation applied to every parallel array
(rows and columns of a covariance), time order, units, default reference epoch, ivar/cov, copy()/slicing."""
import z3

from jvc.lib import LIB as _L, model, FINITE
from jvc.symexec import Contract, b_and, q_forall, to_z3
from jvc.values import Arr, NameRef, Obj, Opaque, PyList, Unsupported, fresh_arr, fresh_fn, fresh_int, fresh_name, fresh_real

from . import astromodel as A
from . import common  # noqa: F401  (spec functions src_idx, ...)

PROPERTY = "C15"
D = "thejoker.data.RVData."
SPEED = (-1, 1, 0)
SPEED2 = (-2, 2, 0)


def self_param(ex, path, name):
    return Obj("RVData", {"__qualclass__": "thejoker.data.RVData"}, ident="self")


def t_time_param(ex, path, name):
    a = fresh_arr("t_in", 1, "real")
    path.assume(a.shape[0] >= 0)
    t = A.time_obj(a)
    t.type_pred = None
    return t


def t_raw_param(ex, path, name):
    a = fresh_arr("t_in", 1, "real")
    path.assume(a.shape[0] >= 0)
    return a


def rv_param(ex, path, name):
    a = fresh_arr("rv_in", 1, "real")
    path.assume(a.shape[0] >= 0)
    u_ = A.sym_unit("rv_unit", SPEED)
    path.assume(*u_.sym_facts)
    return A.quantity(a, u_)


def err_param(ex, path, name):
    a = fresh_arr("err_in", 1, "real")
    path.assume(a.shape[0] >= 0)
    u_ = A.sym_unit("err_unit", SPEED)
    path.assume(*u_.sym_facts)
    return A.quantity(a, u_)


def cov_param(ex, path, name):
    a = fresh_arr("cov_in", 2, "real")
    path.assume(a.shape[0] >= 0, a.shape[1] >= 0)
    u_ = A.sym_unit("cov_unit", SPEED2)
    path.assume(*u_.sym_facts)
    return A.quantity(a, u_)


def tref_time_param(ex, path, name):
    # a reference epoch given in ANY time scale: its TCB value differs from its own MJD number by a scale-dependent offset
    return A.time_obj(z3.Real("t_ref_in"), tcb_offset=z3.Real("t_ref_tcb_minus_own_scale"))


@model("finite_", doc="spec: the ghost finiteness predicate of a value (what np.isfinite tests)")
def _finite(ex, path, args, kwargs, node, fn):
    return FINITE(to_z3(args[0], "real"))


@model("inv_", doc="spec: ghost inverse of a provenance index array (position r with g[r] == i)")
def _inv(ex, path, args, kwargs, node, fn):
    g, i = args
    f = getattr(g, "inverse", None)
    if f is None:
        raise Unsupported("provenance is not invertible (not built from where / argsort / slices)")
    return f(i)


@model("tvals", doc="spec: the TCB-MJD values of a time argument (Time object or raw array)")
def _tvals(ex, path, args, kwargs, node, fn):
    t = args[0]
    return t.fields["mjd"] if isinstance(t, Obj) else t


LIB = {"finite_": _finite, "inv_": _inv, "tvals": _tvals}

# `RVData.t` (a property): Time(self._t_bmjd, scale="tcb", format="mjd")
t_prop = Contract(D + "t", PROPERTY, ensures={}, result=lambda ex, path, bound, node: A.time_obj(bound["self"].fields["_t_bmjd"]))
t_prop.is_property = True

INIT_DEFS = {
    "n": ([], "len(tvals(t))"),
    "pi": ([], "src_idx(self._t_bmjd, tvals(t))"),            # ghost: out row r comes from input row pi[r]
    "m": ([], "len(self._t_bmjd)"),
}
INIT_DEFS_1D = dict(INIT_DEFS, ok=(["i"], "finite_(tvals(t)[i]) and finite_(rv.value[i]) and finite_(rv_err.value[i])"))
INIT_DEFS_COV = dict(INIT_DEFS, ok=(["i"], "finite_(tvals(t)[i]) and finite_(rv.value[i]) and all(finite_(rv_err.value[q, i]) for q in range(n()))"))

COMMON = {
    "lengths": "len(self.rv.value) == m() and len(pi()) == m()",
    "rows-come-from-the-input": "all(0 <= pi()[r] and pi()[r] < n() for r in range(m()))",
    "time-paired": "all(self._t_bmjd[r] == tvals(t)[pi()[r]] for r in range(m()))",
    "velocity-paired-with-its-time": "all(self.rv.value[r] == rv.value[pi()[r]] for r in range(m()))",
    "no-row-twice": "all(inv_(pi(), pi()[r]) == r for r in range(m()))",
    "time-ordered": "all(self._t_bmjd[r] <= self._t_bmjd[r + 1] for r in range(m() - 1))",
    "units-kept": "self.rv.unit is rv.unit and self.rv_err.unit is rv_err.unit",
}
ERR_1D = {"uncertainty-paired-with-its-time": "len(self.rv_err.value) == m() and all(self.rv_err.value[r] == rv_err.value[pi()[r]] for r in range(m()))"}
ERR_COV = {"covariance-rows-and-columns-paired": "self.rv_err.value.shape[0] == m() and self.rv_err.value.shape[1] == m() and "
                                                 "all(self.rv_err.value[r, c] == rv_err.value[pi()[r], pi()[c]] for r in range(m()) for c in range(m()))"}
CLEAN = {
    "kept-are-finite": "all(ok(pi()[r]) for r in range(m()))",
    "every-finite-observation-kept": "all(implies(ok(i), 0 <= inv_(pi(), i) and inv_(pi(), i) < m() and pi()[inv_(pi(), i)] == i) for i in range(n()))",
}
NOCLEAN = {
    "nothing-dropped": "m() == n() and all(0 <= inv_(pi(), i) and inv_(pi(), i) < m() and pi()[inv_(pi(), i)] == i for i in range(n()))",
}
TREF_DEFAULT = {"t_ref-defaults-to-earliest": "implies(m() >= 1, all(self._t_ref_bmjd <= self._t_bmjd[r] for r in range(m())) and "
                                              "any(self._t_ref_bmjd == self._t_bmjd[r] for r in range(m())))"}
TREF_GIVEN = {"t_ref-is-the-given-epoch": "self._t_ref_bmjd == t_ref.tcb.mjd and self.t_ref is t_ref"}
TREF_FALSE = {"t_ref-disabled": "self.t_ref is None and self._t_ref_bmjd == 0"}


def _init_contracts():
    out = []
    for errkind, errp, errens, defs in (("1d", err_param, ERR_1D, INIT_DEFS_1D), ("cov", cov_param, ERR_COV, INIT_DEFS_COV)):
        for clean, cens in (("true", CLEAN), ("false", NOCLEAN)):
            cases = []
            for tk, tp in (("Time", t_time_param), ("raw", t_raw_param)):
                for rk, rp, rens in (("None", "none", TREF_DEFAULT), ("Time", tref_time_param, TREF_GIVEN), ("False", "false", TREF_FALSE)):
                    if tk == "raw" and rk != "None":
                        continue
                    cases.append(({"_name": f"t={tk},err={errkind},clean={clean},t_ref={rk}", "t": tp, "t_ref": rp}, rens))
            for case, rens in cases:
                out.append(Contract(D + "__init__", PROPERTY,
                                    params={"self": self_param, "rv": rv_param, "rv_err": errp, "clean": clean},
                                    cases=[case], ensures={**COMMON, **errens, **cens, **rens}, defs=defs))
    return out


init_contracts = _init_contracts()

# ---- ivar / cov properties --------------------------------------------------------------------------------------------------
def built_1d(ex, path, name):
    n = z3.Int("n_obs")
    path.assume(n >= 0)
    t = fresh_arr("t", 1, "real", [n])
    u_ = A.sym_unit("rv_unit", SPEED)
    path.assume(*u_.sym_facts)
    err = fresh_arr("err", 1, "real", [n])
    k = z3.Int(fresh_name("k"))
    path.assume(q_forall([k], b_and(0 <= k, k < n), err.at(k) != 0, pats=[err.at(k)]))
    tref = z3.Real("t_ref_bmjd")
    o = Obj("RVData", {"_t_bmjd": t, "rv": A.quantity(fresh_arr("rv", 1, "real", [n]), u_), "rv_err": A.quantity(err, u_),
                       "_has_cov": False, "t_ref": A.time_obj(tref), "_t_ref_bmjd": tref, "__len__": n,
                       "__qualclass__": "thejoker.data.RVData"}, ident="self")
    return o


ivar_1d = Contract(D + "ivar", PROPERTY, params={"self": built_1d},
                   ensures={"reciprocal-variance": "all(result.value[i] * self.rv_err.value[i] * self.rv_err.value[i] == 1 for i in range(len(self)))",
                            "unit-is-inverse-square": "result.unit.dim == (2, -2, 0) and result.unit.scale * self.rv_err.unit.scale * self.rv_err.unit.scale == 1"})
cov_1d = Contract(D + "cov", PROPERTY, params={"self": built_1d},
                  ensures={"diagonal-of-variances": "all(result.value[i, j] == (self.rv_err.value[i] * self.rv_err.value[i] if i == j else 0) "
                                                    "for i in range(len(self)) for j in range(len(self)))",
                           "unit-is-square": "result.unit.dim == (-2, 2, 0) and result.unit.scale == self.rv_err.unit.scale * self.rv_err.unit.scale"})


# ---- copy / slicing: the constructor seen as a callee ------------------------------------------------------------------------
def _res_ctor(ex, path, bound, node):
    """RVData(t=..., rv=..., rv_err=..., t_ref=...) as a callee: a fresh object satisfying __init__'s postcondition.
    For inputs that are already clean and sorted (the only call sites: copy and slicing of a built object) the
    permutation is the identity, which is what the `ensures` below state under that precondition."""
    t, rv, err = bound["t"], bound["rv"], bound["rv_err"]
    tr = bound.get("t_ref")
    n = rv.fields["value"].shape[0]
    new = Obj("RVData", {"_t_bmjd": fresh_arr("t_new", 1, "real", [n]), "rv": A.quantity(fresh_arr("rv_new", 1, "real", [n]), rv.fields["unit"]),
                         "rv_err": A.quantity(fresh_arr("err_new", err.fields["value"].ndim, "real", list(err.fields["value"].shape)), err.fields["unit"]),
                         "__len__": n, "__qualclass__": "thejoker.data.RVData", "_t_ref_bmjd": fresh_real("t_ref_new"),
                         "t_ref_given": tr, "cls_name": "RVData"})
    return new


ctor = Contract("thejoker.data.RVData.__init__", PROPERTY, result=_res_ctor,
                requires=[],
                ensures={
                    # sorted, finite input => identity permutation (consequence of the __init__ contract: argsort of a
                    # strictly... non-decreasing array may permute ties, so only *values* are stated)
                    "times": "all(result._t_bmjd[r] == tvals(t)[r] for r in range(len(tvals(t))))",
                    "t_ref": "implies(t_ref is not None and t_ref is not False, result._t_ref_bmjd == t_ref.mjd)",
                })

CONTRACTS = init_contracts + [ivar_1d, cov_1d]
CALLEES = {D + "t": t_prop, "RVData.t": t_prop}
ASSUMPTIONS = ["astropy: Time(x).tcb.mjd is elementwise pure (identity on TCB-MJD inputs); Quantity indexing keeps the unit; u.quantity_input only rejects wrong units",
               "numpy: boolean-mask indexing = gather at where(mask); argsort is a sorting permutation (ties in any order); isfinite is elementwise"]
NOT_DECIDED = ["Time inputs in other scales/formats (conversion to TCB MJD is astropy's)", "that np.linalg.inv returns the inverse (library contract)"]


# ---- copy() and slicing: the constructor call seen through __init__'s own contract (proved above) -------------------------------------
def _res_ctor_full(ex, path, bound, node):
    """RVData(t=Time, rv=Quantity, rv_err=Quantity[, t_ref]) as a callee: a fresh object satisfying the postcondition proved for __init__ on finite
    input (the only call sites here pass the columns of an already built object): rows are the input rows under a sorting bijection `pi`."""
    from jvc.symexec import arr_index
    t, rv, err = bound["t"], bound["rv"], bound["rv_err"]
    tr = bound.get("t_ref")
    tv = t.fields["mjd"]
    n = tv.shape[0]
    pi = fresh_fn("pi", z3.IntSort(), z3.IntSort())
    inv = fresh_fn("pi_inv", z3.IntSort(), z3.IntSort())
    piA = Arr([n], lambda k: pi(to_z3(k)), "int", "pi")
    piA.perm_inv = inv
    piA.inverse = lambda i: inv(to_z3(i))
    t_new = arr_index(tv, (piA,))
    rv_new = arr_index(rv.fields["value"], (piA,))
    ev = err.fields["value"]
    err_new = arr_index(ev, (piA,)) if ev.ndim == 1 else Arr([n, n], lambda r, c: ev.at(pi(to_z3(r)), pi(to_z3(c))), "real", "cov_new")
    k = z3.Int(fresh_name("k"))
    i = z3.Int(fresh_name("i"))
    path.assume(q_forall([k], b_and(0 <= k, k < n), b_and(0 <= pi(k), pi(k) < n, inv(pi(k)) == k), pats=[pi(k)]),
                q_forall([i], b_and(0 <= i, i < n), b_and(0 <= inv(i), inv(i) < n, pi(inv(i)) == i), pats=[inv(i)]),
                q_forall([k], b_and(0 <= k, k < n - 1), tv.at(pi(k)) <= tv.at(pi(k + 1)), pats=[pi(k)]))
    if tr is None:
        tref = fresh_real("t_ref_default")
        j = z3.Int(fresh_name("j"))
        path.assume(z3.Implies(n >= 1, z3.And(q_forall([k], b_and(0 <= k, k < n), tref <= tv.at(k), pats=[tv.at(k)]), tref == tv.at(pi(0)))))
        tref_obj = A.time_obj(tref)
    elif tr is False:
        tref, tref_obj = z3.RealVal(0), None
    else:
        tref, tref_obj = tr.fields["tcb"].fields["mjd"], tr
    o = Obj("RVData", {"_t_bmjd": t_new, "t": A.time_obj(t_new), "rv": A.quantity(rv_new, rv.fields["unit"]), "rv_err": A.quantity(err_new, err.fields["unit"]),
                       "_has_cov": ev.ndim == 2, "__len__": n, "cls_name": "RVData", "_t_ref_bmjd": tref, "t_ref": tref_obj, "pi": piA,
                       "__qualclass__": "thejoker.data.RVData"})
    return o


ctor_full = Contract("thejoker.data.RVData.__init__", PROPERTY, ensures={}, result=_res_ctor_full)


def built(kind, tref_kind):
    """an RVData object as __init__ leaves it: time-ordered rows, a reference epoch (given in any time scale, or disabled)"""
    def build(ex, path, name):
        n = z3.Int("n_obs")
        path.assume(n >= 1)
        t = fresh_arr("t", 1, "real", [n])
        u_ = A.sym_unit("rv_unit", SPEED)
        path.assume(*u_.sym_facts)
        k = z3.Int(fresh_name("k"))
        path.assume(q_forall([k], b_and(0 <= k, k < n - 1), t.at(k) <= t.at(k + 1), pats=[t.at(k)]))
        if kind == "1d":
            err = A.quantity(fresh_arr("err", 1, "real", [n]), u_)
        else:
            u2 = A.sym_unit("cov_unit", SPEED2)
            path.assume(*u2.sym_facts)
            err = A.quantity(fresh_arr("cov", 2, "real", [n, n]), u2)
        if tref_kind == "Time":
            tr = A.time_obj(z3.Real("t_ref_own_scale"), tcb_offset=z3.Real("t_ref_tcb_minus_own_scale"))
            trn = tr.fields["tcb"].fields["mjd"]
        else:
            tr, trn = None, z3.RealVal(0)
        return Obj("RVData", {"_t_bmjd": t, "rv": A.quantity(fresh_arr("rv", 1, "real", [n]), u_), "rv_err": err, "_has_cov": kind == "cov",
                              "t_ref": tr, "_t_ref_bmjd": trn, "__len__": n, "__qualclass__": "thejoker.data.RVData"}, ident="self")
    return build


SAME = {
    "a-bijection-of-the-rows": "all(0 <= result.pi[r] and result.pi[r] < len(self) and inv_(result.pi, result.pi[r]) == r for r in range(len(self)))",
    "time-velocity-paired-as-in-the-source": "len(result) == len(self) and all(result._t_bmjd[r] == self._t_bmjd[result.pi[r]] and "
                                             "result.rv.value[r] == self.rv.value[result.pi[r]] for r in range(len(self)))",
    "time-ordered": "all(result._t_bmjd[r] <= result._t_bmjd[r + 1] for r in range(len(self) - 1))",
    "units-kept": "result.rv.unit is self.rv.unit and result.rv_err.unit is self.rv_err.unit",
    "a-covariance-stays-a-covariance": "result._has_cov == self._has_cov",
}
copy_contracts = []
for _kind, _errens in (("1d", "all(result.rv_err.value[r] == self.rv_err.value[result.pi[r]] for r in range(len(self)))"),
                       ("cov", "all(result.rv_err.value[r, c] == self.rv_err.value[result.pi[r], result.pi[c]] for r in range(len(self)) for c in range(len(self)))")):
    for _tk, _tens in (("Time", "result._t_ref_bmjd == self._t_ref_bmjd and result.t_ref is self.t_ref"),
                       ("disabled", "result._t_ref_bmjd == 0 and result.t_ref is None")):
        copy_contracts.append(Contract(D + "__copy__", PROPERTY, params={"self": built(_kind, _tk)}, cases=[{"_name": f"err={_kind},t_ref={_tk}"}],
                                       ensures=dict(SAME, **{"uncertainty-paired-as-in-the-source": _errens, "same-reference-epoch": _tens})))
for _c in copy_contracts:
    _c.callees = {D + "t": t_prop, "RVData.t": t_prop, "thejoker.data.RVData": ctor_full, "thejoker.data.RVData.__init__": ctor_full}
CONTRACTS += copy_contracts


# ---- slicing: data[lo:hi], data[index array], data[mask] ------------------------------------------------------------------------------------
def slice_param(ex, path, name):
    from jvc.values import SliceV
    lo, hi = z3.Int("slc_lo"), z3.Int("slc_hi")
    n = z3.Int("n_obs")
    path.assume(0 <= lo, lo <= hi, hi <= n)
    return SliceV(lo, hi, None)


def idx_param(ex, path, name):
    m = z3.Int("n_idx")
    n = z3.Int("n_obs")
    a = fresh_arr("slc_idx", 1, "int", [m])
    k = z3.Int(fresh_name("k"))
    path.assume(m >= 0, q_forall([k], b_and(0 <= k, k < m), b_and(0 <= a.at(k), a.at(k) < n), pats=[a.at(k)]))
    return a


GI_DEFS = {
    # the selected source row behind output row r: the sorting bijection of the constructor composed with the selection
    "sel": (["j"], "slc_lo_() + j" ),
}


@model("slc_lo_")
def _slc_lo(ex, path, args, kwargs, node, fn):
    return z3.Int("slc_lo")


LIB["slc_lo_"] = _slc_lo

getitem_contracts = []
for _kind in ("1d", "cov"):
    _err_s = ("all(result.rv_err.value[r] == self.rv_err.value[slc_lo_() + result.pi[r]] for r in range(len(result)))" if _kind == "1d" else
              "all(result.rv_err.value[r, c] == self.rv_err.value[slc_lo_() + result.pi[r], slc_lo_() + result.pi[c]] for r in range(len(result)) for c in range(len(result)))")
    getitem_contracts.append(Contract(
        D + "__getitem__", PROPERTY, params={"self": built(_kind, "Time"), "slc": slice_param}, cases=[{"_name": f"slice,err={_kind}"}],
        ensures={"the-selected-rows": "len(result) == slc.stop - slc.start and all(0 <= result.pi[r] and result.pi[r] < len(result) and "
                                      "inv_(result.pi, result.pi[r]) == r for r in range(len(result)))",
                 "time-velocity-paired-as-in-the-source": "all(result._t_bmjd[r] == self._t_bmjd[slc_lo_() + result.pi[r]] and "
                                                          "result.rv.value[r] == self.rv.value[slc_lo_() + result.pi[r]] for r in range(len(result)))",
                 "uncertainty-paired-as-in-the-source": _err_s,
                 "units-kept": "result.rv.unit is self.rv.unit and result.rv_err.unit is self.rv_err.unit",
                 "a-covariance-stays-a-covariance": "result._has_cov == self._has_cov"}))
    _err_i = ("all(result.rv_err.value[r] == self.rv_err.value[slc[result.pi[r]]] for r in range(len(result)))" if _kind == "1d" else
              "all(result.rv_err.value[r, c] == self.rv_err.value[slc[result.pi[r]], slc[result.pi[c]]] for r in range(len(result)) for c in range(len(result)))")
    getitem_contracts.append(Contract(
        D + "__getitem__", PROPERTY, params={"self": built(_kind, "Time"), "slc": idx_param}, cases=[{"_name": f"index-array,err={_kind}"}],
        ensures={"the-selected-rows": "len(result) == len(slc) and all(0 <= result.pi[r] and result.pi[r] < len(result) and "
                                      "inv_(result.pi, result.pi[r]) == r for r in range(len(result)))",
                 "time-velocity-paired-as-in-the-source": "all(result._t_bmjd[r] == self._t_bmjd[slc[result.pi[r]]] and "
                                                          "result.rv.value[r] == self.rv.value[slc[result.pi[r]]] for r in range(len(result)))",
                 "uncertainty-paired-as-in-the-source": _err_i,
                 "units-kept": "result.rv.unit is self.rv.unit and result.rv_err.unit is self.rv_err.unit",
                 "a-covariance-stays-a-covariance": "result._has_cov == self._has_cov"}))
for _c in getitem_contracts:
    _c.callees = {D + "t": t_prop, "RVData.t": t_prop, "thejoker.data.RVData": ctor_full, "thejoker.data.RVData.__init__": ctor_full}
CONTRACTS += getitem_contracts


# ---- ivar for a full covariance: the matrix inverse of the covariance VALUES, as a quantity in the inverse of the covariance's OWN unit -------------
def _nomodel(*a, **k):
    return lambda f: f


@_nomodel("is_inverse_of_", doc="spec: the array is np.linalg.inv of the given array (ghost link set by the library model of inv)")
def _is_inv(ex, path, args, kwargs, node, fn):
    return getattr(args[0], "inverse_of", None) is args[1]


def _inv_model(ex, path, args, kwargs, node, fn):
    X = args[0]
    r = fresh_arr("inv", 2, "real", list(X.shape))
    r.inverse_of = X
    return r


ivar_cov = Contract(D + "ivar", PROPERTY, params={"self": built("cov", "Time")}, cases=[{"_name": "covariance"}],
                    ensures={"inverse-of-the-covariance-values": "is_inverse_of_(result.value, self.rv_err.value)",
                             "in-the-inverse-of-the-covariance's-own-unit": "result.unit.dim == (2, -2, 0) and result.unit.scale * self.rv_err.unit.scale == 1"})
ivar_cov.lib = dict(LIB, **{"is_inverse_of_": _is_inv, "numpy.linalg.inv": _inv_model})
CONTRACTS += [ivar_cov]
