"""C09 - prior draws and reported ln_prior follow the declared densities.
UniformLog: rng_fn is the inverse CDF of F(x) = (ln x - ln a)/(ln b - ln a) applied to a uniform draw on the handed
generator, logp is ln F'(x) inside [a, b] and -inf outside (Lean: lemmas/UniformLog.lean gives F' and the support);
FixedCompanionMass: sigma^2 = min(sigma_K0^2 (P/P0)^(-2/3)/(1 - e^2), max_K^2) with P0 in P's unit and max_K in sigma_K0's;
Kipping13 Beta parameters equal the published values; wiring of the default priors (which distribution, name, unit)."""
import ast

import z3

from jvc.lib import LIB as _L, model
from jvc.symexec import Contract, EXP, LOG, POW, SQRT, arith, b_and, q_forall, to_z3, z_max, z_min
from jvc.values import Arr, NameRef, Obj, Opaque, PyDict, PyList, Unsupported, fresh_arr, fresh_int, fresh_name, fresh_real

from . import astromodel as A
from . import common  # noqa: F401
from .common import make_rng

PROPERTY = "C09"
D = "thejoker.distributions."
NEG_INF = z3.Real("NEG_INF")


def AXIOMS(c):
    """only the axioms a contract needs (log(exp x) = x and exp(log x) = x together form a matching loop)"""
    x = z3.Real("x!ax")
    third = z3.RealVal("-1/3")
    if c.qual.endswith("rng_fn"):
        y = z3.Real("y!ax")
        return [z3.ForAll([x], LOG(EXP(x)) == x, patterns=[EXP(x)]),
                z3.ForAll([x, y], z3.Implies(z3.And(x > 0, y > 0, x < y), LOG(x) < LOG(y)), patterns=[z3.MultiPattern(LOG(x), LOG(y))])]
    if c.qual.endswith("FixedCompanionMass.dist"):
        return [z3.ForAll([x], z3.Implies(x > 0, POW(x, third) * POW(x, third) == POW(x, z3.RealVal("-2/3"))), patterns=[POW(x, third)]),
                z3.ForAll([x], z3.Implies(x > 0, POW(x, third) > 0), patterns=[POW(x, third)]),
                z3.ForAll([x], z3.Implies(x >= 0, z3.And(SQRT(x) >= 0, SQRT(x) * SQRT(x) == x)), patterns=[SQRT(x)])]
    return []


# ---- pytensor / pymc as real functions (assumed: pt.* elementwise ops are the real functions of the same name) -------------------------------
@model("pytensor.tensor.as_tensor_variable", doc="identity on values")
def _as_tensor(ex, path, args, kwargs, node, fn):
    return args[0]


@model("pytensor.tensor.switch", doc="pt.switch(c, a, b) = a where c else b")
def _switch(ex, path, args, kwargs, node, fn):
    c, a, b = args
    return z3.If(to_z3(c), to_z3(a, "real"), to_z3(b, "real"))


@model("pytensor.tensor.clip", doc="pt.clip(x, lo, hi) = min(max(x, lo), hi)")
def _clip(ex, path, args, kwargs, node, fn):
    x, lo, hi = args
    xv = x.fields["value"] if isinstance(x, Obj) and "value" in x.fields else x
    return z_min(z_max(to_z3(xv, "real"), to_z3(lo, "real")), to_z3(hi, "real"))


@model("pymc.distributions.dist_math.check_parameters", "thejoker.distributions.check_parameters", doc="returns the value (raises when the parameter condition fails)")
def _check_parameters(ex, path, args, kwargs, node, fn):
    path.assume(to_z3(args[1]))
    return args[0]


LIB = {"pytensor.tensor.as_tensor_variable": _as_tensor, "pytensor.tensor.switch": _switch, "pytensor.tensor.clip": _clip,
       "pymc.distributions.dist_math.check_parameters": _check_parameters, "thejoker.distributions.check_parameters": _check_parameters,
       "check_parameters": _check_parameters, "numpy.inf": None}
_L["numpy.inf"] = -NEG_INF          # +inf as the negation of a distinguished real (only -np.inf is used)
LIB["numpy.inf"] = -NEG_INF


@model("ln_")
def _ln(ex, path, args, kwargs, node, fn):
    return LOG(to_z3(args[0], "real"))


@model("neg_inf_")
def _neg_inf(ex, path, args, kwargs, node, fn):
    return NEG_INF


LIB.update({"ln_": _ln, "neg_inf_": _neg_inf})

# ---- UniformLogRV.rng_fn ------------------------------------------------------------------------------------------------------------------
rng_fn = Contract(
    D + "UniformLogRV.rng_fn", PROPERTY,
    params={"cls": "opaque", "rng": lambda ex, path, n: make_rng("rng"), "a": "real", "b": "real", "size": "nat"},
    requires=["0 < a and a < b"],
    ensures={
        "one-uniform-draw-on-the-handed-generator": "n_rng_events() == 1 and rng_event(0).kind == 'uniform' and rng_event(0).gen == 'rng' and rng_event(0).size == size",
        "draw-is-the-inverse-cdf-of-the-uniform": "all((ln_(result[k]) - ln_(a)) / (ln_(b) - ln_(a)) == rng_event(0).value[k] for k in range(size))",
    })

# ---- UniformLog.logp --------------------------------------------------------------------------------------------------------------------------
logp = Contract(
    D + "UniformLog.logp", PROPERTY, params={"value": "real", "a": "real", "b": "real"},
    requires=["0 < a and a < b"],
    ensures={
        "log-density-inside-the-support": "implies(a <= value and value <= b, result == -ln_(value) - ln_(ln_(b) - ln_(a)))",
        "minus-infinity-outside-the-support": "implies(value < a or value > b, result == neg_inf_())",
    })


# ---- FixedCompanionMass.dist -------------------------------------------------------------------------------------------------------------------
def tensor(name, unit=None):
    def build(ex, path, _n):
        v = z3.Real(f"{name}.value")
        f = {"value": v, "name": name}
        if unit is not None:
            u_ = A.sym_unit(f"{name}.unit", unit)
            path.assume(*u_.sym_facts)
            f["__tensor_unit__"] = u_
        o = Obj("TensorVariable", f, ident=name)
        o.fields["__arith__"] = _tensor_arith
        o.fields["__hasattr__"] = lambda a, f=f: a in f
        return o
    return build


def _tensor_arith(op, a, b, ctx, path, line):
    av = a.fields["value"] if isinstance(a, Obj) and a.cls == "TensorVariable" else a
    bv = b.fields["value"] if isinstance(b, Obj) and b.cls == "TensorVariable" else b
    return arith(op, av, bv, ctx, path, line)


def q_param(name, dim):
    def build(ex, path, _n):
        u_ = A.sym_unit(f"{name}.unit", dim)
        path.assume(*u_.sym_facts)
        return A.quantity(z3.Real(f"{name}.value"), u_)
    return build


@model("super", doc="super().dist(mu=..., sigma=...): pymc Normal.dist - a Normal with that mean and standard deviation (assumed)")
def _super(ex, path, args, kwargs, node, fn):
    return Obj("super", {})


@model("super.dist")
def _super_dist(ex, path, args, kwargs, node, fn):
    path.ghost.setdefault("events", []).append({"kind": "call", "name": "super().dist", "args": list(args[1:]), "kwargs": dict(kwargs), "line": node.lineno})
    return Obj("dist", dict(kwargs))


LIB.update({"super": _super, "super.dist": _super_dist})
SPEED = (-1, 1, 0)
TIME = (1, 0, 0)
fcm = Contract(
    D + "FixedCompanionMass.dist", PROPERTY,
    params={"cls": "opaque", "P": tensor("P", TIME), "e": tensor("e"), "sigma_K0": q_param("sigma_K0", SPEED), "P0": q_param("P0", TIME),
            "mu": ("const", 0), "max_K": q_param("max_K", SPEED), "K_unit": "none", "args": lambda ex, path, n: PyList([], None, True),
            "kwargs": lambda ex, path, n: PyDict()},
    requires=["P.value > 0", "P0.value > 0", "sigma_K0.value > 0", "max_K.value > 0", "0 <= e.value and e.value < 1"],
    defs={"P0u": ([], "P0.value * P0.unit.scale / P.__tensor_unit__.scale"),            # P0 expressed in P's unit
          "maxKu": ([], "max_K.value * max_K.unit.scale / sigma_K0.unit.scale")},         # max_K expressed in sigma_K0's unit
    ensures={
        "variance-rule-with-cap": "result.sigma * result.sigma == min(sigma_K0.value * sigma_K0.value * pow_(P.value / P0u(), -2 / 3) / (1 - e.value * e.value), maxKu() * maxKu())",
        "sigma-non-negative": "result.sigma >= 0",
        "mean-passed-through": "result.mu == 0",
        "constants-kept-for-the-kernel": "result._sigma_K0 is sigma_K0 and result._P0.value * result._P0.unit.scale == P0.value * P0.unit.scale and "
                                         "result._P0.unit.scale == P.__tensor_unit__.scale and result._max_K.value * result._max_K.unit.scale == max_K.value * max_K.unit.scale",
    })


@model("pow_")
def _pow_spec(ex, path, args, kwargs, node, fn):
    return POW(to_z3(args[0], "real"), to_z3(args[1], "real"))


LIB["pow_"] = _pow_spec

# ---- Kipping (2013) Beta parameters: literal obligations ------------------------------------------------------------------------------------
KIPPING = {"Kipping13Long": ("1.12", "3.09"), "Kipping13Short": ("0.697", "3.27"), "Kipping13Global": ("0.867", "3.03")}


@model("super_call_kw")
def _super_kw(ex, path, args, kwargs, node, fn):
    ev = [e for e in path.ghost.get("events", []) if e["name"] == "super().dist"]
    if len(ev) != 1:
        raise Unsupported("expected exactly one super().dist call")
    return to_z3(ev[0]["kwargs"][args[0]], "real")


LIB["super_call_kw"] = _super_kw
kipping = []
for cls_, (al, be) in KIPPING.items():
    c = Contract(D + f"{cls_}.dist", PROPERTY, params={"cls": "opaque", "args": lambda ex, path, n: PyList([], None, True), "kwargs": lambda ex, path, n: PyDict()},
                 ensures={"published-beta-parameters": f"super_call_kw('alpha') * 1000 == {int(round(float(al) * 1000))} and super_call_kw('beta') * 1000 == {int(round(float(be) * 1000))}"})
    kipping.append(c)

CONTRACTS = [rng_fn, logp, fcm] + kipping
CALLEES = {}
LEMMAS = ["UniformLog.lean", "Axioms.lean"]
ASSUMPTIONS = ["pm.draw draws from the declared distributions; pymc's built-in Normal / Beta / angle densities", "pt.* elementwise ops are the real functions of the same name",
               "F'(x) = 1/(x ln(b/a)) and the support/inverse-CDF facts are proved in lemmas/UniformLog.lean; exp/log/pow/sqrt facts used as axioms are in lemmas/Axioms.lean"]
NOT_DECIDED = ["draws lie inside [a, b): this is lemmas/UniformLog.lean uniformlog_draw_in_support applied to the proved inverse-CDF form (not a z3 obligation)",
               "that numpy's uniform draws are uniform (then rng_fn's output has the log-uniform law by the inverse-CDF theorem)",
               "pymc's own logp of Normal/Beta/angle priors",
               "JokerPrior.sample's ln_prior clause is proved RELATIVE to the library contract `pm.logp(var, values).eval()` = var's log-density at values; pymc "
               "re-draws unbound random parents on .eval(), so for the default K prior (whose scale depends on P and e) the value is not the density at the "
               "row's own P, e: that is the open finding D15, shown by the twin - the contract pins down which terms are summed and where they are stored"]


# ---- wiring of the default priors (effect analysis: which constructor, with which arguments, gets which unit) ------------------------------
PR = "thejoker.prior."
ANGLE = (0, 0, 1)


def _with_unit_events(path):
    return [e for e in path.ghost.get("events", []) if e["name"].endswith("with_unit") and not e.get("attempted")]


@model("wired", doc="spec: the with_unit(<constructor call>, unit) event that produced out_pars[name]: (constructor name, its arguments, unit)")
def _wired(ex, path, args, kwargs, node, fn):
    name = args[0]
    for e in _with_unit_events(path):
        inner = getattr(e["args"][0], "from_call", None)
        if inner is None:
            continue
        if inner["args"] and inner["args"][0] == name:
            return Obj("wiring", {"ctor": inner["name"].split(".")[-1], "args": PyList(list(inner["args"]), None, True), "kwargs": PyDict(list(inner["kwargs"].items())),
                                  "unit": e["args"][1], "inner": inner})
    raise Unsupported(f"no with_unit(<dist>('{name}', ...), unit) event on this path")


@model("inner_call", doc="spec: (name, args) of the call that produced an opaque value")
def _inner_call(ex, path, args, kwargs, node, fn):
    ev = getattr(args[0], "from_call", None)
    if ev is None:
        raise Unsupported("value was not produced by a recorded call")
    return Obj("call", {"name": ev["name"].split(".")[-1], "args": PyList(list(ev["args"]), None, True)})


LIB.update({"wired": _wired, "inner_call": _inner_call})

nonlinear = Contract(
    PR + "default_nonlinear_prior", PROPERTY,
    params={"P_min": q_param("P_min", TIME), "P_max": q_param("P_max", TIME), "s": q_param("s", SPEED), "model": "opaque", "pars": "none"},
    ensures={
        "eccentricity-is-the-global-Kipping-beta-dimensionless": "wired('e').ctor == 'Kipping13Global' and wired('e').unit.dim == (0, 0, 0) and wired('e').unit.scale == 1",
        "angles-uniform-in-radians": "wired('omega').ctor == 'angle' and wired('omega').unit.dim == (0, 0, 1) and wired('omega').unit.scale == 1 and "
                                     "wired('M0').ctor == 'angle' and wired('M0').unit.dim == (0, 0, 1) and wired('M0').unit.scale == 1",
        "jitter-is-the-given-constant-in-its-unit": "wired('s').ctor == 'Deterministic' and inner_call(wired('s').args[1]).name == 'constant' and "
                                                    "inner_call(wired('s').args[1]).args[0] == s.value and wired('s').unit is s.unit",
        "period-is-log-uniform-between-the-bounds-in-P_min-unit": "wired('P').ctor == 'UniformLog' and wired('P').args[1] == P_min.value and "
                                                                  "wired('P').args[2] * P_min.unit.scale == P_max.value * P_max.unit.scale and wired('P').unit is P_min.unit",
        "returns-exactly-the-five-nonlinear-parameters": "list(result.keys()) == ['e', 'omega', 'M0', 's', 'P']",
    })
nonlinear.cfg_mode = True


def sigma_v_param(n):
    def build(ex, path, name):
        d = PyDict()
        for i in range(n):
            u_ = A.sym_unit(f"sigma_v{i}.unit", (-1 - i, 1, 0))
            path.assume(*u_.sym_facts)
            d = d.set(f"v{i}", A.quantity(z3.Real(f"sigma_v{i}.value"), u_))
        return d
    return build


linear = [Contract(
    PR + "default_linear_prior", PROPERTY,
    params={"sigma_K0": q_param("sigma_K0", SPEED), "P0": q_param("P0", TIME), "sigma_v": sigma_v_param(pt_), "poly_trend": ("const", pt_),
            "model": "opaque", "pars": "none"},
    cases=[{"_name": f"poly_trend={pt_}"}],
    ensures={
        "K-is-the-fixed-companion-mass-normal-in-sigma_K0-unit": "wired('K').ctor == 'FixedCompanionMass' and wired('K').kwargs['sigma_K0'] is sigma_K0 and "
                                                                 "wired('K').kwargs['P0'] is P0 and wired('K').unit is sigma_K0.unit",
        **{f"v{i}-is-a-zero-mean-normal-with-the-given-sigma-and-unit": f"wired('v{i}').ctor == 'Normal' and wired('v{i}').args[1] == 0 and "
                                                                         f"wired('v{i}').args[2] == sigma_v['v{i}'].value and wired('v{i}').unit is sigma_v['v{i}'].unit"
           for i in range(pt_)},
        "returns-K-and-the-trend-terms": f"list(result.keys()) == {['K'] + [f'v{i}' for i in range(pt_)]!r}",
    }) for pt_ in (1, 3)]


def sigma_v_list_param(n):
    """the trend sigmas as a plain list of quantities - each in a unit of its own choosing (of the right dimension)"""
    def build(ex, path, name):
        items = []
        for i in range(n):
            u_ = A.sym_unit(f"sigma_v{i}.unit", (-1 - i, 1, 0))
            path.assume(*u_.sym_facts)
            items.append(A.quantity(z3.Real(f"sigma_v{i}.value"), u_))
        return PyList(items, None, True)
    return build


linear += [Contract(
    PR + "default_linear_prior", PROPERTY,
    params={"sigma_K0": q_param("sigma_K0", SPEED), "P0": q_param("P0", TIME), "sigma_v": sigma_v_list_param(pt_), "poly_trend": ("const", pt_),
            "model": "opaque", "pars": "none"},
    cases=[{"_name": f"poly_trend={pt_},sigma_v-as-a-list"}],
    ensures={
        **{f"v{i}-is-a-zero-mean-normal-with-the-given-sigma-and-unit": f"wired('v{i}').ctor == 'Normal' and wired('v{i}').args[1] == 0 and "
                                                                         f"wired('v{i}').args[2] == sigma_v[{i}].value and wired('v{i}').unit is sigma_v[{i}].unit"
           for i in range(pt_)},
        "returns-K-and-the-trend-terms": f"list(result.keys()) == {['K'] + [f'v{i}' for i in range(pt_)]!r}",
    }) for pt_ in (2, 3)]
for _c in linear:
    _c.cfg_mode = True
CONTRACTS += [nonlinear] + linear
HOOKS = {"inline": {"thejoker.prior_helpers.validate_poly_trend", "thejoker.prior_helpers.validate_sigma_v"}}


# ---- JokerPrior.sample: which draw lands in which column with which unit, ln_prior = sum over the drawn parameters of their log-density at the
# row's own value, every draw on the handed generator.  pymc's draw / logp are library models (assumed): pm.draw(vars, draws, random_seed)
# returns one array per variable, in the order of `vars`; pm.logp(var, values).eval() is that variable's log-density evaluated at `values`.
from jvc.values import PyDict as _PyDict, PyList as _PyList   # noqa: E402
from . import c17 as _C17      # noqa: E402
from .common import trace as _trace      # noqa: E402

_LOGP = {}


def _logp_fn(name):
    if name not in _LOGP:
        _LOGP[name] = z3.Function(f"logp_{name}", z3.RealSort(), z3.RealSort())
    return _LOGP[name]


@model("pymc.draw", "pm.draw", doc="pm.draw(vars, draws=n, random_seed=g): one array of n draws per variable, in the order of vars, made on generator g only")
def _pm_draw(ex, path, args, kwargs, node, fn):
    vars_ = args[0]
    n = kwargs.get("draws")
    g = kwargs.get("random_seed")
    out = []
    for v in vars_.items:
        a = fresh_arr(f"drawn_{v.fields['name']}", 1, "real", [n])
        a.drawn_for = v.fields["name"]
        out.append(a)
    _trace(path).append({"gen": g.ident if isinstance(g, Obj) else "<not a generator>", "kind": "pm.draw", "size": n, "value": None, "line": node.lineno})
    path.ghost["drawn"] = {v.fields["name"]: a for v, a in zip(vars_.items, out)}
    return _PyList(out, None, True)


@model("pymc.logp", "pm.logp", doc="pm.logp(var, values): the log-density graph of var's declared distribution at values; .eval() evaluates it elementwise")
def _pm_logp(ex, path, args, kwargs, node, fn):
    var, vals = args[0], args[1]
    f = _logp_fn(var.fields["name"])
    arr = Arr(vals.shape, lambda k, f=f, vals=vals: f(vals.at(k)), "real", f"logp_{var.fields['name']}")
    return Obj("LogpGraph", {"value": arr})


@model("LogpGraph.eval")
def _logp_eval(ex, path, args, kwargs, node, fn):
    return args[0].fields["value"]


_prev_sum = _L["numpy.sum"]


@model("numpy.sum", doc="np.sum(list of equally long arrays, axis=0): their elementwise sum")
def _sum_axis0(ex, path, args, kwargs, node, fn):
    a = args[0]
    if isinstance(a, _PyList) and a.tail is None and kwargs.get("axis") == 0 and a.items and all(isinstance(x, Arr) and x.ndim == 1 for x in a.items):
        items = list(a.items)
        return Arr(items[0].shape, lambda k, items=items: z3.Sum([to_z3(x.at(k), "real") for x in items]), "real", "sum_axis0")
    return _prev_sum(ex, path, args, kwargs, node, fn)


@model("logp_of_", doc="spec: log-density of the named parameter's declared distribution at x")
def _logp_spec(ex, path, args, kwargs, node, fn):
    return _logp_fn(args[0])(to_z3(args[1], "real"))


@model("drawn_", doc="spec: the array pm.draw returned for the named parameter")
def _drawn_spec(ex, path, args, kwargs, node, fn):
    return path.ghost["drawn"][args[0]]


def prior_self(poly_trend, n_offsets):
    def build(ex, path, name):
        nl = ["P", "e", "omega", "M0", "s"]
        lin = ["K"] + [f"v{i}" for i in range(poly_trend)]
        off = [f"dv0_{i}" for i in range(1, n_offsets + 1)]
        dims = {"P": (1, 0, 0), "e": (0, 0, 0), "omega": (0, 0, 1), "M0": (0, 0, 1), "s": (-1, 1, 0), "K": (-1, 1, 0)}
        pars = _PyDict()
        for n_ in nl + lin + off:
            dim = dims.get(n_, (-1 - int(n_[1:]), 1, 0) if n_.startswith("v") else (-1, 1, 0))
            u_ = A.sym_unit(f"{n_}_unit", dim)
            path.assume(*getattr(u_, "sym_facts", []))
            v = Obj("TensorVariable", {"name": n_, "__tensor_unit__": u_}, ident=f"var_{n_}")
            v.fields["__hasattr__"] = lambda a: a in ("__tensor_unit__", "name")
            pars = pars.set(n_, v)
        mk = lambda names: _PyDict([(n_, None) for n_ in names])
        return Obj("JokerPrior", {"pars": pars, "_nonlinear_equiv_units": mk(nl), "_linear_equiv_units": mk(lin), "_v0_offsets_equiv_units": mk(off),
                                  "par_names": _PyList(nl + lin + off), "poly_trend": poly_trend, "n_offsets": n_offsets,
                                  "__qualclass__": "thejoker.prior.JokerPrior"}, ident="self")
    return build


def _res_samples_ctor(ex, path, bound, node):
    o = _C17._res_js_ctor_any(ex, path, bound, node)
    valid = _PyDict([(n_, None) for n_ in ["P", "e", "omega", "M0", "s", "K", "v0", "v1", "v2", "dv0_1", "dv0_2", "ln_prior", "ln_likelihood"]])
    return o.with_field("_valid_units", valid)


_samples_ctor = Contract("thejoker.samples.JokerSamples.__init__", PROPERTY, ensures={}, result=_res_samples_ctor)


def _sample_contracts():
    out = []
    for pt_, no in ((1, 0), (2, 1)):
        for gl in (False, True):
            for lp in (False, True):
                names = ["P", "e", "omega", "M0", "s"] + ((["K"] + [f"v{i}" for i in range(pt_)] + [f"dv0_{i}" for i in range(1, no + 1)]) if gl else [])
                ens = {"columns-are-the-drawn-parameters-in-order": "list(result.tbl.colnames) == " + repr(names + (["ln_prior"] if lp else [])),
                       "one-joint-draw-on-the-handed-generator-and-no-other": "n_rng_events() == 1 and rng_event(0).kind == 'pm.draw' and rng_event(0).gen == 'rng' "
                                                                              "and rng_event(0).size == size",
                       "metadata": f"result.tbl.meta['poly_trend'] == {pt_} and result.tbl.meta['n_offsets'] == {no}"}
                for n_ in names:
                    ens[f"column-{n_}-holds-its-own-draws-with-its-declared-unit"] = (
                        f"result.tbl['{n_}'].unit is self.pars['{n_}'].__tensor_unit__ and "
                        f"all(result.tbl['{n_}'].value[i] == drawn_('{n_}')[i] for i in range(size))")
                if lp:
                    ens["ln_prior-is-the-sum-of-the-log-densities-at-the-row's-own-values"] = (
                        "all(result.tbl['ln_prior'].value[i] == " + " + ".join(f"logp_of_('{n_}', drawn_('{n_}')[i])" for n_ in names) + " for i in range(size))")
                c = Contract("thejoker.prior.JokerPrior.sample", PROPERTY,
                             params={"self": prior_self(pt_, no), "size": "pos", "rng": lambda ex, path, n: make_rng("rng"), "dtype": "none",
                                     "kwargs": lambda ex, path, n: _PyDict()},
                             cases=[{"_name": f"poly_trend={pt_},n_offsets={no},generate_linear={gl},return_logprobs={lp}",
                                     "generate_linear": "true" if gl else "false", "return_logprobs": "true" if lp else "false"}],
                             ensures=ens)
                c.callees = {"thejoker.samples.JokerSamples": _samples_ctor, "thejoker.samples.JokerSamples.__init__": _samples_ctor,
                             "JokerSamples.__setitem__": _C17.js_setitem, "thejoker.samples.JokerSamples.__setitem__": _C17.js_setitem}
                out.append(c)
    return out


LIB.update({"pymc.draw": _pm_draw, "pm.draw": _pm_draw, "pymc.logp": _pm_logp, "pm.logp": _pm_logp, "LogpGraph.eval": _logp_eval, "numpy.sum": _sum_axis0,
            "logp_of_": _logp_spec, "drawn_": _drawn_spec})
sample = _sample_contracts()
CONTRACTS += sample
