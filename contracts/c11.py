"""C11 - MCMC continuation targets the same model and posterior as the sampler.

Decided here:
 (a) KeplerianOrbit._get_true_anomaly / get_radial_velocity(t, K): mean anomaly M = (t - t0 - tref) n and
     RV = K (cos w cos f - sin w sin f + e cos w)  (= K (cos(w + f) + e cos w): lemmas/Axioms.lean ax_cos_add) with (sin f, cos f) the
     true anomaly of (M, e) - the same form as the kernel's twobody column;
 (b) setup_mcmc (effect analysis over the pymc calls it makes, parameters as symbolic tensors with units): t_peri = P[day] M0[rad] / 2 pi,
     KeplerianOrbit(period = P[day], ecc = e, omega = omega[rad], t_periastron = t_peri), so that (x - t_peri) 2 pi / P = 2 pi (t - t_ref)/P - M0;
     the trend is M . (v0, offsets, v1, ...) in the data unit per day^j with the column order of the design matrix; the observed node is
     Normal(model_rv, sqrt(err^2 + s^2), observed = y); the ln_likelihood diagnostic uses the same sigma; mcmc_init is the chosen sample in
     the prior's units (the median-period sample when several are given).
Not decided: what model.logp() is as a function of the physical parameters (pymc transforms); KeplerianOrbit.__init__ itself."""
import ast

import z3

from jvc.lib import LIB as _L, model
from jvc.symexec import COS, SIN, SQRT, PI, Contract, arith, b_and, q_forall, to_z3
from jvc.values import Arr, NameRef, Obj, Opaque, PyDict, PyList, Unsupported, fresh_arr, fresh_int, fresh_name, fresh_real

from . import astromodel as A
from . import common  # noqa: F401
from .c08 import trend_callee

PROPERTY = "C11"
KO = "thejoker._keplerian_orbit.KeplerianOrbit."
SINF = z3.Function("sin_true_anomaly", z3.RealSort(), z3.RealSort(), z3.RealSort())
COSF = z3.Function("cos_true_anomaly", z3.RealSort(), z3.RealSort(), z3.RealSort())


def AXIOMS(c):
    x = z3.Real("x!ax")
    return [z3.ForAll([x], z3.Implies(x >= 0, z3.And(SQRT(x) >= 0, SQRT(x) * SQRT(x) == x)), patterns=[SQRT(x)]), PI > 3, PI < 4]


# ---- (a) the orbit object's RV --------------------------------------------------------------------------------------------------------------------
def orbit_self(ex, path, name):
    return Obj("KeplerianOrbit", {"ecc": z3.Real("ecc"), "cos_omega": z3.Real("cos_omega"), "sin_omega": z3.Real("sin_omega"), "tref": z3.Real("tref"),
                                  "t0": z3.Real("t0"), "n": z3.Real("n")}, ident="self")


def times_param(ex, path, name):
    a = fresh_arr("t", 1, "real")
    path.assume(a.shape[0] >= 0)
    return a


@model("pytensor.tensor.shape_padright", "pytensor.tensor.squeeze", "pytensor.tensor.zeros_like", doc="shape-only operations (values unchanged; zeros_like = 0)")
def _shape_ops(ex, path, args, kwargs, node, fn):
    if fn.dotted.endswith("zeros_like"):
        a = args[0]
        return Arr(a.shape, lambda *k: z3.RealVal(0), "real")
    return args[0]


@model("exoplanet_core.pymc.ops.kepler", doc="exoplanet-core: kepler(M, e) -> (sin f, cos f) of the true anomaly f of mean anomaly M and eccentricity e")
def _kepler(ex, path, args, kwargs, node, fn):
    M, e = args
    s_ = Arr(M.shape, lambda *k: SINF(M.at(*k), e.at(*k) if isinstance(e, Arr) else to_z3(e, "real")), "real", "sinf")
    c_ = Arr(M.shape, lambda *k: COSF(M.at(*k), e.at(*k) if isinstance(e, Arr) else to_z3(e, "real")), "real", "cosf")
    return PyList([s_, c_], None, True)


LIB = {"pytensor.tensor.shape_padright": _shape_ops, "pytensor.tensor.squeeze": _shape_ops, "pytensor.tensor.zeros_like": _shape_ops,
       "exoplanet_core.pymc.ops.kepler": _kepler}


@model("sinf_")
def _sinf(ex, path, args, kwargs, node, fn):
    return SINF(to_z3(args[0], "real"), to_z3(args[1], "real"))


@model("cosf_")
def _cosf(ex, path, args, kwargs, node, fn):
    return COSF(to_z3(args[0], "real"), to_z3(args[1], "real"))


LIB.update({"sinf_": _sinf, "cosf_": _cosf})


def _res_warp(ex, path, bound, node):
    t, self = bound["t"], bound["self"]
    return Arr(t.shape, lambda *k: t.at(*k) - to_z3(self.fields["t0"], "real"), "real")


warp_callee = Contract(KO + "_warp_times", PROPERTY, ensures={}, result=_res_warp)
true_anomaly = Contract(
    KO + "_get_true_anomaly", PROPERTY, params={"self": orbit_self, "t": times_param, "_pad": "true"},
    defs={"M": (["k"], "(t[k] - self.t0 - self.tref) * self.n")},
    ensures={"true-anomaly-of-the-mean-anomaly-since-the-reference-time": "all(result[0][k] == sinf_(M(k), self.ecc) and result[1][k] == cosf_(M(k), self.ecc) for k in range(len(t)))"})


def _res_true_anomaly(ex, path, bound, node):
    t, self = bound["t"], bound["self"]
    f = self.fields

    def M(k):
        return (t.at(k) - to_z3(f["t0"], "real") - to_z3(f["tref"], "real")) * to_z3(f["n"], "real")
    return PyList([Arr(t.shape, lambda k: SINF(M(k), to_z3(f["ecc"], "real")), "real"), Arr(t.shape, lambda k: COSF(M(k), to_z3(f["ecc"], "real")), "real")], None, True)


true_anomaly_callee = Contract(KO + "_get_true_anomaly", PROPERTY, ensures={}, result=_res_true_anomaly)
get_rv = Contract(
    KO + "get_radial_velocity", PROPERTY, params={"self": orbit_self, "t": times_param, "K": "real", "output_units": "none"},
    defs={"M": (["k"], "(t[k] - self.t0 - self.tref) * self.n")},
    ensures={"lovis-fischer-form-with-the-given-K": "all(result[k] == K * (self.cos_omega * cosf_(M(k), self.ecc) - self.sin_omega * sinf_(M(k), self.ecc) "
                                                    "+ self.ecc * self.cos_omega) for k in range(len(t)))"})

def _res_get_rv(ex, path, bound, node):
    self, t, Kv = bound["self"], bound["t"], bound["K"]
    f = self.fields
    Kz = to_z3(Kv.fields["value"] if isinstance(Kv, Obj) else Kv, "real")

    def M(k):
        return (t.at(k) - to_z3(f["t0"], "real") - to_z3(f["tref"], "real")) * to_z3(f["n"], "real")
    e = to_z3(f["ecc"], "real")
    return Arr(t.shape, lambda k: Kz * (to_z3(f["cos_omega"], "real") * COSF(M(k), e) - to_z3(f["sin_omega"], "real") * SINF(M(k), e) + e * to_z3(f["cos_omega"], "real")),
               "real", "kepler_rv")


get_rv_callee = Contract(KO + "get_radial_velocity", PROPERTY, ensures={}, result=_res_get_rv)


# ---- (b) setup_mcmc: effect analysis ------------------------------------------------------------------------------------------------------------------
SPEED = (-1, 1, 0)
TIME = (1, 0, 0)
ANGLE = (0, 0, 1)


def tvar(name, dim):
    u_ = A.sym_unit(f"unit_{name}", dim)
    o = Obj("TensorVariable", {"value": z3.Real(f"{name}.value"), "name": name, "__tensor_unit__": u_}, ident=name)
    o.fields["__arith__"] = _tensor_arith
    o.fields["__hasattr__"] = lambda a, o=o: a in o.fields
    return o


def _tensor_arith(op, a, b, ctx, path, line):
    av = a.fields["value"] if isinstance(a, Obj) and a.cls == "TensorVariable" else a
    bv = b.fields["value"] if isinstance(b, Obj) and b.cls == "TensorVariable" else b
    return arith(op, av, bv, ctx, path, line)


def self_param(pt_, no):
    def build(ex, path, name):
        names = ["P", "e", "omega", "M0", "s", "K"] + [f"v{j}" for j in range(pt_)] + [f"dv0_{k}" for k in range(1, no + 1)]
        dims = {"P": TIME, "e": (0, 0, 0), "omega": ANGLE, "M0": ANGLE, "s": SPEED, "K": SPEED}
        pars = PyDict()
        for nm in names:
            d = dims.get(nm) or (SPEED if nm.startswith("dv0") else (-1 - int(nm[1:]), 1, 0))
            v = tvar(nm, d)
            path.assume(*v.fields["__tensor_unit__"].sym_facts)
            pars = pars.set(nm, v)
        path.assume(pars.vals["P"].fields["value"] > 0)
        prior = Obj("JokerPrior", {"pars": pars, "par_names": PyList(names), "poly_trend": pt_, "n_offsets": no})
        path.ghost["pars"] = pars
        return Obj("TheJoker", {"prior": prior, "rng": Opaque("rng")}, ident="self")
    return build


def samples_param(n_rows):
    def build(ex, path, name):
        o = Obj("JokerSamples", {"__len__": n_rows, "rowtag": "all"}, ident="joker_samples")
        o.fields["__getitem__"] = _sample_col
        return o
    return build


def _sample_col(ex, path, recv, key, node):
    # column `key` of the (one-row) sample as a Quantity in an arbitrary stored unit
    dim = path.ghost["pars"].vals[key].fields["__tensor_unit__"].fields["dim"]
    tag = recv.fields["rowtag"]
    u_ = A.unit(dim, z3.Real(f"stored_unit_{key}.scale"))
    path.assume(u_.fields["scale"] > 0)
    return A.quantity(z3.Real(f"{tag}.{key}"), u_)


def _res_median(ex, path, bound, node):
    o = Obj("JokerSamples", {"__len__": 1, "rowtag": "median_period_row"}, ident="median_period_row")
    o.fields["__getitem__"] = _sample_col
    return o


median_callee = Contract("thejoker.samples.JokerSamples.median_period", PROPERTY, ensures={}, result=_res_median)


def _res_vpd(ex, path, bound, node):
    nt = z3.Int("n_times")
    path.assume(nt >= 1)
    ru = A.sym_unit("rv_unit", SPEED)
    eu = A.sym_unit("err_unit", SPEED)
    path.assume(*ru.sym_facts, *eu.sym_facts)
    err = fresh_arr("rv_err", 1, "real", [nt])
    data = Obj("RVData", {"_t_bmjd": fresh_arr("t_bmjd", 1, "real", [nt]), "_t_ref_bmjd": z3.Real("t_ref_bmjd"), "rv": A.quantity(fresh_arr("rv", 1, "real", [nt]), ru),
                          "rv_err": A.quantity(err, eu), "__len__": nt}, ident="all_data")
    path.ghost["data"] = data
    return PyList([data, Opaque("ids"), Opaque("trend_M0")], None, True)


vpd_callee = Contract("thejoker.data_helpers.validate_prepare_data", PROPERTY, ensures={}, result=_res_vpd)


def _res_model(ex, path, bound, node):
    return Obj("pm.Model", {"named_vars": PyDict()}, ident="model")


validate_model_callee = Contract("thejoker.prior._validate_model", PROPERTY, ensures={}, result=_res_model)


def _event(path, name, args, kwargs, node):
    ev = {"kind": "call", "name": name, "args": list(args), "kwargs": dict(kwargs), "line": node.lineno}
    path.ghost.setdefault("events", []).append(ev)
    return ev


@model("pymc.Deterministic", doc="pm.Deterministic(name, expr): registers expr under that name in the model")
def _deterministic(ex, path, args, kwargs, node, fn):
    _event(path, "Deterministic", args, kwargs, node)
    m = path.env.get("model")
    if isinstance(m, Obj):
        m2 = m.with_field("named_vars", m.fields["named_vars"].set(args[0], args[1]))
        if args[0] not in ("logp",):          # a named variable never shadows a real method of pm.Model
            m2 = m2.with_field(args[0], args[1])
        path.env["model"] = m2
    return args[1]


@model("pymc.Normal", doc="pm.Normal(name, mu, sigma, observed=y): adds sum ln N(y | mu, sigma) to the model log-density (assumed)")
def _normal(ex, path, args, kwargs, node, fn):
    _event(path, "Normal", args, kwargs, node)
    return Opaque("obs")


@model("pymc.Normal.dist")
def _normal_dist(ex, path, args, kwargs, node, fn):
    _event(path, "Normal.dist", args, kwargs, node)
    return Obj("dist", {"mu": args[0], "sigma": args[1]})


@model("pymc.logp")
def _pm_logp(ex, path, args, kwargs, node, fn):
    o = Obj("logp_terms", {"dist": args[0], "value": args[1]})
    return o


@model("logp_terms.sum")
def _lt_sum(ex, path, args, kwargs, node, fn):
    return args[0]


@model("pm.Model.logp")
def _model_logp(ex, path, args, kwargs, node, fn):
    return Obj("model_logp", {"__arith__": lambda op, a, b, ctx, p_, line: Opaque("ln_prior_expr")})


@model("thejoker._keplerian_orbit.KeplerianOrbit", doc="(assumed) with period, ecc, omega, t_periastron given: n = 2 pi / period, tref = t_periastron - t0 = t_periastron, "
                                                     "cos_omega = cos(omega), sin_omega = sin(omega)")
def _korbit(ex, path, args, kwargs, node, fn):
    _event(path, "KeplerianOrbit", args, kwargs, node)

    def val(x):
        return to_z3(x.fields["value"] if isinstance(x, Obj) and "value" in x.fields else x, "real")
    per = val(kwargs["period"])
    om = val(kwargs["omega"])
    ecc = kwargs["ecc"]
    eccv = ecc.fields["value"] if isinstance(ecc, Obj) else to_z3(ecc, "real")
    return Obj("KeplerianOrbit", {"ecc": eccv, "cos_omega": COS(om), "sin_omega": SIN(om), "tref": val(kwargs["t_periastron"]), "t0": z3.RealVal(0),
                                  "n": 2 * PI / per})


@model("pytensor.tensor.stack")
def _pt_stack(ex, path, args, kwargs, node, fn):
    return args[0]


@model("pytensor.tensor.dot", doc="pt.dot(M, v)[k] = sum_c M[k, c] v[c]")
def _pt_dot(ex, path, args, kwargs, node, fn):
    M, v = args
    items = [to_z3(x.fields["value"] if isinstance(x, Obj) else x, "real") for x in v.items]
    return Arr([M.shape[0]], lambda k: z3.Sum([M.at(k, c) * items[c] for c in range(len(items))]) if items else z3.RealVal(0), "real", "trend")


@model("thejoker.samples_analysis.is_P_unimodal")
def _unimodal(ex, path, args, kwargs, node, fn):
    return z3.Bool("is_P_unimodal")


LIB.update({"pymc.Deterministic": _deterministic, "pymc.Normal": _normal, "pymc.Normal.dist": _normal_dist, "pymc.logp": _pm_logp, "logp_terms.sum": _lt_sum,
            "pm.Model.logp": _model_logp, "thejoker._keplerian_orbit.KeplerianOrbit": _korbit, "pytensor.tensor.stack": _pt_stack,
            "pytensor.tensor.dot": _pt_dot, "thejoker.samples_analysis.is_P_unimodal": _unimodal})


def _ev(path, name, k=0):
    evs = [e for e in path.ghost.get("events", []) if e["name"] == name]
    if len(evs) <= k:
        raise Unsupported(f"no {name} event #{k} on this path")
    return evs[k]


@model("ev_", doc="spec: the k-th recorded call of that pymc constructor")
def _ev_spec(ex, path, args, kwargs, node, fn):
    e = _ev(path, args[0], args[1] if len(args) > 1 else 0)
    return Obj("event", {"args": PyList(list(e["args"]), None, True), "kwargs": PyDict(list(e["kwargs"].items()))})


@model("det_", doc="spec: the expression registered by pm.Deterministic(name, ...)")
def _det(ex, path, args, kwargs, node, fn):
    for e in path.ghost.get("events", []):
        if e["name"] == "Deterministic" and e["args"][0] == args[0]:
            return e["args"][1]
    raise Unsupported(f"no Deterministic('{args[0]}') on this path")


@model("phys", doc="spec: physical value (value x unit scale) of a prior parameter")
def _phys(ex, path, args, kwargs, node, fn):
    v = path.ghost["pars"].vals[args[0]]
    return v.fields["value"] * to_z3(v.fields["__tensor_unit__"].fields["scale"], "real")


@model("conv_", doc="spec: a prior parameter expressed in a target unit, exactly as astropy converts it: value x (unit scale / target scale)")
def _conv(ex, path, args, kwargs, node, fn):
    v = path.ghost["pars"].vals[args[0]]
    target = args[1]
    tscale = target.fields["scale"] if isinstance(target, Obj) else target
    f = arith(ast.Div(), v.fields["__tensor_unit__"].fields["scale"], tscale)
    return arith(ast.Mult(), v.fields["value"], f)


@model("data_")
def _data(ex, path, args, kwargs, node, fn):
    return path.ghost["data"]


@model("cos_")
def _cos(ex, path, args, kwargs, node, fn):
    return COS(to_z3(args[0], "real"))


@model("sin_")
def _sin(ex, path, args, kwargs, node, fn):
    return SIN(to_z3(args[0], "real"))


@model("pi_")
def _pi(ex, path, args, kwargs, node, fn):
    return PI


LIB.update({"conv_": _conv, "ev_": _ev_spec, "det_": _det, "phys": _phys, "data_": _data, "cos_": _cos, "sin_": _sin, "pi_": _pi})


def mcmc_contracts():
    out = []
    for pt_, no in ((1, 0), (2, 1)):
        for nrows in (1, 5):
            RVU_ = "data_().rv.unit.scale"
            lin = ["v0"] + [f"dv0_{k}" for k in range(1, no + 1)] + [f"v{j}" for j in range(1, pt_)]
            trend_terms = []
            for c, nm in enumerate(lin):
                sc = f"({RVU_} / {86400 ** int(nm[1:])})" if (nm.startswith("v") and nm != "v0") else RVU_
                trend_terms.append(f"M[k, {c}] * conv_('{nm}', {sc})")
            Pday = "conv_('P', 86400)"
            Mk = f"(x[k] - 0 - det_('t_peri')) * (2 * pi_() / {Pday})"
            OM = "conv_('omega', 1)"
            rv_k = (f"conv_('K', {RVU_}) * (cos_({OM}) * cosf_({Mk}, self.prior.pars['e'].value) - sin_({OM}) * sinf_({Mk}, self.prior.pars['e'].value) "
                    f"+ self.prior.pars['e'].value * cos_({OM})) + (" + " + ".join(trend_terms) + ")")
            row = "joker_samples" if nrows == 1 else "median_period_row"
            ens = {
                "time-of-periastron-in-days": f"det_('t_peri') == {Pday} * conv_('M0', 1) / (2 * pi_())",
                "mean-anomaly-convention-matches-the-sampler": f"all({Mk} == 2 * pi_() * (data_()._t_bmjd[k] - data_()._t_ref_bmjd) / {Pday} - conv_('M0', 1) for k in range(len(data_())))",
                "orbit-built-from-period-in-days-and-omega-in-radians": f"ev_('KeplerianOrbit').kwargs['period'] == {Pday} and ev_('KeplerianOrbit').kwargs['omega'] == conv_('omega', 1) and "
                                                                        "ev_('KeplerianOrbit').kwargs['ecc'] is self.prior.pars['e'] and ev_('KeplerianOrbit').kwargs['t_periastron'] == det_('t_peri')",
                "model-rv-is-keplerian-plus-trend-in-the-data-unit": f"all(det_('model_rv')[k] == {rv_k} for k in range(len(data_())))",
                "observed-node-is-gaussian-around-the-model-with-jitter-in-quadrature": "ev_('Normal').args[0] == 'obs' and ev_('Normal').kwargs['mu'] is det_('model_rv') and ev_('Normal').kwargs['observed'] is y and "
                                                                                         f"all(ev_('Normal').kwargs['sigma'][k] * ev_('Normal').kwargs['sigma'][k] == (data_().rv_err.value[k] * (data_().rv_err.unit.scale / {RVU_})) * (data_().rv_err.value[k] * (data_().rv_err.unit.scale / {RVU_})) + "
                                                                                         f"conv_('s', {RVU_}) * conv_('s', {RVU_}) and ev_('Normal').kwargs['sigma'][k] >= 0 for k in range(len(data_())))",
                "ln_likelihood-diagnostic-uses-the-same-gaussian": "ev_('Normal.dist').args[0] is det_('model_rv') and ev_('Normal.dist').args[1] is ev_('Normal').kwargs['sigma']",
                "initial-point-is-the-chosen-sample-in-prior-units": " and ".join(
                    f"result['{nm}'] * self.prior.pars['{nm}'].__tensor_unit__.scale == value_of('{row}', '{nm}') * stored_scale('{nm}')"
                    for nm in ["P", "e", "omega", "M0", "s", "K"] + lin),
            }
            c = Contract("thejoker.thejoker.TheJoker.setup_mcmc", PROPERTY,
                         params={"self": self_param(pt_, no), "data": "opaque", "joker_samples": samples_param(nrows), "model": "opaque", "custom_func": "none"},
                         cases=[{"_name": f"poly_trend={pt_},n_offsets={no},{'one-sample' if nrows == 1 else 'several-samples'}"}], ensures=ens)
            c.cfg_mode = True
            out.append(c)
    return out


@model("value_of")
def _value_of(ex, path, args, kwargs, node, fn):
    return z3.Real(f"{'all' if args[0] == 'joker_samples' else args[0]}.{args[1]}")


@model("stored_scale")
def _stored_scale(ex, path, args, kwargs, node, fn):
    return z3.Real(f"stored_unit_{args[0]}.scale")


LIB.update({"value_of": _value_of, "stored_scale": _stored_scale})
mcmc = mcmc_contracts()
for _c in (true_anomaly, get_rv):
    _c.callees = {KO + "_warp_times": warp_callee, "KeplerianOrbit._warp_times": warp_callee, KO + "_get_true_anomaly": true_anomaly_callee,
                  "KeplerianOrbit._get_true_anomaly": true_anomaly_callee}
CONTRACTS = [true_anomaly, get_rv] + mcmc
CALLEES = {KO + "_warp_times": warp_callee, "KeplerianOrbit._warp_times": warp_callee, KO + "_get_true_anomaly": true_anomaly_callee,
           "KeplerianOrbit._get_true_anomaly": true_anomaly_callee, "thejoker.data_helpers.validate_prepare_data": vpd_callee,
           "thejoker.prior._validate_model": validate_model_callee, "thejoker.samples.JokerSamples.median_period": median_callee,
           "JokerSamples.median_period": median_callee, "thejoker.likelihood_helpers.get_trend_design_matrix": trend_callee,
           KO + "get_radial_velocity": get_rv_callee, "KeplerianOrbit.get_radial_velocity": get_rv_callee}
HOOKS = {"inline": {"thejoker.units.to_unit", "thejoker.units.has_unit", "thejoker.prior_helpers.validate_n_offsets", "thejoker.prior_helpers.validate_poly_trend"}}
LEMMAS = ["Axioms.lean"]
ASSUMPTIONS = ["KeplerianOrbit.__init__ under the argument pattern (period, ecc, omega, t_periastron): n = 2 pi/period, tref = t_periastron, cos/sin of omega (exercised natively by the twin)",
               "exoplanet-core ops.kepler returns (sin f, cos f) of the true anomaly - the same function as twobody's solver up to tolerance",
               "pm.Normal(..., observed=y) adds sum ln N(y | mu, sigma); pm.Deterministic registers an expression"]
NOT_DECIDED = ["model.logp() as a function of the physical parameters (pymc transforms / Jacobians): 'log-density up to a constant' is assumed"]

# how the priors are declared (which distribution, with which scale, tagged with which unit): default_linear_prior / default_nonlinear_prior /
# FixedCompanionMass.dist, contracts stated in c09.py - the MCMC model depends on them
from . import c09 as _C09   # noqa: E402
from .chain import clone as _clone9   # noqa: E402
CONTRACTS += [_clone9(_c, callees=getattr(_c, "callees", None) or _C09.CALLEES, lib=_C09.LIB, hooks=_C09.HOOKS, home="c09") for _c in ([_C09.fcm])]


def EXTRA():
    from . import chain as _CHX
    return _CHX.frame_effects(PROPERTY)
