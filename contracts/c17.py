"""C17 - sample-table operations preserve the physical orbit and its metadata: wrap_K, get_time_with_phase / get_t0,
pack / unpack, and metadata flow through indexing, copy, mean/std, median_period."""
import z3

from jvc.lib import LIB as _L, model
from jvc.symexec import Contract, PI, b_and, q_forall, to_z3
from jvc.values import Arr, NameRef, Obj, Opaque, PyDict, PyList, SliceV, Unsupported, fresh_arr, fresh_int, fresh_name, fresh_real

from . import astromodel as A
from . import common  # noqa: F401
from . import tablemodel as T

PROPERTY = "C17"
S = "thejoker.samples.JokerSamples."
SPEED = (-1, 1, 0)
ANGLE = (0, 0, 1)
TIME = (1, 0, 0)


def _meta():
    m = PyDict()
    m = m.set("t_ref", A.time_obj(z3.Real("t_ref_bmjd")))
    m = m.set("poly_trend", z3.Int("poly_trend"))
    m = m.set("n_offsets", z3.Int("n_offsets"))
    return m


def history_cache():
    """self._cache after an ARBITRARY call history (the property quantifies over histories): any key may or may not be present.  A present
    'orbit' entry is a KeplerOrbit template whose elements are arbitrary (get_orbit overwrites every one of them); any other present key holds an
    arbitrary, unknown value.  Entries written during the call are known."""
    memo_has, memo_val = {}, {}

    def mk(known):
        o = Obj("dict-after-any-history", {"known": known})

        def contains(item, o=o):
            if item in o.fields["known"].vals:
                return True
            if item not in memo_has:
                memo_has[item] = z3.Bool(f"cache_has_{item}")
            return memo_has[item]

        def getitem(ex, path, recv, key, node):
            kn = recv.fields["known"]
            if key in kn.vals:
                return kn.vals[key]
            if key not in memo_val:
                memo_val[key] = Obj("KeplerOrbit", {"elements": Obj("KeplerElements", {})}) if key == "orbit" else Opaque(f"stale-cache-entry:{key}")
            return memo_val[key]

        def setitem(ex, path, recv, key, value, node):
            return mk(recv.fields["known"].set(key, value))
        o.fields.update({"__contains__": contains, "__getitem__": getitem, "__setitem__": setitem})
        return o
    return mk(PyDict())


def samples_self(with_linear=True, extra_cols=()):
    def build(ex, path, name):
        Pu = A.sym_unit("P_unit", TIME)
        Ku = A.sym_unit("K_unit", SPEED)
        om_u = A.sym_unit("omega_unit", ANGLE)
        M0_u = A.sym_unit("M0_unit", ANGLE)
        su = A.sym_unit("s_unit", SPEED)
        for u_ in (Pu, Ku, om_u, M0_u, su):
            path.assume(*u_.sym_facts)
        cols = [("P", Pu), ("e", A.U_ONE), ("omega", om_u), ("M0", M0_u), ("s", su)]
        if with_linear:
            cols += [("K", Ku), ("v0", A.sym_unit("v0_unit", SPEED))]
            path.assume(*cols[-1][1].sym_facts)
        n = z3.Int("n_samples")
        path.assume(n >= 1)
        tbl = T.samples_table(cols, n, _meta())
        k = z3.Int(fresh_name("k"))
        path.assume(q_forall([k], b_and(0 <= k, k < n), tbl.fields["cols"].vals["P"].fields["value"].at(k) != 0))
        o = Obj("JokerSamples", {"tbl": tbl, "_cache": history_cache(), "__qualclass__": "thejoker.samples.JokerSamples", "cls_name": "JokerSamples"},
                ident="self")
        return o
    return build


# properties / small methods of the class used inside the verified methods, as callees
def _prop(name, fn_):
    c = Contract(S + name, PROPERTY, ensures={}, result=fn_)
    c.is_property = True
    return c


t_ref_prop = _prop("t_ref", lambda ex, path, bound, node: bound["self"].fields["tbl"].fields["meta"].vals["t_ref"])
par_names_prop = _prop("par_names", lambda ex, path, bound, node: bound["self"].fields["tbl"].fields["colnames"])
poly_trend_prop = _prop("poly_trend", lambda ex, path, bound, node: bound["self"].fields["tbl"].fields["meta"].vals["poly_trend"])
n_offsets_prop = _prop("n_offsets", lambda ex, path, bound, node: bound["self"].fields["tbl"].fields["meta"].vals["n_offsets"])


def _res_getitem(ex, path, bound, node):
    self, key = bound["self"], bound["key"]
    if isinstance(key, str):
        return T._tbl_getitem(ex, path, self.fields["tbl"], key, node)
    raise Unsupported("JokerSamples.__getitem__ callee: non-string key")


getitem_callee = Contract(S + "__getitem__", PROPERTY, ensures={}, result=_res_getitem)

PI_FACTS = [PI > 3, PI < 4]


def AXIOMS(c):
    from jvc.symexec import quot_axioms
    return list(PI_FACTS) + quot_axioms()


# ---- wrap_K -----------------------------------------------------------------------------------------------------------------------
WRAP_DEFS = {
    "K0": ([], "old(self).tbl['K'].value"), "K1": ([], "result.tbl['K'].value"),
    "w0": ([], "old(self).tbl['omega'].value"), "w1": ([], "result.tbl['omega'].value"),
    "pu": ([], "pi_() * (1 / old(self).tbl['omega'].unit.scale)"),          # pi radians in omega's unit
    "n": ([], "len(old(self).tbl['K'].value)"),
}
wrap_K = Contract(
    S + "wrap_K", PROPERTY, params={"self": samples_self()},
    defs=WRAP_DEFS,
    ensures={
        "every-K-non-negative-same-magnitude": "all(K1()[i] == abs(K0()[i]) for i in range(n()))",
        "omega-unchanged-where-K-was-non-negative": "all(implies(K0()[i] >= 0, w1()[i] == w0()[i]) for i in range(n()))",
        # pu = pi radians expressed in omega's unit
        "omega-moves-by-pi-modulo-2pi-where-K-was-negative": "all(implies(K0()[i] < 0, differ_by_multiple_(w1()[i], w0()[i] + pu(), 2 * pu()) "
                                                             "and 0 <= w1()[i] and w1()[i] < 2 * pu()) for i in range(n()))",
        "units-kept": "result.tbl['K'].unit is old(self).tbl['K'].unit and result.tbl['omega'].unit is old(self).tbl['omega'].unit",
        "other-columns-and-metadata-untouched": "all(result.tbl[c] is old(self).tbl[c] for c in ['P', 'e', 'M0', 's', 'v0']) and "
                                                "result.tbl.meta['t_ref'] is old(self).tbl.meta['t_ref'] and "
                                                "result.tbl.meta['poly_trend'] is old(self).tbl.meta['poly_trend']",
    })


@model("is_integer_", doc="spec: the real number is an integer")
def _is_int(ex, path, args, kwargs, node, fn):
    x = to_z3(args[0], "real")
    return x == z3.ToReal(z3.ToInt(x))


@model("differ_by_multiple_", doc="spec: x == y - j*m for some integer j")
def _dbm(ex, path, args, kwargs, node, fn):
    x, y, m = [to_z3(v, "real") for v in args]
    j = z3.Int(fresh_name("j"))
    return z3.Exists([j], x == y - z3.ToReal(j) * m)


@model("pi_")
def _pi(ex, path, args, kwargs, node, fn):
    return PI


LIB = {"is_integer_": _is_int, "pi_": _pi, "differ_by_multiple_": _dbm}

# ---- get_time_with_phase -------------------------------------------------------------------------------------------------------------
def phase_param(ex, path, name):
    u_ = A.sym_unit("phase_unit", ANGLE)
    path.assume(*u_.sym_facts)
    return A.quantity(z3.Real("phase.value"), u_)


GT_DEFS = {
    "Pday": (["i"], "self.tbl['P'].value[i] * self.tbl['P'].unit.scale / 86400"),
    "M0rad": (["i"], "self.tbl['M0'].value[i] * self.tbl['M0'].unit.scale"),
    "phrad": ([], "phase.value * phase.unit.scale"),
}
get_time_with_phase = Contract(
    S + "get_time_with_phase", PROPERTY, params={"self": samples_self(), "phase": phase_param},
    cases=[{"_name": "epoch-from-samples", "t_ref": "none"}],
    defs=GT_DEFS,
    ensures={"mean-anomaly-at-the-returned-time-equals-the-phase":
             "all(2 * pi_() * (result.mjd[i] - self.tbl.meta['t_ref'].mjd) == (phrad() + M0rad(i)) * Pday(i) for i in range(len(self.tbl['P'].value)))"})

# ---- pack: column j of the array holds parameter names[j], converted to the unit reported for it, and the reported units are in column order ------
def units_param(keys):
    def build(ex, path, name):
        d = PyDict()
        for k in keys:
            dim = {"P": TIME, "omega": ANGLE, "M0": ANGLE, "s": SPEED, "K": SPEED, "v0": SPEED, "e": (0, 0, 0)}[k]
            u_ = A.sym_unit(f"want_{k}_unit", dim)
            path.assume(*u_.sym_facts)
            d = d.set(k, u_)
        return d
    return build


def _pack_ens(names):
    ens = {"reported-units-are-in-column-order": "list(result[1].keys()) == " + repr(list(names)),
           "one-row-per-sample-one-column-per-name": f"result[0].shape[0] == len(self.tbl['P'].value) and result[0].shape[1] == {len(names)}"}
    for j, nm in enumerate(names):
        ens[f"column-{j}-holds-{nm}-in-the-unit-reported-for-it"] = (
            f"all(result[0][i, {j}] * result[1]['{nm}'].scale == self.tbl['{nm}'].value[i] * self.tbl['{nm}'].unit.scale "
            f"for i in range(len(self.tbl['P'].value)))")
    return ens


NL = ["P", "e", "omega", "M0", "s"]
ALLP = NL + ["K", "v0"]
pack = []
for _uk, _ukeys in (("units=None", None), ("units={omega,M0}", ("omega", "M0")), ("units={s,P}", ("s", "P")), ("units={K,e}", ("K", "e"))):
    for _nl in (True, False):
        _names = NL if _nl else ALLP
        _ens = _pack_ens(_names)
        if _ukeys:
            _ens["requested-units-honoured"] = " and ".join(f"result[1]['{k}'] is units['{k}']" for k in _ukeys if k in _names) or "True"
        pack.append(Contract(S + "pack", PROPERTY,
                             params={"self": samples_self(), "units": ("none" if _ukeys is None else units_param(_ukeys)), "names": "none",
                                     "nonlinear_only": "true" if _nl else "false"},
                             cases=[{"_name": f"{_uk},nonlinear_only={_nl}"}], ensures=_ens))

CONTRACTS = [wrap_K, get_time_with_phase] + pack
CALLEES = {S + "t_ref": t_ref_prop, "JokerSamples.t_ref": t_ref_prop, S + "par_names": par_names_prop, "JokerSamples.par_names": par_names_prop,
           S + "__getitem__": getitem_callee, "JokerSamples.__getitem__": getitem_callee}
LEMMAS = ["WrapK.lean"]
ASSUMPTIONS = ["astropy QTable/Row model (contracts/tablemodel.py): row/slice/mask selection copies meta, column assignment keeps order",
               "astropy Quantity/Time arithmetic model; u.dimensionless_angles() treats radians as dimensionless",
               "the RV-curve invariance K'(cos(w'+f)+e cos w') = K(cos(w+f)+e cos w) follows from the proved omega/K clauses by lemmas/WrapK.lean (wrapK_rv)"]
NOT_DECIDED = []


# ---- unpack: column j of the packed array becomes the parameter named by the j-th key of `units`, with that unit; metadata from the keywords -----
def _res_js_ctor(ex, path, bound, node):
    """JokerSamples(t_ref=..., poly_trend=..., n_offsets=...) as a callee (assumed; exercised by the twin): an empty table carrying that metadata"""
    meta = PyDict()
    for k in ("t_ref", "poly_trend", "n_offsets"):
        meta = meta.set(k, bound.get(k))
    return Obj("JokerSamples", {"tbl": T.qtable(PyDict(), meta, None), "_cache": PyDict(), "__qualclass__": "thejoker.samples.JokerSamples",
                                "cls_name": "JokerSamples"})


def _res_js_setitem(ex, path, bound, node):
    """samples[name] = quantity as a callee (assumed; exercised by the twin): the column is stored under that name (insertion order kept)"""
    self, key, val = bound["self"], bound["key"], bound["val"]
    return self.with_field("tbl", T._tbl_setitem(ex, path, self.fields["tbl"], key, val, node))


js_ctor = Contract("thejoker.samples.JokerSamples.__init__", PROPERTY, ensures={}, result=_res_js_ctor)
js_setitem = Contract(S + "__setitem__", PROPERTY, ensures={}, result=_res_js_setitem)


def packed_param(npars):
    def build(ex, path, name):
        n = z3.Int("n_rows")
        path.assume(n >= 1)
        return fresh_arr("packed", 2, "real", [n, npars])
    return build


def units_in_order(names):
    def build(ex, path, name):
        d = PyDict()
        for k in names:
            dim = {"P": TIME, "omega": ANGLE, "M0": ANGLE, "s": SPEED, "K": SPEED, "v0": SPEED, "e": (0, 0, 0), "dv0_1": SPEED, "v1": (-2, 1, 0)}[k]
            u_ = A.sym_unit(f"{k}_unit", dim)
            path.assume(*u_.sym_facts)
            d = d.set(k, u_)
        return d
    return build


def _unpack_contracts():
    out = []
    # the kernel's order: nonlinear, K, v0, offsets, then trend terms; and the nonlinear-only prefix (5 columns of a longer units table)
    for label, names, npars in (("nonlinear+K,v0", ALLP, 7), ("with-offset-and-trend", NL + ["K", "v0", "dv0_1", "v1"], 9), ("first-5-of-7", ALLP, 5),
                                 ("keys-in-another-order", ["e", "omega", "M0", "s", "P", "v0", "K"], 7)):
        ens = {"one-column-per-packed-column-in-the-order-of-the-units-table": "list(result.tbl.colnames) == " + repr(list(names[:npars])),
               "metadata-from-the-keywords": "result.tbl.meta['t_ref'] is kwargs['t_ref'] and result.tbl.meta['poly_trend'] is kwargs['poly_trend'] and "
                                             "result.tbl.meta['n_offsets'] is kwargs['n_offsets']"}
        for j, nm in enumerate(names[:npars]):
            ens[f"packed-column-{j}-is-{nm}-with-the-unit-listed-for-it"] = (
                f"result.tbl['{nm}'].unit is units['{nm}'] and all(result.tbl['{nm}'].value[i] == packed_samples[i, {j}] for i in range(packed_samples.shape[0]))")
        out.append(Contract(S + "unpack", PROPERTY,
                            params={"cls": lambda ex, path, n: NameRef("thejoker.samples.JokerSamples"), "packed_samples": packed_param(npars),
                                    "units": units_in_order(names),
                                    "kwargs": lambda ex, path, n: PyDict([("t_ref", A.time_obj(z3.Real("t_ref_bmjd"))), ("poly_trend", z3.Int("poly_trend")),
                                                                          ("n_offsets", z3.Int("n_offsets"))])},
                            cases=[{"_name": label}], ensures=ens))
    for c in out:
        c.callees = dict(CALLEES_UNPACK)
    return out


CALLEES_UNPACK = {"thejoker.samples.JokerSamples": js_ctor, "thejoker.samples.JokerSamples.__init__": js_ctor, "JokerSamples.__setitem__": js_setitem,
                  S + "__setitem__": js_setitem}
unpack = _unpack_contracts()
CONTRACTS += unpack


# ---- the constructor and the operations that build new tables from old ones: units and metadata flow ---------------------------------------------
def table_param(row=False, extra_meta=False):
    def build(ex, path, name):
        cols = [("P", A.sym_unit("P_unit", TIME)), ("e", A.U_ONE), ("omega", A.sym_unit("omega_unit", ANGLE)), ("M0", A.sym_unit("M0_unit", ANGLE)),
                ("s", A.sym_unit("s_unit", SPEED)), ("K", A.sym_unit("K_unit", SPEED)), ("v0", A.sym_unit("v0_unit", SPEED))]
        for _, u_ in cols:
            path.assume(*getattr(u_, "sym_facts", []))
        n = z3.Int("n_samples")
        path.assume(n >= 0)            # an EMPTY table (e.g. an all-False mask) is a table too: names, units and metadata are kept
        meta = PyDict([("t_ref", A.time_obj(z3.Real("t_ref_bmjd"))), ("poly_trend", 1), ("n_offsets", 0)])
        if extra_meta:
            meta = meta.set("run_label", Opaque("user-meta-value"))
        return T.samples_table(cols, n, meta)
    return build


INIT_ENS = {
    "reference-epoch-poly_trend-n_offsets-from-the-source-table": "self.tbl.meta['t_ref'] is samples.meta['t_ref'] and self.tbl.meta['poly_trend'] == 1 and "
                                                                  "self.tbl.meta['n_offsets'] == 0",
    "same-columns-in-the-same-order": "list(self.tbl.colnames) == list(samples.colnames)",
    "every-column-keeps-its-values-and-unit": " and ".join(f"self.tbl['{c}'].unit is samples['{c}'].unit and self.tbl['{c}'].value is samples['{c}'].value" for c in ALLP),
}
js_init = [Contract(S + "__init__", PROPERTY,
                    params={"self": lambda ex, path, n: Obj("JokerSamples", {"__qualclass__": "thejoker.samples.JokerSamples", "cls_name": "JokerSamples"}, ident="self"),
                            "samples": table_param(extra_meta=xm), "t_ref": "none", "n_offsets": "none", "poly_trend": "none", "kwargs": lambda ex, path, n: PyDict()},
                    cases=[{"_name": "from-a-table" + (",extra-meta" if xm else "")}],
                    ensures=dict(INIT_ENS, **({"other-metadata-kept": "self.tbl.meta['run_label'] is samples.meta['run_label']"} if xm else {})))
           for xm in (False, True)]
for _c in js_init:
    _c.callees = {"JokerSamples.__setitem__": js_setitem, S + "__setitem__": js_setitem}
    _c.returns_self = True
CONTRACTS += js_init
HOOKS = {"inline": {"thejoker.prior_helpers.get_linear_equiv_units", "thejoker.prior_helpers.validate_poly_trend", "thejoker.prior_helpers.validate_n_offsets",
                    "thejoker.prior_helpers.get_nonlinear_equiv_units", "thejoker.prior_helpers.get_v0_offsets_equiv_units"}}


def _res_js_ctor_any(ex, path, bound, node):
    """JokerSamples(samples, t_ref=, poly_trend=, n_offsets=, **meta) as a callee: what __init__'s contract above establishes for a table / row
    source (its metadata wins over the keywords), extended to a dict of columns (metadata from the keywords) - assumed for the dict case."""
    src = bound.get("samples")
    meta = PyDict()
    kw = {k: bound.get(k) for k in ("t_ref", "poly_trend", "n_offsets")}
    extra = bound.get("kwargs") if isinstance(bound.get("kwargs"), PyDict) else PyDict()
    cols, n = PyDict(), None
    if isinstance(src, Obj) and src.cls in ("QTable", "Row"):
        sm = src.fields["meta"]
        for k in ("t_ref", "poly_trend", "n_offsets"):
            meta = meta.set(k, sm.vals[k] if k in sm.vals else kw[k])
        for k in sm.keys:
            if k not in meta.vals:
                meta = meta.set(k, sm.vals[k])
        for k in src.fields["cols"].keys:
            q = src.fields["cols"].vals[k]
            v = q.fields["value"]
            if not isinstance(v, Arr):
                v = Arr([1], lambda i, v=v: to_z3(v, "real"), "real", f"{k}[row]")
                q = A.quantity(v, q.fields["unit"])
            cols = cols.set(k, q)
            n = q.fields["value"].shape[0]
    else:
        for k in ("t_ref", "poly_trend", "n_offsets"):
            meta = meta.set(k, kw[k] if kw[k] is not None else {"t_ref": None, "poly_trend": 1, "n_offsets": 0}[k])
        if isinstance(src, PyDict):
            for k in src.keys:
                q = src.vals[k]
                if not isinstance(q.fields["value"], Arr):      # np.atleast_1d of a scalar quantity: one row
                    q = A.quantity(Arr([1], lambda i, v=q.fields["value"]: to_z3(v, "real"), "real", f"{k}[reduced]"), q.fields["unit"])
                cols = cols.set(k, q)
                n = q.fields["value"].shape[0]
    for k in extra.keys:
        if k not in meta.vals:
            meta = meta.set(k, extra.vals[k])
    return Obj("JokerSamples", {"tbl": T.qtable(cols, meta, n), "_cache": PyDict(), "__qualclass__": "thejoker.samples.JokerSamples", "cls_name": "JokerSamples"})


js_ctor_any = Contract("thejoker.samples.JokerSamples.__init__", PROPERTY, ensures={}, result=_res_js_ctor_any)
FLOW_CALLEES = {"thejoker.samples.JokerSamples": js_ctor_any, "thejoker.samples.JokerSamples.__init__": js_ctor_any,
                S + "t_ref": t_ref_prop, "JokerSamples.t_ref": t_ref_prop, S + "par_names": par_names_prop, "JokerSamples.par_names": par_names_prop,
                S + "poly_trend": poly_trend_prop, "JokerSamples.poly_trend": poly_trend_prop, S + "n_offsets": n_offsets_prop,
                "JokerSamples.n_offsets": n_offsets_prop}
META_KEPT = "result.tbl.meta['t_ref'] is self.tbl.meta['t_ref'] and result.tbl.meta['poly_trend'] is self.tbl.meta['poly_trend'] and " \
            "result.tbl.meta['n_offsets'] is self.tbl.meta['n_offsets']"
UNITS_KEPT = " and ".join(f"result.tbl['{c}'].unit is self.tbl['{c}'].unit" for c in ALLP)


def int_key(ex, path, name):
    k = z3.Int("key")
    path.assume(-z3.Int("n_samples") <= k, k < z3.Int("n_samples"))      # negative keys count from the end
    return k


def slice_key(ex, path, name):
    lo, hi = z3.Int("key_lo"), z3.Int("key_hi")
    path.assume(0 <= lo, lo <= hi, hi <= z3.Int("n_samples"))
    return SliceV(lo, hi, None)


def mask_key(ex, path, name):
    return fresh_arr("key_mask", 1, "bool", [z3.Int("n_samples")])


flow = [
    Contract(S + "__getitem__", PROPERTY, params={"self": samples_self(), "key": int_key}, cases=[{"_name": "int"}],
             ensures={"metadata-kept": META_KEPT, "units-kept": UNITS_KEPT, "same-columns": "list(result.tbl.colnames) == list(self.tbl.colnames)",
                      "exactly-one-row": "len(result.tbl['P'].value) == 1",
                      "that-member-row": " and ".join(f"result.tbl['{c}'].value[0] == self.tbl['{c}'].value[key if key >= 0 else key + len(self.tbl['P'].value)]"
                                                      for c in ALLP)}),
    Contract(S + "__getitem__", PROPERTY, params={"self": samples_self(), "key": slice_key}, cases=[{"_name": "slice"}],
             ensures={"metadata-kept": META_KEPT, "units-kept": UNITS_KEPT, "same-columns": "list(result.tbl.colnames) == list(self.tbl.colnames)",
                      "the-selected-rows": " and ".join(f"all(result.tbl['{c}'].value[i] == self.tbl['{c}'].value[key.start + i] for i in range(key.stop - key.start))"
                                                        for c in ALLP)}),
    Contract(S + "__getitem__", PROPERTY, params={"self": samples_self(), "key": mask_key}, cases=[{"_name": "mask"}],
             ensures={"metadata-kept": META_KEPT, "units-kept": UNITS_KEPT, "same-columns": "list(result.tbl.colnames) == list(self.tbl.colnames)"}),
    Contract(S + "copy", PROPERTY, params={"self": samples_self()},
             ensures={"metadata-kept": META_KEPT, "units-kept": UNITS_KEPT, "same-columns": "list(result.tbl.colnames) == list(self.tbl.colnames)",
                      "same-values": " and ".join(f"result.tbl['{c}'].value is self.tbl['{c}'].value" for c in ALLP)}),
]
for _c in flow:
    _c.callees = dict(FLOW_CALLEES)
CONTRACTS += flow


# ---- mean / std (through _apply) and median_period --------------------------------------------------------------------------------------------
_MEAN = z3.Function("mean_of", z3.IntSort(), z3.RealSort())


@model("numpy.mean", "numpy.std", doc="np.mean / np.std of a Quantity column: a scalar Quantity in the same unit (its value is not modelled)")
def _np_mean(ex, path, args, kwargs, node, fn):
    q = args[0]
    if not A.is_q(q):
        raise Unsupported("np.mean of a non-Quantity")
    return A.quantity(fresh_real("reduced"), q.fields["unit"])


@model("numpy.argpartition", doc="argpartition(x, k)[k]: the index of an element of rank k - some valid row index (which one is not modelled)")
def _argpartition(ex, path, args, kwargs, node, fn):
    x = args[0]
    v = x.fields["value"] if A.is_q(x) else x
    n = v.shape[0]
    idx = fresh_int("median_row")
    path.assume(0 <= idx, idx < n)
    return Arr([n], lambda k, idx=idx: idx, "int", "argpartition")


LIB.update({"numpy.mean": _np_mean, "numpy.std": _np_mean, "numpy.argpartition": _argpartition})

flow2 = [
    Contract(S + "_apply", PROPERTY, params={"self": samples_self(), "func": lambda ex, path, n, f=f: NameRef(f)}, cases=[{"_name": f.split(".")[1]}],
             ensures={"metadata-kept": META_KEPT, "units-kept": UNITS_KEPT, "same-columns": "list(result.tbl.colnames) == list(self.tbl.colnames)",
                      "one-row": " and ".join(f"len(result.tbl['{c}'].value) == 1" for c in ALLP)})
    for f in ("numpy.mean", "numpy.std")]
flow2.append(Contract(S + "median_period", PROPERTY, params={"self": samples_self()},
                      ensures={"metadata-kept": META_KEPT, "units-kept": UNITS_KEPT,
                               "an-actual-member-row": "any(" + " and ".join(f"result.tbl['{c}'].value[0] == self.tbl['{c}'].value[r]" for c in ALLP) +
                                                       " for r in range(len(self.tbl['P'].value)))"}))
getitem_int_callee = Contract(S + "__getitem__", PROPERTY, ensures={}, result=lambda ex, path, bound, node: (
    T._tbl_getitem(ex, path, bound["self"].fields["tbl"], bound["key"], node) if isinstance(bound["key"], str) else
    _res_js_ctor_any(ex, path, {"samples": T._tbl_getitem(ex, path, bound["self"].fields["tbl"], bound["key"], node)}, node)))
for _c in flow2:
    _c.callees = dict(FLOW_CALLEES)
    _c.callees.update({S + "__getitem__": getitem_int_callee, "JokerSamples.__getitem__": getitem_int_callee})
CONTRACTS += flow2


# ---- __setitem__ (it is only a callee above): a column is stored under a valid parameter name, with a unit of the right dimension, or the call raises ---
def setitem_self(ex, path, name):
    valid = PyDict([("P", A.U_DAY), ("e", A.U_ONE), ("K", A.unit(SPEED, 1000, "km/s")), ("ln_prior", A.U_ONE)])
    tbl = T.qtable(PyDict(), _meta(), None)
    return Obj("JokerSamples", {"tbl": tbl, "_valid_units": valid, "_cache": PyDict(), "__qualclass__": "thejoker.samples.JokerSamples"}, ident="self")


def q_val(dim, nm):
    def build(ex, path, name):
        u_ = A.sym_unit(nm, dim)
        path.assume(*u_.sym_facts)
        return A.quantity(fresh_arr("new_col", 1, "real", [z3.Int("n_rows")]), u_)
    return build


setitem = [
    Contract(S + "__setitem__", PROPERTY, params={"self": setitem_self, "key": ("const", "K"), "val": q_val(SPEED, "given_speed_unit")},
             cases=[{"_name": "valid-name,right-dimension"}],
             ensures={"stored-under-that-name-with-its-own-unit-and-values": "self.tbl['K'].unit is val.unit and self.tbl['K'].value is val.value and "
                                                                             "list(self.tbl.colnames) == ['K']"}),
    Contract(S + "__setitem__", PROPERTY, params={"self": setitem_self, "key": ("const", "K"), "val": q_val(TIME, "given_time_unit")},
             cases=[{"_name": "valid-name,wrong-dimension"}], ensures={"must-raise": "False"}),
    Contract(S + "__setitem__", PROPERTY, params={"self": setitem_self, "key": ("const", "not_a_parameter"), "val": q_val(SPEED, "given_speed_unit")},
             cases=[{"_name": "unknown-name"}], ensures={"must-raise": "False"}),
]


def setitem_self_existing(ex, path, name):
    """the column is there already, stored in whatever unit an earlier assignment gave it"""
    valid = PyDict([("P", A.U_DAY), ("e", A.U_ONE), ("K", A.unit(SPEED, 1000, "km/s")), ("ln_prior", A.U_ONE)])
    old_u = A.sym_unit("stored_speed_unit", SPEED)
    path.assume(*old_u.sym_facts)
    tbl = T.samples_table([("K", old_u)], z3.Int("n_rows"), _meta(), prefix="stored")
    return Obj("JokerSamples", {"tbl": tbl, "_valid_units": valid, "_cache": PyDict(), "__qualclass__": "thejoker.samples.JokerSamples"}, ident="self")


setitem.append(Contract(S + "__setitem__", PROPERTY, params={"self": setitem_self_existing, "key": ("const", "K"), "val": q_val(SPEED, "given_speed_unit")},
                        cases=[{"_name": "valid-name,column-already-there-in-another-unit"}],
                        ensures={"the-column-now-is-the-assigned-quantity-values-and-unit": "self.tbl['K'].unit is val.unit and self.tbl['K'].value is val.value and "
                                                                                          "list(self.tbl.colnames) == ['K']"}))
for _c in setitem:
    _c.returns_self = True
CONTRACTS += setitem


from . import unitmaps as _UM   # noqa: E402
CONTRACTS += _UM.contracts(PROPERTY)


def EXTRA():
    # the read-only operations do not update their table in place (asking twice gives the same answer)
    from jvc import effects
    return effects.check_no_inplace_on_borrowed([S + "pack", S + "get_time_with_phase", S + "median_period", S + "_apply", S + "__getitem__", S + "copy",
                                                S + "__init__", S + "unpack", S + "wrap_K", S + "get_t0"], PROPERTY)
