"""C02 - the rejection step keeps prior sample i exactly when exp(ll_i - max ll) > u_i, rows unaltered,
evaluation order, truncation to the first accepted / first evaluated rows."""
from jvc.lib import LIB as _L
from . import filemodel
from . import rejection as R

PROPERTY = "C02"
CONTRACTS = R.select([R.marginal_inmem, R.full_inmem] + R.rejection_inmem + R.rejection_file, {"C02"})
CALLEES = {**R.INMEM_CALLEES, **R.FILE_CALLEES}
LIB = filemodel.install_repo_models({})
