"""C02 - the rejection step keeps prior sample i exactly when exp(ll_i - max ll) > u_i, rows unaltered,
evaluation order, truncation to the first accepted / first evaluated rows."""
from . import rejection as R

PROPERTY = "C02"
CONTRACTS = R.select([R.marginal_inmem, R.full_inmem] + R.rejection_inmem, {"C02"})
CALLEES = dict(R.INMEM_CALLEES)
