"""C02 - the rejection step keeps prior sample i exactly when exp(ll_i - max ll) > u_i, rows unaltered,
evaluation order, truncation to the first accepted / first evaluated rows."""
from jvc.lib import LIB as _L
from . import filemodel
from . import rejection as R

PROPERTY = "C02"
CONTRACTS = R.select([R.marginal_inmem, R.full_inmem] + R.rejection_inmem + R.rejection_file, {"C02"})
CALLEES = {**R.INMEM_CALLEES, **R.FILE_CALLEES}
LIB = filemodel.install_repo_models({})

# the file-path plumbing below rejection_sample_helper: rows reach the kernel, and come back, in the order of the index array
from . import workers as _W  # noqa: E402

CONTRACTS += R.select(_W.CHAIN_CONTRACTS, {"C02"})
CALLEES.update({k: v for k, v in _W.CHAIN_CALLEES.items() if k not in CALLEES or "run_worker" in k or "read_batch" in k})
LIB.update(_W.LIB)
LEMMAS = ["Partition.lean"]


# the plumbing this property's claim runs through (contracts/chain.py): listed here too, so that a change inside it is caught by THIS check
from . import chain as CH   # noqa: E402
CH.extend(CONTRACTS, CH.readers() + CH.plumbing() + CH.tables() + CH.wrapper())


# the kernel function that emits the accepted rows next to their linear draws (nonlinear columns copied unchanged, row by row)
from . import kernel as _KN   # noqa: E402
CONTRACTS += [CH.clone(_KN.bgp, callees=_KN.CALLEES, lib=_KN.LIB, hooks=_KN.HOOKS, home="c01")]


def _EXTRA0():
    # the public entry point hands its options (how many prior samples to use, how many posterior samples to keep, ...) to the function that
    # does the work, on both paths
    from jvc import effects
    return effects.check_option_forwarding(["thejoker.thejoker.TheJoker.rejection_sample"], PROPERTY,
                                           must_flow=[("n_prior_samples", "rejection_sample_inmem", "prior_samples_batch")])


def EXTRA():
    from . import chain as _CHX
    return list(_EXTRA0()) + _CHX.frame_effects(PROPERTY)
