"""Contracts of the Cython kernel thejoker/src/fast_likelihood.pyx (verified on the depyx'd source: DESIGN 2.2).

Ghost vocabulary (the *property's* quantities, never "whatever the code reads"):
  W[p]   = ivar[p] / (1 + s^2 ivar[p])          jitter-inflated weights = 1/(sigma_p^2 + s^2)
  M_T    = transposed design matrix (row 0 = unit-K Keplerian RV, then v0, offsets, trend)
  mu, Lambda = prior mean / variance per design-matrix row
The entrywise postconditions below are bridged to the matrix statement of C01/C03 by lemmas/Marginal.lean.
Doubles are reals (S2); C ints are mathematical integers (S1); LAPACK and twobody enter as library contracts.
"""
import ast

import z3

from jvc.lib import LIB as _L, model
from jvc.symexec import (Contract, LOG, POW, FABS, PI, arith, b_and, make_sum, q_forall, to_z3)
from jvc.values import (Arr, NameRef, Obj, Opaque, PyDict, PyList, Unsupported, fresh_arr, fresh_fn, fresh_int, fresh_name,
                        fresh_real, is_z3)

K = "thejoker.src.fast_likelihood."
KC = K + "CJokerHelper."
PROPERTY = "C01"

IMMUTABLE = ["n_times", "n_poly", "n_offsets", "n_linear", "n_pars", "t0", "t", "rv", "ivar", "trend_M", "mu", "fixed_K_prior",
             "sigma_K0", "P0", "max_K", "prior", "data", "internal_units", "packed_order"]
SCRATCH = ["s_ivar", "M_T", "Lambda", "Btmp", "Atmp", "npar_ipiv", "ntime_ipiv", "npar_work", "ntime_work", "B", "Binv", "b", "A", "Ainv", "a"]


def helper_self(ex, path, name):
    nt, nl, no = z3.Int("n_times"), z3.Int("n_linear"), z3.Int("n_offsets")
    path.assume(nt >= 1, nl >= 2, no >= 0)
    f = {"n_times": nt, "n_linear": nl, "n_offsets": no, "n_poly": z3.Int("n_poly"), "n_pars": z3.Int("n_pars"),
         "t0": z3.Real("t0"), "sigma_K0": z3.Real("sigma_K0"), "P0": z3.Real("P0"), "max_K": z3.Real("max_K"),
         "fixed_K_prior": z3.Int("fixed_K_prior")}
    for nm, shp in (("t", [nt]), ("rv", [nt]), ("ivar", [nt]), ("s_ivar", [nt]), ("mu", [nl + no]), ("Lambda", [nl + no]),
                    ("b", [nt]), ("a", [nl]), ("npar_work", [nl]), ("ntime_work", [nt])):
        f[nm] = fresh_arr(nm, 1, "real", shp)
    for nm, shp in (("npar_ipiv", [nl]), ("ntime_ipiv", [nt])):
        f[nm] = fresh_arr(nm, 1, "int", shp)
    for nm, shp in (("M_T", [nl, nt]), ("trend_M", [nt, nl - 1]), ("B", [nt, nt]), ("Binv", [nt, nt]), ("Btmp", [nt, nt]),
                    ("A", [nl, nl]), ("Ainv", [nl, nl]), ("Atmp", [nl, nl])):
        f[nm] = fresh_arr(nm, 2, "real", shp)
    f["prior"] = Opaque("prior")
    f["data"] = Opaque("data")
    f["internal_units"] = Opaque("internal_units")
    f["packed_order"] = Opaque("packed_order")
    o = Obj("CJokerHelper", f, ident="self")
    o.mutable_fields = tuple(SCRATCH)
    return o


# ---- module-level names of the .pyx ----------------------------------------------------------------------------------------------
INF = z3.Real("INF")      # the kernel's failure value (+inf): a distinguished real, larger than every value it is compared with


def kernel_globals(ex, path):
    return {"INF": INF, "anomaly_tol": z3.RealVal("1e-10"), "anomaly_maxiter": 128, "pi": PI}


HOOKS = {"globals": kernel_globals}


@model("log", doc="libc log: uninterpreted (S3)")
def _clog(ex, path, args, kwargs, node, fn):
    return LOG(to_z3(args[0], "real"))


@model("fabs", doc="libc fabs")
def _cfabs(ex, path, args, kwargs, node, fn):
    v = to_z3(args[0], "real")
    return z3.If(v >= 0, v, -v)


LIB = {"log": _clog, "fabs": _cfabs}


def _addr(x):
    if not (isinstance(x, tuple) and len(x) == 3 and x[0] == "addr"):
        raise Unsupported("expected an address-of argument (&x)")
    return x[1], x[2]


def _base_of(node):
    """&X[0, 0] / &X[0] -> the array expression X ;  &scalar -> the scalar expression"""
    return node.value if isinstance(node, ast.Subscript) else node


# ---- twobody: c_rv_from_elements(t, rv, N, P, K, e, omega, M0, t0, tol, maxiter) ------------------------------------------------
RVU = z3.Function("RVU", *([z3.RealSort()] * 6 + [z3.RealSort()]))   # unit-K Keplerian RV at time t for (P, e, omega, M0, t0)


@model("c_rv_from_elements", doc="twobody: writes rv[0..N) = K * RVU(t[k]; P, e, omega, M0, t0) and nothing else (assumed)")
def _c_rv(ex, path, args, kwargs, node, fn):
    (_, tnode), (_, rvnode) = _addr(args[0]), _addr(args[1])
    t = ex.ev(ast.parse(ast.unparse(_base_of(tnode)), mode="eval").body, path)
    out_base = _base_of(rvnode)
    out = ex.ev(ast.parse(ast.unparse(out_base), mode="eval").body, path)
    N, P, Kv, e, om, M0, t0 = args[2:9]
    row0 = [ex.ev(x, path) for x in (rvnode.slice.elts if isinstance(rvnode.slice, ast.Tuple) else [rvnode.slice])]
    if len(row0) != 2 or not all(isinstance(x, int) and x == 0 for x in row0):
        raise Unsupported("c_rv_from_elements output that is not &X[0, 0]")
    Kz = to_z3(Kv, "real")

    def at(i, k, out=out, t=t):
        iz, kz = to_z3(i), to_z3(k)
        return z3.If(z3.And(iz == 0, kz >= 0, kz < to_z3(N)),
                     Kz * RVU(t.at(kz), to_z3(P, "real"), to_z3(e, "real"), to_z3(om, "real"), to_z3(M0, "real"), to_z3(t0, "real")),
                     out.at(i, k))
    new = Arr(out.shape, at, "real", out.name)
    ex.assign(out_base, new, path)
    path.ghost.setdefault("rv_calls", []).append({"P": P, "e": e, "omega": om, "M0": M0, "t0": t0, "K": Kv, "N": N, "t": t, "line": node.lineno})
    return None


LIB["c_rv_from_elements"] = _c_rv


# ---- LAPACK (scipy.linalg.cython_lapack) ---------------------------------------------------------------------------------------------
def _set_scalar(ex, path, anode, value):
    ex.assign(anode, value, path)


@model("lapack.dgetrf", doc="dgetrf(m, n, A, lda, ipiv, info): LU factorisation in place; info == 0 iff it succeeded. The factors are "
                            "opaque except diag(U) (ghost): prod |U_ii| = |det A|  (assumed)")
def _dgetrf(ex, path, args, kwargs, node, fn):
    (_, anode) = _addr(args[2])
    (_, inode) = _addr(args[5])
    abase = _base_of(anode)
    A = ex.ev(ast.parse(ast.unparse(abase), mode="eval").body, path)
    lu = fresh_arr("LU", 2, "real", list(A.shape))
    lu.lu_of = A
    info = fresh_int("info")
    ex.assign(abase, lu, path)
    ex.assign(inode, info, path)
    path.ghost.setdefault("lapack", []).append({"op": "dgetrf", "input": A, "output": lu, "info": info, "line": node.lineno})
    return None


@model("lapack.dgetri", doc="dgetri(n, LU, lda, ipiv, work, lwork, info): overwrites the LU factors by the inverse of the factored matrix "
                            "when info == 0  (assumed)")
def _dgetri(ex, path, args, kwargs, node, fn):
    (_, anode) = _addr(args[1])
    (_, inode) = _addr(args[6])
    abase = _base_of(anode)
    lu = ex.ev(ast.parse(ast.unparse(abase), mode="eval").body, path)
    src = getattr(lu, "lu_of", None)
    if src is None:
        raise Unsupported("dgetri on something that is not the output of dgetrf")
    inv = fresh_arr("INV", 2, "real", list(lu.shape))
    inv.inverse_of = src
    info = fresh_int("info")
    ex.assign(abase, inv, path)
    ex.assign(inode, info, path)
    path.ghost.setdefault("lapack", []).append({"op": "dgetri", "input": src, "output": inv, "info": info, "line": node.lineno})
    return None


@model("lapack.dsysv", doc="dsysv(uplo, n, nrhs, A, lda, ipiv, b, ldb, work, lwork, info): for a symmetric A, overwrites b by the solution x "
                           "of A x = b when info == 0; A is overwritten by its factors (assumed)")
def _dsysv(ex, path, args, kwargs, node, fn):
    (_, anode) = _addr(args[3])
    (_, bnode) = _addr(args[6])
    (_, inode) = _addr(args[10])
    abase, bbase = _base_of(anode), _base_of(bnode)
    A = ex.ev(ast.parse(ast.unparse(abase), mode="eval").body, path)
    rhs = ex.ev(ast.parse(ast.unparse(bbase), mode="eval").body, path)
    x = fresh_arr("SOLVE", 1, "real", list(rhs.shape))
    x.solution_of = (A, rhs)
    info = fresh_int("info")
    ex.assign(abase, fresh_arr("LDLT", 2, "real", list(A.shape)), path)
    ex.assign(bbase, x, path)
    ex.assign(inode, info, path)
    path.ghost.setdefault("lapack", []).append({"op": "dsysv", "input": (A, rhs), "output": x, "info": info, "line": node.lineno})
    return None


LIB.update({"lapack.dgetrf": _dgetrf, "lapack.dgetri": _dgetri, "lapack.dsysv": _dsysv})


# ---- spec functions -------------------------------------------------------------------------------------------------------------------
@model("inverse_source", doc="spec: the matrix X such that `arr` is the LAPACK inverse of X (ghost link set by dgetri)")
def _inverse_source(ex, path, args, kwargs, node, fn):
    a = args[0]
    src = getattr(a, "inverse_of", None)
    if src is None:
        raise Unsupported("array is not the output of dgetri")
    return src


@model("lu_source")
def _lu_source(ex, path, args, kwargs, node, fn):
    src = getattr(args[0], "lu_of", None)
    if src is None:
        raise Unsupported("array is not the output of dgetrf")
    return src


@model("solve_source")
def _solve_source(ex, path, args, kwargs, node, fn):
    src = getattr(args[0], "solution_of", None)
    if src is None:
        raise Unsupported("array is not the output of dsysv")
    return PyList(list(src), None, True)


@model("rvu_", doc="spec: unit-K Keplerian radial velocity (twobody's function; uninterpreted)")
def _rvu(ex, path, args, kwargs, node, fn):
    return RVU(*[to_z3(a, "real") for a in args])


@model("pow_", doc="spec: real power (uninterpreted, S3)")
def _pow_spec(ex, path, args, kwargs, node, fn):
    return POW(to_z3(args[0], "real"), to_z3(args[1], "real"))


@model("log_")
def _log_spec(ex, path, args, kwargs, node, fn):
    return LOG(to_z3(args[0], "real"))


@model("same_array")
def _same_array(ex, path, args, kwargs, node, fn):
    return args[0] is args[1]


LIB.update({"inverse_source": _inverse_source, "lu_source": _lu_source, "solve_source": _solve_source, "rvu_": _rvu, "pow_": _pow_spec,
            "log_": _log_spec, "same_array": _same_array})


def frame_clause(fields):
    """every helper field outside `fields` is the same object as on entry (nothing else is modified)"""
    keep = [f for f in IMMUTABLE + SCRATCH if f not in fields]
    return " and ".join(f"same_array(self.{f}, old(self).{f})" for f in keep)


# =======================================================================================================================================
# get_ivar(ivar, s, new_ivar)
def vec_param(ex, path, name):
    a = fresh_arr(name, 1, "real", [z3.Int("n_ivar")])
    return a


get_ivar = Contract(
    K + "get_ivar", PROPERTY, params={"ivar": vec_param, "s": "real", "new_ivar": vec_param},
    requires=["len(ivar) >= 0"],
    ensures={
        "jitter-folded-into-every-weight": "all(new_ivar[i] == old(ivar)[i] / (1 + s * s * old(ivar)[i]) for i in range(len(ivar)))",
        "input-weights-untouched": "same_array(ivar, old(ivar))",
    })
get_ivar.strict_defined = False
get_ivar.out_params = ["new_ivar"]


def _res_get_ivar(ex, path, bound, node):
    iv, s_, out = bound["ivar"], bound["s"], bound["new_ivar"]
    sz = to_z3(s_, "real")
    new = Arr(out.shape, lambda i: z3.If(z3.And(to_z3(i) >= 0, to_z3(i) < to_z3(iv.shape[0])), iv.at(i) / (1 + sz * sz * iv.at(i)), out.at(i)),
              "real", "s_ivar")
    return None, {"new_ivar": new}


get_ivar_callee = Contract(K + "get_ivar", PROPERTY, ensures={}, result=_res_get_ivar)
get_ivar_callee.out_params = ["new_ivar"]

# =======================================================================================================================================
# make_AAinv:  Ainv = Lambda^-1 + M^T W M (entrywise),  A = inverse (LAPACK),  returns 0 / -1
AINV = "((1 / self.Lambda[i] if i == j else 0) + sum(self.M_T[j, n] * self.s_ivar[n] * self.M_T[i, n] for n in range(self.n_times)))"
MAKE_A_INV = {
    3: {   # for i in range(n_linear)
        "rows-done": f"all(self.Ainv[i, j] == {AINV} and self.Atmp[i, j] == self.Ainv[i, j] for i in range(_it) for j in range(self.n_linear))",
        "rows-to-do-are-zero": "all(self.Ainv[i, j] == 0 for i in range(_it, self.n_linear) for j in range(self.n_linear))",
        "frame": None,
    },
    4: {   # for j in range(n_linear)   (inside iteration i)
        "cells-done": f"all(self.Ainv[i, j] == {AINV} and self.Atmp[i, j] == self.Ainv[i, j] for j in range(_it))",
        "cells-to-do": "all(self.Ainv[i, j] == (1 / self.Lambda[i] if i == j else 0) for j in range(_it, self.n_linear))",
        "other-rows": f"all(self.Ainv[r, j] == {AINV.replace('[i]', '[r]').replace('i == j', 'r == j').replace('[i, n]', '[r, n]')} and self.Atmp[r, j] == self.Ainv[r, j] "
                      "for r in range(i) for j in range(self.n_linear)) and "
                      "all(self.Ainv[r, j] == 0 for r in range(i + 1, self.n_linear) for j in range(self.n_linear))",
        "frame": None,
    },
}
A_FIELDS = ["Ainv", "Atmp", "A", "npar_ipiv", "npar_work"]
for _k in MAKE_A_INV:
    MAKE_A_INV[_k]["frame"] = frame_clause(A_FIELDS)

make_AAinv = Contract(
    KC + "make_AAinv", PROPERTY, params={"self": helper_self},
    requires=["all(self.Lambda[i] != 0 for i in range(self.n_linear))"],
    invariants=MAKE_A_INV,
    ensures={
        "Ainv-is-prior-precision-plus-weighted-normal-matrix": f"all(self.Ainv[i, j] == {AINV} for i in range(self.n_linear) for j in range(self.n_linear))",
        "on-success-A-is-the-LAPACK-inverse-of-Ainv": "implies(result == 0, all(self.A[i, j] == self.Atmp[i, j] for i in range(self.n_linear) for j in range(self.n_linear)) and "
                                                      f"all(inverse_source(self.Atmp)[i, j] == {AINV} for i in range(self.n_linear) for j in range(self.n_linear)))",
        "status-is-0-or-minus-1": "result == 0 or result == -1",
        "modifies-only-its-work-arrays": frame_clause(A_FIELDS),
    })

make_AAinv.strict_defined = True
CONTRACTS = [get_ivar, make_AAinv]
CALLEES = {}
ASSUMPTIONS = ["LAPACK dgetrf/dgetri/dsysv contracts (factorisation, inverse, symmetric solve; info == 0 on success); row-major vs column-major is "
               "harmless because the matrices passed are symmetric (Lean: Ainv = L^-1 + M^T W M)",
               "twobody c_rv_from_elements writes exactly N entries: K * RVU(t; P, e, omega, M0, t0)",
               "doubles are reals (S2); C ints are mathematical integers (S1)"]


# =======================================================================================================================================
# make_bBBinv:  b = M mu,  B = W^-1 + M Lambda M^T,  Binv = W - W M A M^T W  (entrywise),  returns sum_i log(2 pi |LU(B)_ii|)
B_SPEC = "((1 / self.s_ivar[n] if n == m else 0) + sum(self.M_T[i, n] * self.Lambda[i] * self.M_T[i, m] for i in range(self.n_linear)))"
b_SPEC = "sum(self.M_T[i, n] * self.mu[i] for i in range(self.n_linear))"
# partial Woodbury sums:  full = all (i, j);  the loop nest is  n { i { m { j } } }
BINV_FULL = ("((self.s_ivar[n] if n == m else 0) - sum(sum(self.s_ivar[n] * self.M_T[i, n] * self.A[i, j] * self.M_T[j, m] * self.s_ivar[m] "
             "for j in range(self.n_linear)) for i in range(self.n_linear)))")


def _binv_partial(upto_i):
    return ("((self.s_ivar[n] if n == m else 0) - sum(sum(self.s_ivar[n] * self.M_T[i, n] * self.A[i, j] * self.M_T[j, m] * self.s_ivar[m] "
            f"for j in range(self.n_linear)) for i in range({upto_i})))")


def _rn(txt, new="r"):
    """rename the row variable n -> r in a spec text (for 'other rows' clauses)"""
    import re
    return re.sub(r"\bn\b", new, txt)


BB_FIELDS = ["b", "B", "Binv", "Btmp", "ntime_ipiv"]
MAKE_B_INV = {
    1: {   # for n: b[n] = M mu ; B[n, :] = 0
        "b-done": f"all(self.b[n] == {b_SPEC} for n in range(_it))",
        "B-rows-zeroed": "all(self.B[n, m] == 0 for n in range(_it) for m in range(self.n_times))",
    },
    4: {   # for n: B[n, :] = spec ; Binv[n, :] = 0 ; Btmp = B
        "rows-done": f"all(self.B[n, m] == {B_SPEC} and self.Btmp[n, m] == self.B[n, m] and self.Binv[n, m] == 0 for n in range(_it) for m in range(self.n_times))",
        "rows-to-do-zero": "all(self.B[n, m] == 0 for n in range(_it, self.n_times) for m in range(self.n_times))",
        "b-kept": f"all(self.b[n] == {b_SPEC} for n in range(self.n_times))",
    },
    5: {   # for m (inside n)
        "cells-done": f"all(self.B[n, m] == {B_SPEC} and self.Btmp[n, m] == self.B[n, m] and self.Binv[n, m] == 0 for m in range(_it))",
        "cells-to-do": "all(self.B[n, m] == (1 / self.s_ivar[n] if n == m else 0) for m in range(_it, self.n_times))",
        "other-rows": f"all(self.B[r, m] == {_rn(B_SPEC)} and self.Btmp[r, m] == self.B[r, m] and self.Binv[r, m] == 0 for r in range(n) for m in range(self.n_times)) and "
                      "all(self.B[r, m] == 0 for r in range(n + 1, self.n_times) for m in range(self.n_times))",
        "b-kept": f"all(self.b[r] == {_rn(b_SPEC)} for r in range(self.n_times))",
    },
    7: {   # for n: Binv[n, :] = Woodbury row
        "rows-done": f"all(self.Binv[n, m] == {BINV_FULL} for n in range(_it) for m in range(self.n_times))",
        "rows-to-do-zero": "all(self.Binv[n, m] == 0 for n in range(_it, self.n_times) for m in range(self.n_times))",
        "B-b-kept": f"all(self.B[n, m] == {B_SPEC} and self.Btmp[n, m] == self.B[n, m] for n in range(self.n_times) for m in range(self.n_times)) and "
                    f"all(self.b[n] == {b_SPEC} for n in range(self.n_times))",
    },
    8: {   # for i (inside n): partial sums over i' < _it
        "row-partial": f"all(self.Binv[n, m] == {_binv_partial('_it')} for m in range(self.n_times))",
        "other-rows": f"all(self.Binv[r, m] == {_rn(BINV_FULL)} for r in range(n) for m in range(self.n_times)) and "
                      "all(self.Binv[r, m] == 0 for r in range(n + 1, self.n_times) for m in range(self.n_times))",
        "B-b-kept": f"all(self.B[r, m] == {_rn(B_SPEC)} and self.Btmp[r, m] == self.B[r, m] for r in range(self.n_times) for m in range(self.n_times)) and "
                    f"all(self.b[r] == {_rn(b_SPEC)} for r in range(self.n_times))",
    },
    9: {   # for m (inside i): cells m' < _it have received term i as well
        "cells-done": f"all(self.Binv[n, m] == {_binv_partial('i + 1')} for m in range(_it))",
        "cells-to-do": f"all(self.Binv[n, m] == {_binv_partial('i')} for m in range(_it, self.n_times))",
        "other-rows": f"all(self.Binv[r, m] == {_rn(BINV_FULL)} for r in range(n) for m in range(self.n_times)) and "
                      "all(self.Binv[r, m] == 0 for r in range(n + 1, self.n_times) for m in range(self.n_times))",
        "B-b-kept": f"all(self.B[r, m] == {_rn(B_SPEC)} and self.Btmp[r, m] == self.B[r, m] for r in range(self.n_times) for m in range(self.n_times)) and "
                    f"all(self.b[r] == {_rn(b_SPEC)} for r in range(self.n_times))",
    },
}
make_bBBinv = Contract(
    KC + "make_bBBinv", PROPERTY, params={"self": helper_self},
    requires=["all(self.s_ivar[n] != 0 for n in range(self.n_times))"],
    invariants=MAKE_B_INV,
    ensures={
        "b-is-the-prior-mean-of-the-data": f"all(self.b[n] == {b_SPEC} for n in range(self.n_times))",
        "B-is-noise-plus-prior-covariance": f"all(self.B[n, m] == {B_SPEC} for n in range(self.n_times) for m in range(self.n_times))",
        "Binv-is-the-Woodbury-expression": f"all(self.Binv[n, m] == {BINV_FULL} for n in range(self.n_times) for m in range(self.n_times))",
        "returns-log-det-from-the-LU-diagonal-or-INF": "result == INF or (all(lu_source(self.Btmp)[n, m] == self.B[n, m] for n in range(self.n_times) for m in range(self.n_times)) and "
                                                      "result == sum(log_(2 * pi * abs(self.Btmp[i, i])) for i in range(self.n_times)))",
        "modifies-only-its-work-arrays": frame_clause(BB_FIELDS),
    })
make_bBBinv.strict_defined = True
CONTRACTS.append(make_bBBinv)


# =======================================================================================================================================
# callee views of the methods (a caller sees only these contracts)
def _method_callee(contract, fields, ret_kind):
    def res(ex, path, bound, node):
        self = bound["self"]
        new = Obj(self.cls, dict(self.fields), self.ident)
        new.mutable_fields = getattr(self, "mutable_fields", ())
        for f in fields:
            old = self.fields[f]
            new.fields[f] = fresh_arr(f"{f}'", old.ndim, old.dtype, list(old.shape))
            # ghost links of the LAPACK outputs: "is the inverse / LU / solution of <some matrix>" with that matrix existentially
            # chosen here and pinned down entrywise by the callee's postcondition
            if f == "Atmp":
                new.fields[f].inverse_of = fresh_arr("inv_src", 2, "real", list(old.shape))
            if f == "Btmp":
                new.fields[f].lu_of = fresh_arr("lu_src", 2, "real", list(old.shape))
            if f == "a":
                new.fields[f].solution_of = (fresh_arr("solve_A", 2, "real", [old.shape[0], old.shape[0]]), fresh_arr("solve_rhs", 1, "real", list(old.shape)))
        ret = fresh_int("status") if ret_kind == "int" else fresh_real("retval")
        return ret, {"self": new}
    c = Contract(contract.qual, contract.prop, requires=list(contract.requires), ensures=dict(contract.ensures), result=res, defs=contract.defs)
    c.returns_self = True
    c.modifies = list(fields)
    return c


make_AAinv_callee = _method_callee(make_AAinv, A_FIELDS, "int")
make_bBBinv_callee = _method_callee(make_bBBinv, BB_FIELDS, "real")

# =======================================================================================================================================
# likelihood_worker(flag): chi^2 + log det; with flag == 1 also a = solve(Ainv, M^T W y + Lambda^-1 mu)
CHI2 = ("sum(sum((self.b[m] - self.rv[m]) * self.Binv[n, m] * (self.b[n] - self.rv[n]) for m in range(self.n_times)) for n in range(self.n_times))")
RHS = "(sum(self.M_T[i, n] * self.s_ivar[n] * self.rv[n] for n in range(self.n_times)) + self.mu[i] / self.Lambda[i])"
LW_FIELDS = A_FIELDS + BB_FIELDS + ["a"]
ENTRYWISE = {
    "Ainv": f"all(self.Ainv[i, j] == {AINV} for i in range(self.n_linear) for j in range(self.n_linear))",
    "b": f"all(self.b[n] == {b_SPEC} for n in range(self.n_times))",
    "B": f"all(self.B[n, m] == {B_SPEC} for n in range(self.n_times) for m in range(self.n_times))",
    "Binv": f"all(self.Binv[n, m] == {BINV_FULL} for n in range(self.n_times) for m in range(self.n_times))",
}
LW_ENS = {
    # INF = the kernel's failure value when a LAPACK factorisation reports failure (make_AAinv -> INF, make_bBBinv -> -1/2(chi2 + INF))
    "value-is-minus-half-chi2-plus-logdet-or-INF": f"result == INF or log_det_val == INF or (result == -0.5 * ({CHI2} + sum(log_(2 * pi * abs(self.Btmp[i, i])) for i in range(self.n_times))) and "
                                                   "all(lu_source(self.Btmp)[n, m] == self.B[n, m] for n in range(self.n_times) for m in range(self.n_times)))",
    "Ainv-entrywise": "result == INF or log_det_val == INF or " + ENTRYWISE["Ainv"],
    "b-entrywise": "result == INF or log_det_val == INF or " + ENTRYWISE["b"],
    "B-entrywise": "result == INF or log_det_val == INF or " + ENTRYWISE["B"],
    "Binv-entrywise": "result == INF or log_det_val == INF or " + ENTRYWISE["Binv"],
    "modifies-only-scratch": frame_clause(LW_FIELDS),
}
LW_ENS_1 = dict(LW_ENS, **{
    "a-solves-the-normal-equations": "result == INF or log_det_val == INF or (all(solve_source(self.a)[0][i, j] == " + AINV + " for i in range(self.n_linear) for j in range(self.n_linear)) and "
                                     "all(solve_source(self.a)[1][i] == " + RHS + " for i in range(self.n_linear)))",
})
LW_INV = {4: {"rhs-partial": "all(self.a[i] == sum(self.M_T[i, n2] * self.s_ivar[n2] * self.rv[n2] for n2 in range(_it)) for i in range(self.n_linear))",
              "rest": " and ".join([ENTRYWISE["Ainv"], ENTRYWISE["b"], ENTRYWISE["B"], ENTRYWISE["Binv"]])}}
likelihood_worker = [
    Contract(KC + "likelihood_worker", PROPERTY, params={"self": helper_self, "make_aAinv": ("const", flag)}, cases=[{"_name": f"flag={flag}"}],
             requires=["all(self.Lambda[i] != 0 for i in range(self.n_linear))", "all(self.s_ivar[n] != 0 for n in range(self.n_times))"],
             invariants=LW_INV, ensures=LW_ENS_1 if flag else LW_ENS)
    for flag in (0, 1)]
for _c in likelihood_worker:
    _c.strict_defined = True
CONTRACTS += likelihood_worker
LW_CALLEES = {KC + "make_AAinv": make_AAinv_callee, "CJokerHelper.make_AAinv": make_AAinv_callee,
              KC + "make_bBBinv": make_bBBinv_callee, "CJokerHelper.make_bBBinv": make_bBBinv_callee}
CALLEES.update(LW_CALLEES)
