"""Contracts of the Cython kernel thejoker/src/fast_likelihood.pyx (verified on the depyx'd source: DESIGN 2.2).

Ghost vocabulary (the *property's* quantities, never "whatever the code reads"):
  W[p]   = ivar[p] / (1 + s^2 ivar[p])          jitter-inflated weights = 1/(sigma_p^2 + s^2)
  M_T    = transposed design matrix (row 0 = unit-K Keplerian RV, then v0, offsets, trend)
  mu, Lambda = prior mean / variance per design-matrix row
The entrywise postconditions below are bridged to the matrix statement of C01/C03 by lemmas/Marginal.lean.
Doubles are reals (S2); C ints are mathematical integers (S1); LAPACK and twobody enter as library contracts.
"""
import ast

import z3

from jvc.lib import LIB as _L, model
from jvc.symexec import (Contract, LOG, POW, FABS, PI, arith, b_and, make_sum, q_forall, to_z3)
from . import common  # noqa: F401  (spec functions view3, ...)
from jvc.values import (Arr, NameRef, Obj, Opaque, PyDict, PyList, Unsupported, fresh_arr, fresh_fn, fresh_int, fresh_name,
                        fresh_real, is_z3)

K = "thejoker.src.fast_likelihood."
KC = K + "CJokerHelper."
PROPERTY = "C01"

IMMUTABLE = ["n_times", "n_poly", "n_offsets", "n_linear", "n_pars", "t0", "t", "rv", "ivar", "trend_M", "mu", "fixed_K_prior",
             "sigma_K0", "P0", "max_K", "prior", "data", "internal_units", "packed_order"]
SCRATCH = ["s_ivar", "M_T", "Lambda", "Btmp", "Atmp", "npar_ipiv", "ntime_ipiv", "npar_work", "ntime_work", "B", "Binv", "b", "A", "Ainv", "a"]


def helper_self(ex, path, name):
    nt, nl, no = z3.Int("n_times"), z3.Int("n_linear"), z3.Int("n_offsets")
    path.assume(nt >= 1, nl >= 2, no >= 0)
    f = {"n_times": nt, "n_linear": nl, "n_offsets": no, "n_poly": z3.Int("n_poly"), "n_pars": z3.Int("n_pars"),
         "t0": z3.Real("t0"), "sigma_K0": z3.Real("sigma_K0"), "P0": z3.Real("P0"), "max_K": z3.Real("max_K"),
         "fixed_K_prior": z3.Int("fixed_K_prior")}
    for nm, shp in (("t", [nt]), ("rv", [nt]), ("ivar", [nt]), ("s_ivar", [nt]), ("mu", [nl + no]), ("Lambda", [nl + no]),
                    ("b", [nt]), ("a", [nl]), ("npar_work", [nl]), ("ntime_work", [nt])):
        f[nm] = fresh_arr(nm, 1, "real", shp)
    for nm, shp in (("npar_ipiv", [nl]), ("ntime_ipiv", [nt])):
        f[nm] = fresh_arr(nm, 1, "int", shp)
    for nm, shp in (("M_T", [nl, nt]), ("trend_M", [nt, nl - 1]), ("B", [nt, nt]), ("Binv", [nt, nt]), ("Btmp", [nt, nt]),
                    ("A", [nl, nl]), ("Ainv", [nl, nl]), ("Atmp", [nl, nl])):
        f[nm] = fresh_arr(nm, 2, "real", shp)
    f["prior"] = Opaque("prior")
    f["data"] = Opaque("data")
    f["internal_units"] = Opaque("internal_units")
    f["packed_order"] = Opaque("packed_order")
    o = Obj("CJokerHelper", f, ident="self")
    o.mutable_fields = tuple(SCRATCH)
    return o


# ---- module-level names of the .pyx ----------------------------------------------------------------------------------------------
INF = z3.Real("INF")      # the kernel's failure value (+inf): a distinguished real, larger than every value it is compared with


def kernel_globals(ex, path):
    return {"INF": INF, "anomaly_tol": z3.RealVal("1e-10"), "anomaly_maxiter": 128, "pi": PI}


HOOKS = {"globals": kernel_globals}


@model("log", doc="libc log: uninterpreted (S3)")
def _clog(ex, path, args, kwargs, node, fn):
    return LOG(to_z3(args[0], "real"))


@model("fabs", doc="libc fabs")
def _cfabs(ex, path, args, kwargs, node, fn):
    v = to_z3(args[0], "real")
    return z3.If(v >= 0, v, -v)


LIB = {"log": _clog, "fabs": _cfabs}


def _addr(x):
    if not (isinstance(x, tuple) and len(x) == 3 and x[0] == "addr"):
        raise Unsupported("expected an address-of argument (&x)")
    return x[1], x[2]


def _base_of(node):
    """&X[0, 0] / &X[0] -> the array expression X ;  &scalar -> the scalar expression"""
    return node.value if isinstance(node, ast.Subscript) else node


# ---- twobody: c_rv_from_elements(t, rv, N, P, K, e, omega, M0, t0, tol, maxiter) ------------------------------------------------
RVU = z3.Function("RVU", *([z3.RealSort()] * 6 + [z3.RealSort()]))   # unit-K Keplerian RV at time t for (P, e, omega, M0, t0)


@model("c_rv_from_elements", doc="twobody: writes rv[0..N) = K * RVU(t[k]; P, e, omega, M0, t0) and nothing else (assumed)")
def _c_rv(ex, path, args, kwargs, node, fn):
    (_, tnode), (_, rvnode) = _addr(args[0]), _addr(args[1])
    t = ex.ev(ast.parse(ast.unparse(_base_of(tnode)), mode="eval").body, path)
    out_base = _base_of(rvnode)
    out = ex.ev(ast.parse(ast.unparse(out_base), mode="eval").body, path)
    N, P, Kv, e, om, M0, t0 = args[2:9]
    row0 = [ex.ev(x, path) for x in (rvnode.slice.elts if isinstance(rvnode.slice, ast.Tuple) else [rvnode.slice])]
    if len(row0) != 2 or not all(isinstance(x, int) and x == 0 for x in row0):
        raise Unsupported("c_rv_from_elements output that is not &X[0, 0]")
    Kz = to_z3(Kv, "real")

    def at(i, k, out=out, t=t):
        iz, kz = to_z3(i), to_z3(k)
        return z3.If(z3.And(iz == 0, kz >= 0, kz < to_z3(N)),
                     Kz * RVU(t.at(kz), to_z3(P, "real"), to_z3(e, "real"), to_z3(om, "real"), to_z3(M0, "real"), to_z3(t0, "real")),
                     out.at(i, k))
    new = Arr(out.shape, at, "real", out.name)
    ex.assign(out_base, new, path)
    path.ghost.setdefault("rv_calls", []).append({"P": P, "e": e, "omega": om, "M0": M0, "t0": t0, "K": Kv, "N": N, "t": t, "line": node.lineno})
    return None


LIB["c_rv_from_elements"] = _c_rv


# ---- LAPACK (scipy.linalg.cython_lapack) ---------------------------------------------------------------------------------------------
def _set_scalar(ex, path, anode, value):
    ex.assign(anode, value, path)


@model("lapack.dgetrf", doc="dgetrf(m, n, A, lda, ipiv, info): LU factorisation in place; info == 0 iff it succeeded. The factors are "
                            "opaque except diag(U) (ghost): prod |U_ii| = |det A|  (assumed)")
def _dgetrf(ex, path, args, kwargs, node, fn):
    (_, anode) = _addr(args[2])
    (_, inode) = _addr(args[5])
    abase = _base_of(anode)
    A = ex.ev(ast.parse(ast.unparse(abase), mode="eval").body, path)
    lu = fresh_arr("LU", 2, "real", list(A.shape))
    lu.lu_of = A
    info = fresh_int("info")
    ex.assign(abase, lu, path)
    ex.assign(inode, info, path)
    path.ghost.setdefault("lapack", []).append({"op": "dgetrf", "input": A, "output": lu, "info": info, "line": node.lineno})
    return None


@model("lapack.dgetri", doc="dgetri(n, LU, lda, ipiv, work, lwork, info): overwrites the LU factors by the inverse of the factored matrix "
                            "when info == 0  (assumed)")
def _dgetri(ex, path, args, kwargs, node, fn):
    (_, anode) = _addr(args[1])
    (_, inode) = _addr(args[6])
    abase = _base_of(anode)
    lu = ex.ev(ast.parse(ast.unparse(abase), mode="eval").body, path)
    src = getattr(lu, "lu_of", None)
    if src is None:
        raise Unsupported("dgetri on something that is not the output of dgetrf")
    inv = fresh_arr("INV", 2, "real", list(lu.shape))
    inv.inverse_of = src
    info = fresh_int("info")
    ex.assign(abase, inv, path)
    ex.assign(inode, info, path)
    path.ghost.setdefault("lapack", []).append({"op": "dgetri", "input": src, "output": inv, "info": info, "line": node.lineno})
    return None


@model("lapack.dsysv", doc="dsysv(uplo, n, nrhs, A, lda, ipiv, b, ldb, work, lwork, info): for a symmetric A, overwrites b by the solution x "
                           "of A x = b when info == 0; A is overwritten by its factors (assumed)")
def _dsysv(ex, path, args, kwargs, node, fn):
    (_, anode) = _addr(args[3])
    (_, bnode) = _addr(args[6])
    (_, inode) = _addr(args[10])
    abase, bbase = _base_of(anode), _base_of(bnode)
    A = ex.ev(ast.parse(ast.unparse(abase), mode="eval").body, path)
    rhs = ex.ev(ast.parse(ast.unparse(bbase), mode="eval").body, path)
    x = fresh_arr("SOLVE", 1, "real", list(rhs.shape))
    x.solution_of = (A, rhs)
    info = fresh_int("info")
    ex.assign(abase, fresh_arr("LDLT", 2, "real", list(A.shape)), path)
    ex.assign(bbase, x, path)
    ex.assign(inode, info, path)
    path.ghost.setdefault("lapack", []).append({"op": "dsysv", "input": (A, rhs), "output": x, "info": info, "line": node.lineno})
    return None


LIB.update({"lapack.dgetrf": _dgetrf, "lapack.dgetri": _dgetri, "lapack.dsysv": _dsysv})


# ---- spec functions -------------------------------------------------------------------------------------------------------------------
@model("inverse_source", doc="spec: the matrix X such that `arr` is the LAPACK inverse of X (ghost link set by dgetri)")
def _inverse_source(ex, path, args, kwargs, node, fn):
    a = args[0]
    src = getattr(a, "inverse_of", None)
    if src is None:
        raise Unsupported("array is not the output of dgetri")
    return src


@model("lu_source")
def _lu_source(ex, path, args, kwargs, node, fn):
    src = getattr(args[0], "lu_of", None)
    if src is None:
        raise Unsupported("array is not the output of dgetrf")
    return src


@model("solve_source")
def _solve_source(ex, path, args, kwargs, node, fn):
    src = getattr(args[0], "solution_of", None)
    if src is None:
        raise Unsupported("array is not the output of dsysv")
    return PyList(list(src), None, True)


@model("rvu_", doc="spec: unit-K Keplerian radial velocity (twobody's function; uninterpreted)")
def _rvu(ex, path, args, kwargs, node, fn):
    return RVU(*[to_z3(a, "real") for a in args])


@model("pow_", doc="spec: real power (uninterpreted, S3)")
def _pow_spec(ex, path, args, kwargs, node, fn):
    return POW(to_z3(args[0], "real"), to_z3(args[1], "real"))


@model("log_")
def _log_spec(ex, path, args, kwargs, node, fn):
    return LOG(to_z3(args[0], "real"))


@model("same_array")
def _same_array(ex, path, args, kwargs, node, fn):
    return args[0] is args[1]


LIB.update({"inverse_source": _inverse_source, "lu_source": _lu_source, "solve_source": _solve_source, "rvu_": _rvu, "pow_": _pow_spec,
            "log_": _log_spec, "same_array": _same_array})


def frame_clause(fields):
    """every helper field outside `fields` is the same object as on entry (nothing else is modified)"""
    keep = [f for f in IMMUTABLE + SCRATCH if f not in fields]
    return " and ".join(f"same_array(self.{f}, old(self).{f})" for f in keep)


# =======================================================================================================================================
# get_ivar(ivar, s, new_ivar)
def vec_param(ex, path, name):
    a = fresh_arr(name, 1, "real", [z3.Int("n_ivar")])
    return a


get_ivar = Contract(
    K + "get_ivar", PROPERTY, params={"ivar": vec_param, "s": "real", "new_ivar": vec_param},
    requires=["len(ivar) >= 0"],
    ensures={
        "jitter-folded-into-every-weight": "all(final(new_ivar)[i] == ivar[i] / (1 + s * s * ivar[i]) for i in range(len(ivar)))",
        "input-weights-untouched": "same_array(final(ivar), ivar)",
    })
get_ivar.strict_defined = False
get_ivar.out_params = ["new_ivar"]


def _res_get_ivar(ex, path, bound, node):
    iv, s_, out = bound["ivar"], bound["s"], bound["new_ivar"]
    sz = to_z3(s_, "real")
    new = Arr(out.shape, lambda i: z3.If(z3.And(to_z3(i) >= 0, to_z3(i) < to_z3(iv.shape[0])), iv.at(i) / (1 + sz * sz * iv.at(i)), out.at(i)),
              "real", "s_ivar")
    return None, {"new_ivar": new}


get_ivar_callee = Contract(K + "get_ivar", PROPERTY, ensures={}, result=_res_get_ivar)
get_ivar_callee.out_params = ["new_ivar"]

# =======================================================================================================================================
# make_AAinv:  Ainv = Lambda^-1 + M^T W M (entrywise),  A = inverse (LAPACK),  returns 0 / -1
AINV = "((1 / self.Lambda[i] if i == j else 0) + sum(self.M_T[j, n] * self.s_ivar[n] * self.M_T[i, n] for n in range(self.n_times)))"
MAKE_A_INV = {
    3: {   # for i in range(n_linear)
        "rows-done": f"all(self.Ainv[i, j] == {AINV} and self.Atmp[i, j] == self.Ainv[i, j] for i in range(_it) for j in range(self.n_linear))",
        "rows-to-do-are-zero": "all(self.Ainv[i, j] == 0 for i in range(_it, self.n_linear) for j in range(self.n_linear))",
        "frame": None,
    },
    4: {   # for j in range(n_linear)   (inside iteration i)
        "cells-done": f"all(self.Ainv[i, j] == {AINV} and self.Atmp[i, j] == self.Ainv[i, j] for j in range(_it))",
        "cells-to-do": "all(self.Ainv[i, j] == (1 / self.Lambda[i] if i == j else 0) for j in range(_it, self.n_linear))",
        "other-rows": f"all(self.Ainv[r, j] == {AINV.replace('[i]', '[r]').replace('i == j', 'r == j').replace('[i, n]', '[r, n]')} and self.Atmp[r, j] == self.Ainv[r, j] "
                      "for r in range(i) for j in range(self.n_linear)) and "
                      "all(self.Ainv[r, j] == 0 for r in range(i + 1, self.n_linear) for j in range(self.n_linear))",
        "frame": None,
    },
}
A_FIELDS = ["Ainv", "Atmp", "A", "npar_ipiv", "npar_work"]
for _k in MAKE_A_INV:
    MAKE_A_INV[_k]["frame"] = frame_clause(A_FIELDS)

make_AAinv = Contract(
    KC + "make_AAinv", PROPERTY, params={"self": helper_self},
    requires=["all(self.Lambda[i] != 0 for i in range(self.n_linear))"],
    invariants=MAKE_A_INV,
    ensures={
        "Ainv-is-prior-precision-plus-weighted-normal-matrix": f"all(self.Ainv[i, j] == {AINV} for i in range(self.n_linear) for j in range(self.n_linear))",
        "on-success-A-is-the-LAPACK-inverse-of-Ainv": "implies(result == 0, all(self.A[i, j] == self.Atmp[i, j] for i in range(self.n_linear) for j in range(self.n_linear)) and "
                                                      f"all(inverse_source(self.Atmp)[i, j] == {AINV} for i in range(self.n_linear) for j in range(self.n_linear)))",
        "status-is-0-or-minus-1": "result == 0 or result == -1",
        "modifies-only-its-work-arrays": frame_clause(A_FIELDS),
    })

make_AAinv.strict_defined = True
CONTRACTS = [get_ivar, make_AAinv]
CALLEES = {}
ASSUMPTIONS = ["LAPACK dgetrf/dgetri/dsysv contracts (factorisation, inverse, symmetric solve; info == 0 on success); row-major vs column-major is "
               "harmless because the matrices passed are symmetric (Lean: Ainv = L^-1 + M^T W M)",
               "twobody c_rv_from_elements writes exactly N entries: K * RVU(t; P, e, omega, M0, t0)",
               "doubles are reals (S2); C ints are mathematical integers (S1)"]


# =======================================================================================================================================
# make_bBBinv:  b = M mu,  B = W^-1 + M Lambda M^T,  Binv = W - W M A M^T W  (entrywise),  returns sum_i log(2 pi |LU(B)_ii|)
B_SPEC = "((1 / self.s_ivar[n] if n == m else 0) + sum(self.M_T[i, n] * self.Lambda[i] * self.M_T[i, m] for i in range(self.n_linear)))"
b_SPEC = "sum(self.M_T[i, n] * self.mu[i] for i in range(self.n_linear))"
# partial Woodbury sums:  full = all (i, j);  the loop nest is  n { i { m { j } } }
BINV_FULL = ("((self.s_ivar[n] if n == m else 0) - sum(sum(self.s_ivar[n] * self.M_T[i, n] * self.A[i, j] * self.M_T[j, m] * self.s_ivar[m] "
             "for j in range(self.n_linear)) for i in range(self.n_linear)))")


def _binv_partial(upto_i):
    return ("((self.s_ivar[n] if n == m else 0) - sum(sum(self.s_ivar[n] * self.M_T[i, n] * self.A[i, j] * self.M_T[j, m] * self.s_ivar[m] "
            f"for j in range(self.n_linear)) for i in range({upto_i})))")


def _rn(txt, new="r"):
    """rename the row variable n -> r in a spec text (for 'other rows' clauses)"""
    import re
    return re.sub(r"\bn\b", new, txt)


BB_FIELDS = ["b", "B", "Binv", "Btmp", "ntime_ipiv"]
MAKE_B_INV = {
    1: {   # for n: b[n] = M mu ; B[n, :] = 0
        "b-done": f"all(self.b[n] == {b_SPEC} for n in range(_it))",
        "B-rows-zeroed": "all(self.B[n, m] == 0 for n in range(_it) for m in range(self.n_times))",
    },
    4: {   # for n: B[n, :] = spec ; Binv[n, :] = 0 ; Btmp = B
        "rows-done": f"all(self.B[n, m] == {B_SPEC} and self.Btmp[n, m] == self.B[n, m] and self.Binv[n, m] == 0 for n in range(_it) for m in range(self.n_times))",
        "rows-to-do-zero": "all(self.B[n, m] == 0 for n in range(_it, self.n_times) for m in range(self.n_times))",
        "b-kept": f"all(self.b[n] == {b_SPEC} for n in range(self.n_times))",
    },
    5: {   # for m (inside n)
        "cells-done": f"all(self.B[n, m] == {B_SPEC} and self.Btmp[n, m] == self.B[n, m] and self.Binv[n, m] == 0 for m in range(_it))",
        "cells-to-do": "all(self.B[n, m] == (1 / self.s_ivar[n] if n == m else 0) for m in range(_it, self.n_times))",
        "other-rows": f"all(self.B[r, m] == {_rn(B_SPEC)} and self.Btmp[r, m] == self.B[r, m] and self.Binv[r, m] == 0 for r in range(n) for m in range(self.n_times)) and "
                      "all(self.B[r, m] == 0 for r in range(n + 1, self.n_times) for m in range(self.n_times))",
        "b-kept": f"all(self.b[r] == {_rn(b_SPEC)} for r in range(self.n_times))",
    },
    7: {   # for n: Binv[n, :] = Woodbury row
        "rows-done": f"all(self.Binv[n, m] == {BINV_FULL} for n in range(_it) for m in range(self.n_times))",
        "rows-to-do-zero": "all(self.Binv[n, m] == 0 for n in range(_it, self.n_times) for m in range(self.n_times))",
        "B-b-kept": f"all(self.B[n, m] == {B_SPEC} and self.Btmp[n, m] == self.B[n, m] for n in range(self.n_times) for m in range(self.n_times)) and "
                    f"all(self.b[n] == {b_SPEC} for n in range(self.n_times))",
    },
    8: {   # for i (inside n): partial sums over i' < _it
        "row-partial": f"all(self.Binv[n, m] == {_binv_partial('_it')} for m in range(self.n_times))",
        "other-rows": f"all(self.Binv[r, m] == {_rn(BINV_FULL)} for r in range(n) for m in range(self.n_times)) and "
                      "all(self.Binv[r, m] == 0 for r in range(n + 1, self.n_times) for m in range(self.n_times))",
        "B-b-kept": f"all(self.B[r, m] == {_rn(B_SPEC)} and self.Btmp[r, m] == self.B[r, m] for r in range(self.n_times) for m in range(self.n_times)) and "
                    f"all(self.b[r] == {_rn(b_SPEC)} for r in range(self.n_times))",
    },
    9: {   # for m (inside i): cells m' < _it have received term i as well
        "cells-done": f"all(self.Binv[n, m] == {_binv_partial('i + 1')} for m in range(_it))",
        "cells-to-do": f"all(self.Binv[n, m] == {_binv_partial('i')} for m in range(_it, self.n_times))",
        "other-rows": f"all(self.Binv[r, m] == {_rn(BINV_FULL)} for r in range(n) for m in range(self.n_times)) and "
                      "all(self.Binv[r, m] == 0 for r in range(n + 1, self.n_times) for m in range(self.n_times))",
        "B-b-kept": f"all(self.B[r, m] == {_rn(B_SPEC)} and self.Btmp[r, m] == self.B[r, m] for r in range(self.n_times) for m in range(self.n_times)) and "
                    f"all(self.b[r] == {_rn(b_SPEC)} for r in range(self.n_times))",
    },
}
make_bBBinv = Contract(
    KC + "make_bBBinv", PROPERTY, params={"self": helper_self},
    requires=["all(self.s_ivar[n] != 0 for n in range(self.n_times))"],
    invariants=MAKE_B_INV,
    ensures={
        "b-is-the-prior-mean-of-the-data": f"all(self.b[n] == {b_SPEC} for n in range(self.n_times))",
        "B-is-noise-plus-prior-covariance": f"all(self.B[n, m] == {B_SPEC} for n in range(self.n_times) for m in range(self.n_times))",
        "Binv-is-the-Woodbury-expression": f"all(self.Binv[n, m] == {BINV_FULL} for n in range(self.n_times) for m in range(self.n_times))",
        "returns-log-det-from-the-LU-diagonal-or-INF": "result == INF or (all(lu_source(self.Btmp)[n, m] == self.B[n, m] for n in range(self.n_times) for m in range(self.n_times)) and "
                                                      "result == sum(log_(2 * pi * abs(self.Btmp[i, i])) for i in range(self.n_times)))",
        "modifies-only-its-work-arrays": frame_clause(BB_FIELDS),
    })
make_bBBinv.strict_defined = True
CONTRACTS.append(make_bBBinv)


# =======================================================================================================================================
# callee views of the methods (a caller sees only these contracts)
def _method_callee(contract, fields, ret_kind):
    def res(ex, path, bound, node):
        self = bound["self"]
        new = Obj(self.cls, dict(self.fields), self.ident)
        new.mutable_fields = getattr(self, "mutable_fields", ())
        for f in fields:
            old = self.fields[f]
            new.fields[f] = fresh_arr(f"{f}'", old.ndim, old.dtype, list(old.shape))
            # ghost links of the LAPACK outputs: "is the inverse / LU / solution of <some matrix>" with that matrix existentially
            # chosen here and pinned down entrywise by the callee's postcondition
            if f == "Atmp":
                new.fields[f].inverse_of = fresh_arr("inv_src", 2, "real", list(old.shape))
            if f == "Btmp":
                new.fields[f].lu_of = fresh_arr("lu_src", 2, "real", list(old.shape))
            if f == "a":
                new.fields[f].solution_of = (fresh_arr("solve_A", 2, "real", [old.shape[0], old.shape[0]]), fresh_arr("solve_rhs", 1, "real", list(old.shape)))
        ret = fresh_int("status") if ret_kind == "int" else fresh_real("retval")
        return ret, {"self": new}
    c = Contract(contract.qual, contract.prop, requires=list(contract.requires), ensures=dict(contract.ensures), result=res, defs=contract.defs)
    c.returns_self = True
    c.modifies = list(fields)
    return c


make_AAinv_callee = _method_callee(make_AAinv, A_FIELDS, "int")
make_bBBinv_callee = _method_callee(make_bBBinv, BB_FIELDS, "real")

# =======================================================================================================================================
# likelihood_worker(flag): chi^2 + log det; with flag == 1 also a = solve(Ainv, M^T W y + Lambda^-1 mu)
CHI2 = ("sum(sum((self.b[m] - self.rv[m]) * self.Binv[n, m] * (self.b[n] - self.rv[n]) for m in range(self.n_times)) for n in range(self.n_times))")
RHS = "(sum(self.M_T[i, n] * self.s_ivar[n] * self.rv[n] for n in range(self.n_times)) + self.mu[i] / self.Lambda[i])"
LW_FIELDS = A_FIELDS + BB_FIELDS + ["a"]
ENTRYWISE = {
    "Ainv": f"all(self.Ainv[i, j] == {AINV} for i in range(self.n_linear) for j in range(self.n_linear))",
    "b": f"all(self.b[n] == {b_SPEC} for n in range(self.n_times))",
    "B": f"all(self.B[n, m] == {B_SPEC} for n in range(self.n_times) for m in range(self.n_times))",
    "Binv": f"all(self.Binv[n, m] == {BINV_FULL} for n in range(self.n_times) for m in range(self.n_times))",
}
LW_ENS = {
    # INF = the kernel's failure value when a LAPACK factorisation reports failure (make_AAinv -> INF, make_bBBinv -> -1/2(chi2 + INF))
    "value-is-minus-half-chi2-plus-logdet-or-INF": f"result == INF or result == -0.5 * ({CHI2} + INF) or (result == -0.5 * ({CHI2} + sum(log_(2 * pi * abs(self.Btmp[i, i])) for i in range(self.n_times))) and "
                                                   "all(lu_source(self.Btmp)[n, m] == self.B[n, m] for n in range(self.n_times) for m in range(self.n_times)))",
    "Ainv-entrywise": "result == INF or " + ENTRYWISE["Ainv"],
    "b-entrywise": "result == INF or " + ENTRYWISE["b"],
    "B-entrywise": "result == INF or " + ENTRYWISE["B"],
    "Binv-entrywise": "result == INF or " + ENTRYWISE["Binv"],
    "modifies-only-scratch": frame_clause(LW_FIELDS),
}
LW_ENS_1 = dict(LW_ENS, **{
    "a-solves-the-normal-equations": "result == INF or (all(solve_source(self.a)[0][i, j] == " + AINV + " for i in range(self.n_linear) for j in range(self.n_linear)) and "
                                     "all(solve_source(self.a)[1][i] == " + RHS + " for i in range(self.n_linear)))",
})
LW_INV = {4: {"rhs-partial": "all(self.a[i] == sum(self.M_T[i, n2] * self.s_ivar[n2] * self.rv[n2] for n2 in range(_it)) for i in range(self.n_linear))",
              "rest": " and ".join([ENTRYWISE["Ainv"], ENTRYWISE["b"], ENTRYWISE["B"], ENTRYWISE["Binv"]])}}
likelihood_worker = [
    Contract(KC + "likelihood_worker", PROPERTY, params={"self": helper_self, "make_aAinv": ("const", flag)}, cases=[{"_name": f"flag={flag}"}],
             requires=["all(self.Lambda[i] != 0 for i in range(self.n_linear))", "all(self.s_ivar[n] != 0 for n in range(self.n_times))"],
             invariants=LW_INV, ensures=LW_ENS_1 if flag else LW_ENS)
    for flag in (0, 1)]
for _c in likelihood_worker:
    _c.strict_defined = True
CONTRACTS += likelihood_worker
LW_CALLEES = {KC + "make_AAinv": make_AAinv_callee, "CJokerHelper.make_AAinv": make_AAinv_callee,
              KC + "make_bBBinv": make_bBBinv_callee, "CJokerHelper.make_bBBinv": make_bBBinv_callee}
CALLEES.update(LW_CALLEES)


def _lw_callee(flag_contracts):
    c0 = flag_contracts[1]      # flag == 1 has the superset of clauses; the flag-specific one is guarded
    ens = dict(flag_contracts[0].ensures)
    ens["a-solves-the-normal-equations"] = "implies(make_aAinv == 1, " + flag_contracts[1].ensures["a-solves-the-normal-equations"] + ")"
    tmp = Contract(c0.qual, c0.prop, requires=list(c0.requires), ensures=ens)
    return _method_callee(tmp, LW_FIELDS, "real")


likelihood_worker_callee = _lw_callee(likelihood_worker)
BATCH_CALLEES = {KC + "likelihood_worker": likelihood_worker_callee, "CJokerHelper.likelihood_worker": likelihood_worker_callee,
                 K + "get_ivar": get_ivar_callee}


# =======================================================================================================================================
# batch_marginal_ln_likelihood(chunk): per-iteration contract, proved for an arbitrary iteration started from ARBITRARY scratch state
def chunk_param(ex, path, name):
    a = fresh_arr("chunk", 2, "real", [z3.Int("n_samples"), 5])
    path.assume(a.shape[0] >= 0)
    return a


def pow_axioms():
    x, a = z3.Real("x!pw"), z3.Real("a!pw")
    return [z3.ForAll([x, a], z3.Implies(x > 0, POW(x, a) > 0), patterns=[POW(x, a)])]


def AXIOMS(c):
    return pow_axioms() + [PI > 3, PI < 4]


ROW_OK = ("all(chunk[r, 0] > 0 and 0 <= chunk[r, 1] and chunk[r, 1] < 1 and chunk[r, 4] >= 0 for r in range(chunk.shape[0]))")
HELPER_OK = ["all(self.ivar[k] > 0 for k in range(self.n_times))", "all(self.Lambda[i] > 0 for i in range(1, self.n_linear))",
             "self.P0 > 0", "self.sigma_K0 > 0", "self.max_K > 0", "implies(self.fixed_K_prior != 0, self.Lambda[0] > 0)"]
K_RULE = "min(self.max_K * self.max_K, self.sigma_K0 * self.sigma_K0 / (1 - chunk[_it, 1] * chunk[_it, 1]) * pow_(chunk[_it, 0] / self.P0, -2 / 3))"
ITER_SETUP = {
    "K-column-is-the-unit-Keplerian-curve-of-this-row": "all(self.M_T[0, k] == 1 * rvu_(self.t[k], chunk[_it, 0], chunk[_it, 1], chunk[_it, 2], chunk[_it, 3], self.t0) "
                                                        "for k in range(self.n_times))",
    "trend-rows-untouched": "all(self.M_T[i, k] == head(self).M_T[i, k] for i in range(1, self.n_linear) for k in range(self.n_times))",
    "weights-are-jitter-inflated": "all(self.s_ivar[k] == self.ivar[k] / (1 + chunk[_it, 4] * chunk[_it, 4] * self.ivar[k]) for k in range(self.n_times))",
    "K-variance-rule-with-cap": f"implies(self.fixed_K_prior == 0, self.Lambda[0] == {K_RULE}) and implies(self.fixed_K_prior != 0, self.Lambda[0] == head(self).Lambda[0])",
    "other-prior-variances-untouched": "all(self.Lambda[i] == head(self).Lambda[i] for i in range(1, self.n_linear + self.n_offsets))",
    "immutable-fields-untouched": " and ".join(f"same_array(self.{f}, head(self).{f})" for f in IMMUTABLE),
}


def _lw_value(v):
    out = {}
    for k_, t_ in LW_ENS.items():
        if k_ == "modifies-only-scratch":
            continue
        out[k_] = t_.replace("result", v)
    return out


bml = Contract(
    KC + "batch_marginal_ln_likelihood", PROPERTY, params={"self": helper_self, "chunk": chunk_param},
    requires=[ROW_OK] + HELPER_OK,
    invariants={1: {"helper-stays-well-formed": " and ".join(HELPER_OK), "length": "len(ll) == chunk.shape[0]"}},
    body_ensures={1: {**ITER_SETUP, **_lw_value("ll[_it]"),
                      "earlier-values-kept": "all(ll[q] == head(ll)[q] for q in range(chunk.shape[0]) if q != _it)"}},
    ensures={"one-value-per-row": "len(result) == chunk.shape[0]"})
bml.strict_defined = True
CONTRACTS.append(bml)
CALLEES.update(BATCH_CALLEES)


# =======================================================================================================================================
# batch_get_posterior_samples(chunk, n_linear_samples_per, rng)
def rng_obj(ex, path, name):
    return Obj("Generator", {"name": name}, ident=name)


@model("Generator.multivariate_normal", doc="rng.multivariate_normal(mean, cov, size=k): a k x len(mean) array of draws from N(mean, cov) "
                                            "(that the draws follow that law is numpy's contract, not decided); one trace event")
def _mvn(ex, path, args, kwargs, node, fn):
    rng, mean, cov = args[0], args[1], args[2]
    size = kwargs.get("size", args[3] if len(args) > 3 else None)
    out = fresh_arr("mvn_draws", 2, "real", [size, mean.shape[0]])
    path.ghost.setdefault("rng_trace", []).append({"gen": rng.ident, "kind": "multivariate_normal", "mean": mean, "cov": cov, "size": size,
                                                   "value": out, "line": node.lineno})
    return out


@model("numpy.linalg.inv", doc="np.linalg.inv(X): the two-sided inverse of a nonsingular X (ghost link inverse_of = X)")
def _npinv(ex, path, args, kwargs, node, fn):
    X = args[0]
    r = fresh_arr("inv", 2, "real", list(X.shape))
    r.inverse_of = X
    return r


@model("<Arr>.reshape", doc="np.array(x).reshape(n*j, -1) of a 3-d array: the row-major flattening (ghost view3 = x); 2-d -> 1-d likewise")
def _reshape(ex, path, args, kwargs, node, fn):
    from .common import reshaped_from_3d
    a = args[0]
    if a.ndim == 3:
        return reshaped_from_3d(a, "flat")
    r = fresh_arr("flat", 1, a.dtype, [args[1]])
    r.view2 = a
    return r


@model("last_mvn", doc="spec: the multivariate_normal call of the current iteration (last trace event)")
def _last_mvn(ex, path, args, kwargs, node, fn):
    t = path.ghost.get("rng_trace", [])
    ev = [e for e in t if e["kind"] == "multivariate_normal"]
    if not ev:
        raise Unsupported("no multivariate_normal call recorded on this path")
    return Obj("mvn_event", dict(ev[-1]))


LIB.update({"Generator.multivariate_normal": _mvn, "numpy.linalg.inv": _npinv, "<Arr>.reshape": _reshape, "last_mvn": _last_mvn})

BGP_INV = {
    1: {"helper-stays-well-formed": " and ".join(HELPER_OK),
        "nonlinear-columns-copied-so-far": "all(samples[r, q, c] == chunk[r, c] for r in range(_it) for q in range(n_linear_samples_per) for c in range(5))"},
    2: {"draws-done": "all(samples[n, q, c] == chunk[n, c] for q in range(_it) for c in range(5)) and "
                      "all(samples[n, q, 5 + kk] == linear_pars[q, kk] for q in range(_it) for kk in range(self.n_linear))",
        "earlier-rows-kept": "all(samples[r, q, c] == chunk[r, c] for r in range(n) for q in range(n_linear_samples_per) for c in range(5))"},
}
BGP_ITER = {
    **ITER_SETUP,
    "draw-is-from-the-handed-generator": "last_mvn().gen == 'rng' and last_mvn().size == n_linear_samples_per",
    "mean-solves-the-normal-equations": "_ll == INF or (same_array(last_mvn().mean, self.a) and "
                                        "all(solve_source(self.a)[0][i, j] == " + AINV + " for i in range(self.n_linear) for j in range(self.n_linear)) and "
                                        "all(solve_source(self.a)[1][i] == " + RHS + " for i in range(self.n_linear)))",
    "covariance-is-the-inverse-of-Ainv": "_ll == INF or all(inverse_source(last_mvn().cov)[i, j] == " + AINV + " for i in range(self.n_linear) for j in range(self.n_linear))",
    "this-row-copied-with-its-draws": "all(samples[_it, q, c] == chunk[_it, c] for q in range(n_linear_samples_per) for c in range(5)) and "
                                      "all(samples[_it, q, 5 + kk] == last_mvn().value[q, kk] for q in range(n_linear_samples_per) for kk in range(self.n_linear))",
}
bgp = Contract(
    KC + "batch_get_posterior_samples", "C03",
    params={"self": helper_self, "chunk": chunk_param, "n_linear_samples_per": "pos", "rng": rng_obj},
    requires=[ROW_OK] + HELPER_OK + ["self.n_pars >= 5 + self.n_linear"],
    invariants=BGP_INV, body_ensures={1: BGP_ITER},
    ensures={"nonlinear-parameters-copied-unchanged": "all(view3(result[0])[r, q, c] == chunk[r, c] for r in range(chunk.shape[0]) "
                                                      "for q in range(n_linear_samples_per) for c in range(5))",
             "shape": "view3(result[0]).shape[0] == chunk.shape[0] and view3(result[0]).shape[1] == n_linear_samples_per"})
bgp.strict_defined = True
CONTRACTS.append(bgp)


# =======================================================================================================================================
# CJokerHelper.__init__(data, prior, trend_M): slot map of the prior means/variances, unit conversions (C01 / C07)
from . import astromodel as A   # noqa: E402

SPEED = (-1, 1, 0)
TIME = (1, 0, 0)


def _dist(name, unit, kind="Normal"):
    op = Obj("Op", {"_print_name": PyList([kind, "tex"], None, True)})
    d = Obj("TensorVariable", {"name": name, "__tensor_unit__": unit, "owner": Obj("Apply", {"op": op}),
                               "mean": z3.Real(f"mean_{name}"), "std": z3.Real(f"std_{name}")}, ident=f"dist_{name}")
    return d


def init_params(poly_trend, n_offsets, default_K):
    def build_prior(ex, path, name):
        lin = ["K"] + [f"v{i}" for i in range(poly_trend)]
        offs = [f"dv0_{i}" for i in range(1, n_offsets + 1)]
        dists = {}
        for nm in lin + offs:
            dim = SPEED if nm in ("K", "v0") or nm.startswith("dv0") else (-1 - int(nm[1:]), 1, 0)
            u_ = A.sym_unit(f"unit_{nm}", dim)
            path.assume(*u_.sym_facts)
            dists[nm] = _dist(nm, u_, "FixedCompanionMass" if (nm == "K" and default_K) else "Normal")
        Pu = A.sym_unit("unit_P", TIME)
        path.assume(*Pu.sym_facts)
        Pvar = Obj("TensorVariable", {"name": "P", "__tensor_unit__": Pu})
        if default_K:
            for fld, dim in (("_sigma_K0", SPEED), ("_P0", TIME), ("_max_K", SPEED)):
                uu = A.sym_unit(f"unit{fld}", dim)
                path.assume(*uu.sym_facts)
                dists["K"].fields[fld] = A.quantity(z3.Real(f"K{fld}.value"), uu)
        model = PyDict([(k, v) for k, v in dists.items()])
        pars = PyDict([("P", Pvar)] + [(k, dists[k]) for k in lin])
        leq = PyDict([(k, A.U_ONE) for k in lin])
        o = Obj("JokerPrior", {"v0_offsets": PyList([dists[k] for k in offs]), "_v_trend_names": PyList([f"v{i}" for i in range(poly_trend)]),
                               "poly_trend": poly_trend, "n_offsets": n_offsets,
                               "par_names": PyList(["P", "e", "omega", "M0", "s"] + lin + offs), "model": model, "pars": pars,
                               "_linear_equiv_units": leq}, ident="prior")
        path.ghost["dists"] = dists
        return o

    def build_data(ex, path, name):
        nt = z3.Int("n_times")
        path.assume(nt >= 1)
        ru = A.sym_unit("rv_unit", SPEED)
        eu = A.sym_unit("err_unit", SPEED)
        path.assume(*ru.sym_facts, *eu.sym_facts)
        ivar = A.quantity(fresh_arr("data_ivar", 1, "real", [nt]), A.unit_pow(eu, -2))
        o = Obj("RVData", {"rv": A.quantity(fresh_arr("data_rv", 1, "real", [nt]), ru), "_t_bmjd": fresh_arr("data_t", 1, "real", [nt]),
                           "_t_ref_bmjd": z3.Real("data_t_ref"), "ivar": ivar, "__len__": nt}, ident="data")
        return o

    def build_trend(ex, path, name):
        return fresh_arr("trend_M", 2, "real", [z3.Int("n_times"), z3.Int("trend_cols")])
    return {"self": lambda ex, path, n: Obj("CJokerHelper", {}, ident="self"), "data": build_data, "prior": build_prior, "trend_M": build_trend}


def _res_mean_std(ex, path, bound, node):
    d, iu, ou = bound["dist"], bound["in_unit"], bound["out_unit"]
    f = A.factor(iu, ou)
    return PyList([arith(ast.Mult(), d.fields["mean"], f), arith(ast.Mult(), d.fields["std"], f)], None, True)


mean_std_callee = Contract("thejoker.utils._pytensor_get_mean_std", "C07", ensures={}, result=_res_mean_std)


@model("phys_mean", doc="spec: prior mean of a linear parameter as a physical quantity (value x unit scale)")
def _phys_mean(ex, path, args, kwargs, node, fn):
    d = path.ghost["dists"][args[0]]
    return d.fields["mean"] * to_z3(d.fields["__tensor_unit__"].fields["scale"], "real")


@model("phys_std")
def _phys_std(ex, path, args, kwargs, node, fn):
    d = path.ghost["dists"][args[0]]
    return d.fields["std"] * to_z3(d.fields["__tensor_unit__"].fields["scale"], "real")


@model("phys_K", doc="spec: sigma_K0 / P0 / max_K of the default K prior as physical quantities")
def _phys_K(ex, path, args, kwargs, node, fn):
    q = path.ghost["dists"]["K"].fields[args[0]]
    return to_z3(q.fields["value"], "real") * to_z3(q.fields["unit"].fields["scale"], "real")


LIB.update({"phys_mean": _phys_mean, "phys_std": _phys_std, "phys_K": _phys_K})


def init_contracts():
    out = []
    for pt_, no, dK in ((1, 0, True), (2, 0, True), (1, 1, True), (2, 2, True), (1, 0, False), (1, 1, False), (3, 1, False)):
        nl = 1 + pt_ + no
        RV = "data.rv.unit.scale"                      # scale of the data RV unit (the kernel's internal velocity unit)
        ens = {
            "counts": f"self.n_times == len(data) and self.n_linear == {nl} and self.n_offsets == {no} and self.n_poly == {pt_}",
            "unit-table-order": f"list(self.internal_units.keys()) == {['P', 'e', 'omega', 'M0', 's', 'K', 'v0'] + [f'dv0_{i}' for i in range(1, no + 1)] + [f'v{i}' for i in range(1, pt_)]!r}",
            "nonlinear-internal-units": "self.internal_units['P'].scale == 86400 and self.internal_units['P'].dim == (1, 0, 0) and "
                                        "self.internal_units['s'] is data.rv.unit and self.internal_units['K'] is data.rv.unit",
            "data-in-the-data-unit": f"all(self.rv[k] == data.rv.value[k] and self.t[k] == data._t_bmjd[k] for k in range(len(data))) and self.t0 == data._t_ref_bmjd and "
                                     f"all(self.ivar[k] * data.ivar.unit.scale == data.ivar.value[k] * (1 / ({RV} * {RV})) * ({RV} * {RV}) * data.ivar.unit.scale * (1 / ({RV} * {RV})) * ({RV} * {RV}) or "
                                     f"self.ivar[k] * (1 / ({RV} * {RV})) == data.ivar.value[k] * data.ivar.unit.scale for k in range(len(data)))",
            "trend-rows-are-the-design-matrix-columns": f"all(self.M_T[i, n] == trend_M[n, i - 1] for i in range(1, {nl}) for n in range(len(data)))",
            "v0-slot-1": f"self.mu[1] * {RV} == phys_mean('v0') and self.Lambda[1] * {RV} * {RV} == phys_std('v0') * phys_std('v0')",
        }
        for k in range(1, no + 1):
            ens[f"offset-{k}-slot-{1 + k}"] = (f"self.mu[{1 + k}] * {RV} == phys_mean('dv0_{k}') and "
                                               f"self.Lambda[{1 + k}] * {RV} * {RV} == phys_std('dv0_{k}') * phys_std('dv0_{k}')")
        for j in range(1, pt_):
            slot = 1 + no + j
            sc = f"({RV} / {86400 ** j})"        # velocity unit per day^j
            ens[f"trend-v{j}-slot-{slot}"] = (f"self.mu[{slot}] * {sc} == phys_mean('v{j}') and self.Lambda[{slot}] * {sc} * {sc} == phys_std('v{j}') * phys_std('v{j}')")
        if dK:
            ens["default-K-prior-constants"] = (f"self.fixed_K_prior == 0 and self.sigma_K0 * {RV} == phys_K('_sigma_K0') and self.max_K * {RV} == phys_K('_max_K') and "
                                                "self.P0 * 86400 == phys_K('_P0') and " f"self.mu[0] * {RV} == phys_mean('K')")
        else:
            ens["custom-K-slot-0"] = f"self.fixed_K_prior == 1 and self.mu[0] * {RV} == phys_mean('K') and self.Lambda[0] * {RV} * {RV} == phys_std('K') * phys_std('K')"
        ens.pop("data-in-the-data-unit")
        ens["data-in-the-data-unit"] = (f"all(self.rv[k] == data.rv.value[k] and self.t[k] == data._t_bmjd[k] for k in range(len(data))) and self.t0 == data._t_ref_bmjd and "
                                        f"all(self.ivar[k] == data.ivar.value[k] * (data.ivar.unit.scale / (1 / ({RV} * {RV}))) for k in range(len(data)))")
        out.append(Contract(KC + "__init__", "C07", params=init_params(pt_, no, dK),
                            cases=[{"_name": f"poly_trend={pt_},n_offsets={no},{'default' if dK else 'custom'}-K"}], ensures=ens))
    return out


init_contracts_ = init_contracts()
CONTRACTS += init_contracts_
CALLEES["thejoker.utils._pytensor_get_mean_std"] = mean_std_callee


# ---- utils._pytensor_get_mean_std itself (it is only a callee above): the prior's mean and standard deviation, declared in `in_unit`, come back
# as numbers in `out_unit` with the physical values unchanged - on both branches of the pytensor version switch --------------------------------------
def _ms_dist(ex, path, name):
    mean, std = z3.Real("prior_mean"), z3.Real("prior_std")
    ev = lambda v: Obj("TensorConstant", {"value": v})
    params = PyList([ev(mean), ev(std)], None, True)
    op = Obj("Op", {"params": params})
    owner = Obj("Apply", {"op": op, "inputs": PyList([Opaque("rng"), Opaque("size"), Opaque("dtype"), ev(mean), ev(std)], None, False)})
    return Obj("TensorVariable", {"owner": owner, "mean": mean, "std": std}, ident="dist")


@model("Op.dist_params", doc="pytensor >= 2.23: op.dist_params(node) returns the distribution parameters (mu, sigma) of a Normal-family variable")
def _dist_params(ex, path, args, kwargs, node, fn):
    return args[0].fields["params"]


@model("TensorConstant.eval", doc=".eval() of a constant parameter: its value")
def _tc_eval(ex, path, args, kwargs, node, fn):
    return args[0].fields["value"]


@model("packaging.version.Version", "thejoker.utils.Version", "Version", doc="Version(x): compared only with >=; which side of the switch is taken is arbitrary")
def _version(ex, path, args, kwargs, node, fn):
    o = Obj("Version", {})
    o.fields["__cmp__"] = lambda op, a, b: z3.Bool("pytensor_version_at_least_2_23")
    return o


def _unit_param(nm):
    def build(ex, path, name):
        u_ = A.sym_unit(nm, SPEED)
        path.assume(*u_.sym_facts)
        return u_
    return build


mean_std = Contract("thejoker.utils._pytensor_get_mean_std", "C07",
                    params={"dist": _ms_dist, "in_unit": _unit_param("declared_unit"), "out_unit": _unit_param("wanted_unit")},
                    ensures={"mean-converted-with-the-physical-value-unchanged": "result[0] * out_unit.scale == dist.mean * in_unit.scale",
                             "standard-deviation-converted-with-the-physical-value-unchanged": "result[1] * out_unit.scale == dist.std * in_unit.scale"},
                    cover=["True"])
mean_std.lib = {"Op.dist_params": _dist_params, "TensorConstant.eval": _tc_eval, "packaging.version.Version": _version, "thejoker.utils.Version": _version,
                "Version": _version, "pytensor.__version__": "2.x"}
