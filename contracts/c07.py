"""C07 - physical results are invariant under the choice of units.  Every unit is an object with an exact real scale
(contracts/astromodel.py); a value converted with the wrong unit is a wrong real factor, so the clauses below are
equalities of *physical quantities* (value x scale): prior means/variances, sigma_K0, max_K in the data RV unit,
P0 in days (the unit P arrives in), trend terms in RV unit / day^j, data in the data unit."""
from . import kernel as KN

PROPERTY = "C07"
from . import c08 as C08   # noqa: E402
CONTRACTS = list(KN.init_contracts_) + [C08.vpd_data, KN.mean_std]
# prior-sample columns in any equivalent units: the readers convert every requested column by the exact factor, on every dispatch branch
from . import c12 as _C12   # noqa: E402
CONTRACTS += _C12.read_batch_slice + _C12.read_batch_idx + _C12.read_batch + [_C12.header_units]
CALLEES = dict(KN.CALLEES)
LIB = dict(KN.LIB)
HOOKS = KN.HOOKS
AXIOMS = KN.AXIOMS
ASSUMPTIONS = ["astropy conversion factors are exact reals: Quantity.to_value(U) = value x scale(unit)/scale(U)",
               "pytensor introspection of a Normal prior returns its mean and standard deviation"]
NOT_DECIDED = ["the Jacobian constant n_epochs * ln(unit ratio) of the likelihood value itself follows from C01's formula by a scaling argument that "
               "is exercised by the twin (bounded), not proved"]

# the plumbing this property's claim runs through (contracts/chain.py): listed here too, so that a change inside it is caught by THIS check
from . import chain as CH   # noqa: E402
CH.extend(CONTRACTS, CH.plumbing() + CH.tables())

# how the priors are declared (which distribution, with which scale, tagged with which unit): default_linear_prior / default_nonlinear_prior /
# FixedCompanionMass.dist, contracts stated in c09.py - the unit statement depends on them
from . import c09 as _C09   # noqa: E402
from .chain import clone as _clone9   # noqa: E402
CONTRACTS += [_clone9(_c, callees=getattr(_c, "callees", None) or _C09.CALLEES, lib=_C09.LIB, hooks=_C09.HOOKS, home="c09") for _c in (_C09.linear + [_C09.nonlinear, _C09.fcm])]


def EXTRA():
    from . import chain as _CHX
    return _CHX.frame_effects(PROPERTY)
