"""The plumbing every sampling entry point runs through - readers, task partition, pool workers, helpers that put the blocks together, the
cache-file wrapper, pack / unpack.  A property about what the sampler returns depends on all of it, so each of those properties lists these
contracts too (a change inside the plumbing is otherwise noticed only by the property the function was first written for).

Contracts are CLONED with their own callee / library tables, so they can be listed by any property module without touching its tables."""
import copy

from jvc.symexec import Contract

from . import c12 as _C12
from . import c13 as _C13
from . import c17 as _C17
from . import filemodel
from . import workers as _W


def clone(c, callees=None, lib=None, only=None, hooks=None, home=None):
    """home: name of the contract module (e.g. "c09") whose LIB / AXIOMS / HOOKS apply to this contract when another property lists it"""
    c2 = copy.copy(c)
    if home is not None:
        c2.home = home
    if hooks is not None:
        c2.hooks = hooks
    c2.ensures = dict(c.ensures) if only is None else {k: v for k, v in c.ensures.items() if only(k)}
    c2.exc_ensures = dict(c.exc_ensures)
    if callees is not None:
        c2.callees = dict(callees)
    elif getattr(c, "callees", None) is not None:
        c2.callees = dict(c.callees)
    if lib is not None:
        c2.lib = dict(lib)
    elif getattr(c, "lib", None) is not None:
        c2.lib = dict(c.lib)
    return c2


def readers():
    """read_batch dispatch + the slice / index readers + the unit table of the file header"""
    out = []
    for c in _C12.read_batch_slice + _C12.read_batch_idx + _C12.read_batch:
        out.append(clone(c, callees=getattr(c, "callees", None) or _C12.CALLEES, lib=getattr(c, "lib", None) or _C12.LIB, hooks=getattr(_C12, "HOOKS", None), home="c12"))
    out.append(clone(_C12.header_units, hooks=getattr(_C12, "HOOKS", None), home="c12"))
    for c in _C12.contains_column:
        out.append(clone(c, hooks=getattr(_C12, "HOOKS", None), home="c12"))
    return out


def _wlib():
    return filemodel.install_repo_models(dict(_W.LIB))


def plumbing(which=("ll", "post")):
    """run_worker (task partition, child generators), the pool workers, and the helpers that put the blocks together for any batching"""
    out = [clone(c, callees=_W.RW_CALLEES, lib=_wlib(), home="c05") for c in _W.run_worker_contracts]
    if "ll" in which:
        out += [clone(c, callees=_W.CHAIN_CALLEES, lib=_wlib(), home="c05") for c in _W.ll_worker + [_W.ll_helper_body]]
    if "post" in which:
        out += [clone(c, callees=_W.CHAIN_CALLEES, lib=_wlib(), home="c05") for c in _W.post_worker + [_W.full_body]]
    return out


def tables(pack=True, unpack=True):
    out = []
    if pack:
        out += [clone(c, callees=getattr(c, "callees", None) or _C17.CALLEES, lib=_C17.LIB, hooks=_C17.HOOKS, home="c17") for c in _C17.pack]
    if unpack:
        out += [clone(c, lib=_C17.LIB, hooks=_C17.HOOKS, home="c17") for c in _C17.unpack]
    return out


def wrapper():
    """the cache-file decorator: the wrapped helper gets the user's file, or a temporary file written from the user's object itself"""
    return [clone(c, callees=_C13.CALLEES, lib=_C13.LIB, hooks=_C13.HOOKS, home="c13") for c in _C13.wrapper]


def extend(contracts, extra):
    """append the contracts of `extra` whose (function, case) is not already listed"""
    have = {(c.qual, tuple(cs.get("_name", "") for cs in c.cases)) for c in contracts}
    for c in extra:
        key = (c.qual, tuple(cs.get("_name", "") for cs in c.cases))
        if key not in have:
            contracts.append(c)
            have.add(key)
    return contracts


PLUMBING_MODULES = ["thejoker.utils", "thejoker.multiproc_helpers", "thejoker.likelihood_helpers", "thejoker.samples", "thejoker.samples_helpers",
                    "thejoker.data_helpers"]
READ_ONLY = ["thejoker.utils.read_batch", "thejoker.utils.read_batch_slice", "thejoker.utils.read_batch_idx", "thejoker.utils.read_random_batch",
             "thejoker.samples.JokerSamples.pack", "thejoker.samples.JokerSamples.unpack", "thejoker.data_helpers.validate_prepare_data",
             "thejoker.multiproc_helpers.run_worker", "thejoker.multiproc_helpers.marginal_ln_likelihood_worker",
             "thejoker.multiproc_helpers.make_full_samples_worker", "thejoker.multiproc_helpers.marginal_ln_likelihood_helper",
             "thejoker.multiproc_helpers.make_full_samples", "thejoker.multiproc_helpers.rejection_sample_helper",
             "thejoker.multiproc_helpers.iterative_rejection_helper", "thejoker.likelihood_helpers.rejection_sample_inmem",
             "thejoker.likelihood_helpers.iterative_rejection_inmem", "thejoker.likelihood_helpers.marginal_ln_likelihood_inmem",
             "thejoker.likelihood_helpers.make_full_samples_inmem", "thejoker.likelihood_helpers.get_trend_design_matrix",
             "thejoker.likelihood_helpers.get_constant_term_design_matrix", "thejoker.samples_analysis.is_P_unimodal"]


def frame_effects(prop):
    """effect obligations about the plumbing as a whole (AST): nothing it is handed is updated in place, and nothing is remembered between calls"""
    from jvc import effects
    out = effects.check_no_inplace_on_borrowed(READ_ONLY, prop)
    out += [dict(r, name=f"{prop}/effects/" + r["name"]) for r in effects.check_module_state(PLUMBING_MODULES)]
    return out
