"""C10 - seeded runs are reproducible and randomness is confined to the given generator.
A frame/effect property: (1) no function of the package calls an ambient randomness source; (2) on every call edge whose
callee takes a generator, the caller's generator is passed (AST / call-graph obligations, `cfg` back end); (3) every draw
recorded on the ghost trace of the sampling functions is on the handed generator (or on children spawned from it);
(4) spawned child generators are pairwise distinct within a call and fresh across calls (spawn counter)."""
from jvc import effects

from . import filemodel
from . import rejection as R
from . import workers as W

PROPERTY = "C10"
CONTRACTS = (R.select([R.marginal_inmem, R.full_inmem] + R.rejection_inmem + R.rejection_file + R.iterative_inmem + R.iterative_file, {"C10"})
             + R.select(W.run_worker_contracts + W.ll_worker + W.post_worker + [W.ll_helper_body, W.full_body], {"C10"}))
CALLEES = {**R.INMEM_CALLEES, **R.FILE_CALLEES}
for _c in CONTRACTS:
    if "run_worker" in _c.qual:
        _c.callees = dict(W.RW_CALLEES)
    elif _c.qual.endswith(("marginal_ln_likelihood_worker", "make_full_samples_worker", "marginal_ln_likelihood_helper", "make_full_samples")):
        _c.callees = dict(W.CHAIN_CALLEES)
LIB = filemodel.install_repo_models(dict(W.LIB))
# prior draws: one joint pm.draw on the handed generator and nothing else (JokerPrior.sample, contract shared with C09)
from . import c09 as _C09   # noqa: E402
from jvc.symexec import Contract as _Contract   # noqa: E402
for _c in _C09.sample:
    _k = "one-joint-draw-on-the-handed-generator-and-no-other"
    _c2 = _Contract(_c.qual, PROPERTY, _c.params, _c.requires, {_k: _c.ensures[_k]}, _c.invariants, _c.defs, _c.cases, _c.result, _c.cover)
    _c2.callees = _c.callees
    _c2.lib = dict(_C09.LIB)
    CONTRACTS.append(_c2)


def EXTRA():
    out = effects.check_randomness()
    # no draw may depend on the iteration order of a set (hash-seed dependent), and the batching option reaches the function that spawns one
    # child generator per batch (so that the pool size cannot change which draws a sample gets)
    out += effects.check_no_set_order_dependence(PROPERTY)
    out += effects.check_option_forwarding(["thejoker.multiproc_helpers.rejection_sample_helper", "thejoker.multiproc_helpers.iterative_rejection_helper"],
                                           PROPERTY, skip=("self", "joker_helper", "prior_samples_file"), only_callees=("make_full_samples",))
    return out


ASSUMPTIONS = ["bit-identity additionally needs numpy / pymc / LAPACK / h5py determinism and order-preserving pools (assumed)",
               "pm.draw(vars, draws, random_seed=rng) uses only that generator",
               "SeedSequence.spawn children are keyed by the parent's spawn counter"]
NOT_DECIDED = ["bit-identical outputs themselves (exercised by the twin on every entry point, bounded)"]
