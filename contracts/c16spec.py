"""Spec vocabulary and clauses of C16 (shared by the batch_tasks contract and by its call-site contract)."""
# spec helper functions (evaluated by the same translator as the code)
DEFS_IDX = {"lo": (["t"], "t[0][0]"), "hi": (["t"], "t[0][1]")}
DEFS_ARR = {"lo": (["t"], "slice_lo(t[0])"), "hi": (["t"], "slice_hi(t[0])")}

ENSURES = {
    "nonempty": "len(result) >= 1",
    "count": "len(result) == (n_batches if n_tasks >= n_batches else 1)",
    "first": "lo(result[0]) == start_idx",
    "last": "hi(result[len(result) - 1]) == start_idx + n_tasks",
    "chain": "all(hi(result[k]) == lo(result[k + 1]) for k in range(len(result) - 1))",
    "each-nonempty": "all(lo(result[k]) < hi(result[k]) for k in range(len(result)))",
    "own-start": "all(result[k][1] == lo(result[k]) for k in range(len(result)))",
    "args-passed": "all(result[k][2:] == final(args) for k in range(len(result)))",
}
ENSURES_ARR = dict(ENSURES)
ENSURES_ARR["arr-slice"] = "all(slice_base(result[k][0]) is arr for k in range(len(result)))"

INV = {
    "len": "len(tasks) == _it",
    "i1-closed-form": "i1 == start_idx + _it * base_batch_size + min(_it, rmdr)",
    "tasks-closed-form": "all(lo(tasks[k]) == start_idx + k * base_batch_size + min(k, rmdr) and "
                         "hi(tasks[k]) == start_idx + (k + 1) * base_batch_size + min(k + 1, rmdr) for k in range(_it))",
    "own-start": "all(tasks[k][1] == lo(tasks[k]) for k in range(_it))",
    "args-passed": "all(tasks[k][2:] == args for k in range(_it))",
}
INV_ARR = dict(INV)
INV_ARR["arr-slice"] = "all(slice_base(tasks[k][0]) is arr for k in range(_it))"


