"""Assumed library contracts for astropy units / Quantity / Time (DESIGN Appendix A).

Unit      = Obj("Unit", dim: tuple of integer exponents over (time, length, angle), scale: real term > 0)
            scale is the factor to the coherent base unit of the dimension; conversion  U -> V  multiplies by
            U.scale / V.scale  and is defined only for equal dims (otherwise astropy raises UnitConversionError).
Quantity  = Obj("Quantity", value: scalar term | Arr, unit: Unit)
Time      = Obj("Time", mjd: scalar | Arr)   (TCB MJD; `.tcb.mjd` is assumed elementwise pure, here the identity on
            values that were given as TCB MJD)
All conversion factors are exact real numbers (S2); this is what "physical results are invariant under the choice
of units" is decided against (C07): a value tagged with the wrong unit shows up as a wrong real factor.
"""
import ast
from fractions import Fraction

import z3

from jvc.lib import LIB, model
from jvc.symexec import PI, SQRT, arith, b_and, b_not, compare, index, length, to_z3, truth, val_eq
from jvc.values import (Arr, NameRef, Obj, Opaque, PyList, SliceV, Unsupported, fresh_arr, fresh_name, fresh_real,
                        is_int, is_num, is_real, is_z3)

DIMS = ("time", "length", "angle")


def unit(dim, scale, name=None):
    o = Obj("Unit", {"dim": tuple(dim), "scale": scale, "name": name or "unit"}, ident=name or fresh_name("unit"))
    o.fields["__arith__"] = _unit_arith
    o.fields["__cmp__"] = _unit_cmp
    return o


def _dim(time=0, length=0, angle=0):
    return (time, length, angle)


def sym_unit(name, dim):
    """a unit the caller chose: known dimension, arbitrary positive scale"""
    s = z3.Real(f"{name}.scale")
    u_ = unit(dim, s, name)
    u_.sym_facts = [s > 0]
    return u_


def unit_mul(a, b, sign=1):
    dim = tuple(x + sign * y for x, y in zip(a.fields["dim"], b.fields["dim"]))
    sa, sb = a.fields["scale"], b.fields["scale"]
    sc = arith(ast.Mult() if sign == 1 else ast.Div(), sa, sb)
    u_ = unit(dim, sc)
    u_.sym_facts = getattr(a, "sym_facts", []) + getattr(b, "sym_facts", [])
    return u_


def unit_pow(a, n):
    if not isinstance(n, int):
        if isinstance(n, Fraction) and n.denominator == 1:
            n = int(n)
        else:
            raise Unsupported("non-integer unit power")
    dim = tuple(x * n for x in a.fields["dim"])
    sc = 1
    for _ in range(abs(n)):
        sc = arith(ast.Mult(), sc, a.fields["scale"])
    if n < 0:
        sc = arith(ast.Div(), 1, sc)
    u_ = unit(dim, sc)
    u_.sym_facts = getattr(a, "sym_facts", [])
    return u_


def is_unit(x):
    return isinstance(x, Obj) and x.cls == "Unit"


def is_q(x):
    return isinstance(x, Obj) and x.cls == "Quantity"


def is_time(x):
    return isinstance(x, Obj) and x.cls == "Time"


def factor(u_from, u_to):
    if u_from.fields["dim"] != u_to.fields["dim"]:
        raise Unsupported(f"unit conversion between different dimensions {u_from.fields['name']} -> {u_to.fields['name']} "
                          "(astropy raises UnitConversionError)")
    if u_from is u_to:
        return 1
    return arith(ast.Div(), u_from.fields["scale"], u_to.fields["scale"])


def _unit_arith(op, a, b, ctx, path, line):
    if isinstance(op, ast.Pow) and is_unit(a):
        return unit_pow(a, b)
    if is_unit(a) and is_unit(b):
        if isinstance(op, ast.Mult):
            return unit_mul(a, b, 1)
        if isinstance(op, ast.Div):
            return unit_mul(a, b, -1)
    if is_q(a) or is_q(b):
        return _q_arith(op, a, b, ctx, path, line)
    # 1 / unit is a unit (astropy)
    if is_unit(b) and isinstance(op, ast.Div) and isinstance(a, int) and not isinstance(a, bool) and a == 1:
        return unit_pow(b, -1)
    # number (or array) * unit -> Quantity ;  number / unit
    if is_unit(b) and isinstance(op, (ast.Mult, ast.Div)):
        u_ = b if isinstance(op, ast.Mult) else unit_pow(b, -1)
        return quantity(a, u_)
    if is_unit(a) and isinstance(op, (ast.Mult, ast.Div)):
        if isinstance(op, ast.Mult):
            return quantity(b, a)
        return quantity(arith(ast.Div(), 1, b, ctx, path, line), a)
    raise Unsupported(f"unit arithmetic {type(op).__name__}")


def _unit_cmp(op, a, b):
    if is_unit(a) and is_unit(b) and ("symdim" in a.fields or "symdim" in b.fields):
        # a unit of symbolic dimension (C18's candidate units): equal units have equal dimensions and equal scales; the scale of the
        # candidate is unknown, so "same scale" is one free Boolean per compared pair
        import z3 as _z3
        da = a.fields.get("symdim", a.fields.get("dim"))
        db = b.fields.get("symdim", b.fields.get("dim"))
        tag = f"same_scale({a.fields.get('name', getattr(a, 'ident', 'u'))},{b.fields.get('name', getattr(b, 'ident', 'u'))})"
        eq = _z3.And(*[x == y for x, y in zip(da, db)], _z3.Bool(tag))
        if isinstance(op, ast.Eq):
            return eq
        if isinstance(op, ast.NotEq):
            return _z3.Not(eq)
    if is_unit(a) and is_unit(b):
        same = a.fields["dim"] == b.fields["dim"]
        eq = val_eq(a.fields["scale"], b.fields["scale"]) if same else False
        if isinstance(op, ast.Eq):
            return eq
        if isinstance(op, ast.NotEq):
            return b_not(eq)
    raise Unsupported("unit comparison")


def quantity(value, u_):
    if is_q(value):
        return quantity(value.fields["value"], unit_mul(value.fields["unit"], u_, 1))
    if isinstance(value, PyList) and value.tail is None and all(is_num(x) for x in value.items):
        from jvc.lib import LIB as _L
        value = _L["numpy.array"](None, None, [value], {}, None, None)
    o = Obj("Quantity", {"value": value, "unit": u_})
    o.fields["__arith__"] = _q_arith
    o.fields["__cmp__"] = _q_cmp
    o.fields["__getitem__"] = _q_getitem
    o.fields["__setitem__"] = _q_setitem
    if isinstance(value, Arr):
        o.fields["__len__"] = value.shape[0] if value.shape else 1
    return finish_quantity(o)


def qval(q, u_to):
    f = factor(q.fields["unit"], u_to)
    v = q.fields["value"]
    if not is_z3(f) and f == 1:
        return v
    return arith(ast.Mult(), v, f)


def _q_getitem(ex, path, recv, idx, node):
    return quantity(index(recv.fields["value"], idx), recv.fields["unit"])


def _q_setitem(ex, path, base, idx, value, node):
    """q[idx] = v : v is converted to q's unit first (astropy)"""
    from jvc.symexec import arr_store
    v = qval(value, base.fields["unit"]) if is_q(value) else value
    r = arr_store(base.fields["value"], idx, v)
    path.assume(*[f for f in getattr(r, "facts", []) if f is not True and not any(f is g for g in path.pc)])
    return quantity(r, base.fields["unit"])


def _q_arith(op, a, b, ctx, path, line):
    if is_time(a) or is_time(b):
        return _time_arith(op, a, b, ctx, path, line)
    if is_unit(b):
        b = quantity(1, b)
    if is_unit(a):
        a = quantity(1, a)
    if isinstance(op, (ast.Mult, ast.Div)):
        va = a.fields["value"] if is_q(a) else a
        vb = b.fields["value"] if is_q(b) else b
        ua = a.fields["unit"] if is_q(a) else U_ONE
        ub = b.fields["unit"] if is_q(b) else U_ONE
        return quantity(arith(op, va, vb, ctx, path, line), unit_mul(ua, ub, 1 if isinstance(op, ast.Mult) else -1))
    if isinstance(op, (ast.Add, ast.Sub)):
        if not is_q(a):
            a = quantity(a, U_ONE)
        if not is_q(b):
            b = quantity(b, U_ONE)
        return quantity(arith(op, a.fields["value"], qval(b, a.fields["unit"]), ctx, path, line), a.fields["unit"])
    if isinstance(op, ast.Pow) and is_q(a):
        if isinstance(b, Fraction) and b.denominator == 1:
            b = int(b)
        if isinstance(b, int):
            return quantity(arith(op, a.fields["value"], b, ctx, path, line), unit_pow(a.fields["unit"], b))
        raise Unsupported("fractional power of a quantity")
    if isinstance(op, ast.Mod) and is_q(a) and is_q(b) and a.fields["unit"].fields["dim"] == b.fields["unit"].fields["dim"]:
        return quantity(arith(op, a.fields["value"], qval(b, a.fields["unit"]), ctx, path, line), a.fields["unit"])
    if isinstance(op, ast.Mod) and is_q(a):
        # Quantity % number: astropy converts to dimensionless first
        v = qval(a, U_ONE) if a.fields["unit"].fields["dim"] == U_ONE.fields["dim"] else None
        if v is None:
            raise Unsupported("% on a dimensional quantity")
        bb = qval(b, U_ONE) if is_q(b) else b
        return quantity(arith(op, v, bb, ctx, path, line), U_ONE)
    raise Unsupported(f"quantity arithmetic {type(op).__name__}")


def _q_cmp(op, a, b):
    if is_q(a) and is_q(b):
        return compare(op, a.fields["value"], qval(b, a.fields["unit"]))
    q, other, flip = (a, b, False) if is_q(a) else (b, a, True)
    if q.fields["unit"].fields["dim"] != U_ONE.fields["dim"] and not (isinstance(other, int) and other == 0):
        raise Unsupported("comparison of a dimensional quantity with a number")
    v = q.fields["value"] if (isinstance(other, int) and other == 0) else qval(q, U_ONE)
    return compare(op, other, v) if flip else compare(op, v, other)


U_ONE = unit(_dim(), 1, "one")
U_DAY = unit(_dim(time=1), 86400, "day")
U_S = unit(_dim(time=1), 1, "s")
U_HOUR = unit(_dim(time=1), 3600, "hour")
U_YEAR = unit(_dim(time=1), Fraction(31557600), "yr")
U_M = unit(_dim(length=1), 1, "m")
U_KM = unit(_dim(length=1), 1000, "km")
U_AU = unit(_dim(length=1), 149597870700, "au")
U_RAD = unit(_dim(angle=1), 1, "rad")
U_DEG = unit(_dim(angle=1), PI / 180, "deg")
KNOWN = {"one": U_ONE, "dimensionless_unscaled": U_ONE, "day": U_DAY, "d": U_DAY, "s": U_S, "hour": U_HOUR, "year": U_YEAR,
         "yr": U_YEAR, "m": U_M, "km": U_KM, "au": U_AU, "rad": U_RAD, "radian": U_RAD, "deg": U_DEG, "degree": U_DEG}
for _k, _v in KNOWN.items():
    LIB[f"astropy.units.{_k}"] = _v




# ---- methods -------------------------------------------------------------------------------------------------------------
@model("Quantity.to_value", doc="Quantity.to_value(U) = value * exact conversion factor (unit.scale / U.scale); dims must agree")
def _to_value(ex, path, args, kwargs, node, fn):
    q = args[0]
    u_to = args[1] if len(args) > 1 else kwargs.get("unit")
    if u_to is None:
        return q.fields["value"]
    if len(args) > 2 or "equivalencies" in kwargs:
        eq = args[2] if len(args) > 2 else kwargs["equivalencies"]
        return _with_angles(q, u_to)
    return qval(q, u_to)


def _with_angles(q, u_to):
    """u.dimensionless_angles(): radians count as dimensionless"""
    d = list(q.fields["unit"].fields["dim"])
    ang = d[2]
    d[2] = 0
    u0 = unit(tuple(d), q.fields["unit"].fields["scale"])
    return qval(quantity(q.fields["value"], u0), u_to)


@model("Quantity.to", doc="Quantity.to(U): same physical quantity expressed in U")
def _to(ex, path, args, kwargs, node, fn):
    q, u_to = args[0], args[1]
    if len(args) > 2:
        return quantity(_with_angles(q, u_to), u_to)
    return quantity(qval(q, u_to), u_to)


@model("Quantity.copy")
def _qcopy(ex, path, args, kwargs, node, fn):
    return args[0]


@model("Quantity.min", "Quantity.max")
def _qminmax(ex, path, args, kwargs, node, fn):
    q = args[0]
    v = LIB["<Arr>.max" if fn.name == "max" else "<Arr>.min"](ex, path, [q.fields["value"]], {}, node, fn)
    return quantity(v, q.fields["unit"])


@model("Unit.is_equivalent", doc="Unit.is_equivalent(V): same physical dimension")
def _is_equiv(ex, path, args, kwargs, node, fn):
    a, b = args[0], args[1]
    if isinstance(b, PyList):
        return any(a.fields["dim"] == x.fields["dim"] for x in b.items)
    return a.fields["dim"] == b.fields["dim"]


@model("Unit.to", doc="Unit.to(V): exact conversion factor")
def _unit_to(ex, path, args, kwargs, node, fn):
    return factor(args[0], args[1])


@model("astropy.units.Quantity", doc="u.Quantity(x): x itself when x is a Quantity")
def _Quantity(ex, path, args, kwargs, node, fn):
    v = args[0]
    if is_q(v):
        return v
    if isinstance(v, PyList) and v.tail is None and all(is_q(x) for x in v.items):
        raise Unsupported("u.Quantity(list of quantities)")
    return quantity(v, args[1] if len(args) > 1 else U_ONE)


@model("astropy.units.Unit")
def _Unit(ex, path, args, kwargs, node, fn):
    if is_unit(args[0]):
        return args[0]
    raise Unsupported("u.Unit(str)")


@model("astropy.units.dimensionless_angles")
def _dimless_angles(ex, path, args, kwargs, node, fn):
    return "dimensionless_angles"


def q_attr(name):
    def prop(ex, path, recv=None):
        raise Unsupported(name)
    return prop


# attribute access on Quantity / Time objects is resolved through Executor.getattr -> fields; install computed fields
def finish_quantity(q):
    v = q.fields["value"]
    if isinstance(v, Arr):
        q.fields["shape"] = PyList(v.shape, None, True)
        q.fields["ndim"] = v.ndim
        q.fields["size"] = v.shape[0] if v.ndim == 1 else None
    else:
        q.fields["ndim"] = 0
    return q




# ---- Time ------------------------------------------------------------------------------------------------------------------
def time_obj(mjd, tcb_offset=None):
    """an instant (or array of instants).  `mjd` is the MJD number in the object's own time scale; `tcb_offset` (a real, scalar objects only) is
    what astropy adds to express it in TCB: t.tcb.mjd == t.mjd + tcb_offset.  None means the object already is in TCB (t.tcb is t)."""
    o = Obj("Time", {"mjd": mjd})
    if tcb_offset is None:
        o.fields["tcb"] = o
    else:
        o.fields["tcb"] = time_obj(arith(ast.Add(), mjd, tcb_offset))
        o.fields["tcb_offset"] = tcb_offset
    if not isinstance(mjd, Arr):
        # two-part Julian date in the object's OWN scale: jd1 + jd2 == mjd + 2400000.5, split arbitrarily
        jd2 = fresh_real("jd2")
        o.fields["jd2"] = jd2
        o.fields["jd1"] = arith(ast.Sub(), arith(ast.Add(), mjd, Fraction(24000005, 10)), jd2)
    o.fields["__arith__"] = _time_arith
    o.fields["__getitem__"] = lambda ex, path, recv, idx, node: time_obj(index(recv.fields["mjd"], idx))
    if isinstance(mjd, Arr):
        o.fields["__len__"] = mjd.shape[0]
        o.fields["shape"] = PyList(mjd.shape, None, True)
    o.fields["jd"] = arith(ast.Add(), mjd, Fraction(24000005, 10)) if not isinstance(mjd, Arr) else \
        Arr(mjd.shape, lambda *k: mjd.at(*k) + z3.RealVal("2400000.5"), "real")
    return o


def _time_arith(op, a, b, ctx, path, line):
    if is_time(a) and is_time(b) and isinstance(op, ast.Sub):
        return quantity(arith(op, a.fields["mjd"], b.fields["mjd"], ctx, path, line), U_DAY)   # TimeDelta, in days
    if is_time(a) and is_q(b) and isinstance(op, (ast.Add, ast.Sub)):
        return time_obj(arith(op, a.fields["mjd"], qval(b, U_DAY), ctx, path, line))
    raise Unsupported(f"Time arithmetic {type(op).__name__}")


@model("astropy.time.Time", "thejoker.data.Time", "Time", doc="Time(x, format='mjd', scale='tcb'): the instants with those TCB MJD values")
def _Time(ex, path, args, kwargs, node, fn):
    v = args[0]
    if is_time(v):
        return v
    return time_obj(v)


@model("Time.copy")
def _tcopy(ex, path, args, kwargs, node, fn):
    return args[0]


@model("Time.min", doc="Time.min(): the earliest instant")
def _tmin(ex, path, args, kwargs, node, fn):
    t = args[0]
    v = LIB["<Arr>.min"](ex, path, [t.fields["mjd"]], {}, node, fn)
    return time_obj(v)


@model("Time.max")
def _tmax(ex, path, args, kwargs, node, fn):
    t = args[0]
    v = LIB["<Arr>.max"](ex, path, [t.fields["mjd"]], {}, node, fn)
    return time_obj(v)


_prev_abs = LIB["numpy.abs"]


@model("numpy.abs", doc="abs of a Quantity keeps the unit")
def _qabs(ex, path, args, kwargs, node, fn):
    v = args[0]
    if is_q(v):
        return quantity(_prev_abs(ex, path, [v.fields["value"]], kwargs, node, fn), v.fields["unit"])
    return _prev_abs(ex, path, args, kwargs, node, fn)


_prev_any = LIB["numpy.any"]
