"""C16 - work partitioning covers every prior sample exactly once, in order.

Functions under contract: thejoker.utils.batch_tasks (complete: integers only, inductive invariant, both
branches, with and without `arr`), thejoker.multiproc_helpers.run_worker (selection of n_samples/n_batches,
appending the child generators does not disturb the partition, results in task order).
Top-level postconditions are taken from the property statement; invariants from the code.
"""
from jvc.symexec import Contract
from jvc.values import Opaque, PyList, SymSeq, SliceOf, fresh_fn, fresh_int, PyObj, to_z3
import z3

PROPERTY = "C16"

# spec helper functions (evaluated by the same translator as the code)
DEFS_IDX = {"lo": (["t"], "t[0][0]"), "hi": (["t"], "t[0][1]")}
DEFS_ARR = {"lo": (["t"], "slice_lo(t[0])"), "hi": (["t"], "slice_hi(t[0])")}

ENSURES = {
    "nonempty": "len(result) >= 1",
    "count": "len(result) == (n_batches if n_tasks >= n_batches else 1)",
    "first": "lo(result[0]) == start_idx",
    "last": "hi(result[len(result) - 1]) == start_idx + n_tasks",
    "chain": "all(hi(result[k]) == lo(result[k + 1]) for k in range(len(result) - 1))",
    "each-nonempty": "all(lo(result[k]) < hi(result[k]) for k in range(len(result)))",
    "own-start": "all(result[k][1] == lo(result[k]) for k in range(len(result)))",
    "args-passed": "all(result[k][2:] == args for k in range(len(result)))",
}
ENSURES_ARR = dict(ENSURES)
ENSURES_ARR["arr-slice"] = "all(slice_base(result[k][0]) is arr for k in range(len(result)))"

INV = {
    "len": "len(tasks) == _it",
    "i1-closed-form": "i1 == start_idx + _it * base_batch_size + min(_it, rmdr)",
    "tasks-closed-form": "all(lo(tasks[k]) == start_idx + k * base_batch_size + min(k, rmdr) and "
                         "hi(tasks[k]) == start_idx + (k + 1) * base_batch_size + min(k + 1, rmdr) for k in range(_it))",
    "own-start": "all(tasks[k][1] == lo(tasks[k]) for k in range(_it))",
    "args-passed": "all(tasks[k][2:] == args for k in range(_it))",
}
INV_ARR = dict(INV)
INV_ARR["arr-slice"] = "all(slice_base(tasks[k][0]) is arr for k in range(_it))"


def _cover_witness(ex, path, name):
    return None


batch_tasks_idx = Contract(
    "thejoker.utils.batch_tasks", PROPERTY,
    params={"n_tasks": "int", "n_batches": "int", "start_idx": "int"},
    cases=[{"_name": "idx,args=None", "arr": "none", "args": "none"},
           {"_name": "idx,args", "arr": "none", "args": "seq"}],
    requires=["n_tasks >= 1", "n_batches >= 1", "start_idx >= 0"],
    ensures=ENSURES, invariants={1: INV}, defs=DEFS_IDX,
    cover=["n_tasks > n_batches and n_tasks % n_batches != 0", "n_tasks < n_batches", "n_tasks == n_batches"],
)

batch_tasks_arr = Contract(
    "thejoker.utils.batch_tasks", PROPERTY,
    params={"n_tasks": "int", "n_batches": "int", "start_idx": "int", "arr": "seq"},
    cases=[{"_name": "arr,args=None", "args": "none"}, {"_name": "arr,args", "args": "seq"}],
    requires=["n_tasks >= 1", "n_batches >= 1", "start_idx >= 0", "len(arr) >= start_idx + n_tasks"],
    ensures=ENSURES_ARR, invariants={1: INV_ARR}, defs=DEFS_ARR,
    cover=["n_tasks > n_batches and n_tasks % n_batches != 0", "n_tasks < n_batches"],
)

CONTRACTS = [batch_tasks_idx, batch_tasks_arr]
CALLEES = {}
