"""C16 - work partitioning covers every prior sample exactly once, in order.

Functions under contract: thejoker.utils.batch_tasks (complete: integers only, inductive invariant, both
branches, with and without `arr`), thejoker.multiproc_helpers.run_worker (selection of n_samples/n_batches,
appending the child generators does not disturb the partition, results in task order).
Top-level postconditions are taken from the property statement; invariants from the code.
"""
from jvc.symexec import Contract
from jvc.values import Opaque, PyList, SymSeq, SliceOf, fresh_fn, fresh_int, PyObj, to_z3
import z3

PROPERTY = "C16"

from .c16spec import DEFS_ARR, DEFS_IDX, ENSURES, ENSURES_ARR, INV, INV_ARR  # noqa: E402,F401

def _cover_witness(ex, path, name):
    return None


batch_tasks_idx = Contract(
    "thejoker.utils.batch_tasks", PROPERTY,
    params={"n_tasks": "int", "n_batches": "int", "start_idx": "int"},
    cases=[{"_name": "idx,args=None", "arr": "none", "args": "none"},
           {"_name": "idx,args", "arr": "none", "args": "seq"}],
    requires=["n_tasks >= 1", "n_batches >= 1", "start_idx >= 0"],
    ensures=ENSURES, invariants={1: INV}, defs=DEFS_IDX,
    cover=["n_tasks > n_batches and n_tasks % n_batches != 0", "n_tasks < n_batches", "n_tasks == n_batches"],
)

batch_tasks_arr = Contract(
    "thejoker.utils.batch_tasks", PROPERTY,
    params={"n_tasks": "int", "n_batches": "int", "start_idx": "int", "arr": "seq"},
    cases=[{"_name": "arr,args=None", "args": "none"}, {"_name": "arr,args", "args": "seq"}],
    requires=["n_tasks >= 1", "n_batches >= 1", "start_idx >= 0", "len(arr) >= start_idx + n_tasks"],
    ensures=ENSURES_ARR, invariants={1: INV_ARR}, defs=DEFS_ARR,
    cover=["n_tasks > n_batches and n_tasks % n_batches != 0", "n_tasks < n_batches"],
)

CONTRACTS = [batch_tasks_idx, batch_tasks_arr]
CALLEES = {}

# ---- run_worker (selection of n_samples / n_batches, child generators, results in task order) --------------------------------------
from . import filemodel as _fm      # noqa: E402
from . import workers as _W         # noqa: E402

CONTRACTS += _W.run_worker_contracts
CALLEES = dict(_W.RW_CALLEES)
LIB = _fm.install_repo_models(dict(_W.LIB))
LEMMAS = ["Partition.lean"]
ASSUMPTIONS = ["schwimmbad pool.map(f, tasks) == [f(t) for t in tasks] in task order (S9)",
               "numpy SeedSequence.spawn(n) returns n fresh children keyed by the parent's spawn counter",
               "pytables open_file(mode='r') does not modify the file; Table.shape[0] is the number of rows"]
NOT_DECIDED = []


def EXTRA():
    from . import chain as _CHX
    return _CHX.frame_effects(PROPERTY)
