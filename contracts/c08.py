"""C08 - multi-survey data keep every observation tied to its own survey offset.

validate_prepare_data is verified for K = 1, 2, 3 sources given as a list and K = 2 given as a dict, with ARBITRARY
(symbolic) survey sizes and time layouts: the loop over the sources unrolls for a fixed K, everything else is unbounded.
(The number of surveys is the one bounded dimension: stated in the evidence.)"""
import z3

from jvc.lib import LIB as _L, model
from jvc.symexec import Contract, arr_index, b_and, gather_path, q_forall, to_z3
from jvc.values import Arr, NameRef, Obj, Opaque, PyDict, PyList, Unsupported, fresh_arr, fresh_fn, fresh_int, fresh_name, fresh_real

from . import astromodel as A
from . import common  # noqa: F401
from .c15 import SPEED, LIB as C15LIB

PROPERTY = "C08"
DH = "thejoker.data_helpers."
LH = "thejoker.likelihood_helpers."


def survey(k, path):
    # every survey has its own velocity unit, and its uncertainties their own (any two speed units; the merged data must be
    # expressed in the first survey's unit with the physical values unchanged)
    unit = A.sym_unit(f"rv_unit_{k}", SPEED)
    eunit = A.sym_unit(f"err_unit_{k}", SPEED)
    path.assume(*unit.sym_facts)
    path.assume(*eunit.sym_facts)
    n = z3.Int(f"n_{k}")
    t = fresh_arr(f"t_{k}", 1, "real", [n])
    rv = fresh_arr(f"rv_{k}", 1, "real", [n])
    err = fresh_arr(f"err_{k}", 1, "real", [n])
    o = Obj("RVData", {"t": A.time_obj(t), "_t_bmjd": t, "rv": A.quantity(rv, unit), "rv_err": A.quantity(err, eunit), "_has_cov": False,
                       "__len__": n, "cls_name": "RVData", "survey": k}, ident=f"survey{k}")
    o.type_pred = None
    return o, n


def data_param(K, as_dict):
    def build(ex, path, name):
        objs = []
        for k in range(K):
            o, n = survey(k, path)
            path.assume(n >= 1)
            objs.append(o)
        path.ghost["surveys"] = objs
        if as_dict:
            keys = [z3.Int(f"key_{k}") for k in range(K)]
            for a in range(K):
                for b in range(a + 1, K):
                    path.assume(keys[a] != keys[b])
            path.ghost["keys"] = keys
            d = PyDict()
            for kk, o in zip(keys, objs):
                d = d.set(kk, o)
            return d
        path.ghost["keys"] = list(range(K))
        return PyList(objs)
    return build


# ---- RVData(t=Time(t), rv=rv, rv_err=err) as a callee: the __init__ contract proved in C15 --------------------------------------
def _res_ctor(ex, path, bound, node):
    t, rv, err = bound["t"], bound["rv"], bound["rv_err"]
    tv = t.fields["mjd"]
    n = tv.shape[0]
    pi = fresh_fn("pi", z3.IntSort(), z3.IntSort())
    inv = fresh_fn("pi_inv", z3.IntSort(), z3.IntSort())
    piA = Arr([n], lambda k: pi(to_z3(k)), "int", "pi")
    piA.perm_inv = inv
    t_new = arr_index(tv, (piA,))
    rv_new = arr_index(rv.fields["value"], (piA,))
    err_new = arr_index(err.fields["value"], (piA,))
    tref = fresh_real("t_ref_new")
    o = Obj("RVData", {"_t_bmjd": t_new, "t": A.time_obj(t_new), "rv": A.quantity(rv_new, rv.fields["unit"]),
                       "rv_err": A.quantity(err_new, err.fields["unit"]), "_has_cov": False, "__len__": n, "cls_name": "RVData",
                       "_t_ref_bmjd": tref, "t_ref": A.time_obj(tref), "pi": piA, "__qualclass__": "thejoker.data.RVData"})
    k = z3.Int(fresh_name("k"))
    i = z3.Int(fresh_name("i"))
    j = z3.Int(fresh_name("j"))
    # the clauses of C15 (finite inputs: the sources were cleaned when they were built)
    path.assume(q_forall([k], b_and(0 <= k, k < n), b_and(0 <= pi(k), pi(k) < n, inv(pi(k)) == k), pats=[pi(k)]),
                q_forall([i], b_and(0 <= i, i < n), b_and(0 <= inv(i), inv(i) < n, pi(inv(i)) == i), pats=[inv(i)]),
                q_forall([k], b_and(0 <= k, k < n - 1), tv.at(pi(k)) <= tv.at(pi(k + 1)), pats=[pi(k)]))
    return o


ctor = Contract("thejoker.data.RVData.__init__", "C15", ensures={}, result=_res_ctor)


def _res_trend(ex, path, bound, node):
    data, ids = bound["data"], bound["ids"]
    n = data.fields["__len__"]
    return fresh_arr("trend_M", 2, "real", [n, fresh_int("n_cols")])


trend_callee = Contract(LH + "get_trend_design_matrix", "C01", ensures={}, result=_res_trend)


@model("merged", doc="spec: the union of the input observations: (time, velocity, uncertainty in the first source's unit, source key) of row i "
                     "of the concatenation of the sources in input order")
def _merged(ex, path, args, kwargs, node, fn):
    what = args[0]
    objs = path.ghost["surveys"]
    keys = path.ghost["keys"]
    u0 = objs[0].fields["rv"].fields["unit"]
    parts = []
    for o, kk in zip(objs, keys):
        n = o.fields["__len__"]
        if what == "t":
            parts.append(o.fields["_t_bmjd"])
        elif what == "rv":
            parts.append(A.qval(o.fields["rv"], u0))
        elif what == "err":
            parts.append(A.qval(o.fields["rv_err"], u0))
        else:
            parts.append(Arr([n], lambda k, kk=kk: to_z3(kk), "int"))
    return _L["numpy.concatenate"](ex, path, [PyList(parts, None, True)], {}, None, None)


LIB = dict(C15LIB)
LIB["merged"] = _merged

VPD_DEFS = {
    "D": ([], "result[0]"),
    "ids": ([], "result[1]"),
    "N": ([], "len(merged('t'))"),
    # ghost: row r of the merged data set comes from row src[r] of the concatenated inputs
    "src": ([], "src_idx(D()._t_bmjd, merged('t'))"),
}
VPD_ENS = {
    "union-of-the-inputs": "len(D()) == N() and len(ids()) == N() and all(0 <= src()[r] and src()[r] < N() for r in range(N())) and "
                           "all(inv_(src(), src()[r]) == r for r in range(N())) and "
                           "all(0 <= inv_(src(), i) and inv_(src(), i) < N() and src()[inv_(src(), i)] == i for i in range(N()))",
    "time-velocity-error-from-the-same-input-row": "all(D()._t_bmjd[r] == merged('t')[src()[r]] and D().rv.value[r] == merged('rv')[src()[r]] and "
                                                   "D().rv_err.value[r] == merged('err')[src()[r]] for r in range(N()))",
    "survey-label-from-that-same-input-row": "all(ids()[r] == merged('key')[src()[r]] for r in range(N()))",
    "unit-of-the-first-source": "D().rv.unit.scale == rv_unit_scale() and D().rv_err.unit.scale == rv_unit_scale()",
}


@model("rv_unit_scale")
def _rus(ex, path, args, kwargs, node, fn):
    return path.ghost["surveys"][0].fields["rv"].fields["unit"].fields["scale"]


@model("n_distinct_keys")
def _ndk(ex, path, args, kwargs, node, fn):
    return len(path.ghost["keys"])


LIB.update({"rv_unit_scale": _rus, "n_distinct_keys": _ndk})

vpd = [Contract(DH + "validate_prepare_data", PROPERTY, params={"data": data_param(K, as_dict), "poly_trend": "pos", "n_offsets": "int"},
                cases=[{"_name": f"{'dict' if as_dict else 'list'},K={K}"}], ensures=VPD_ENS, defs=VPD_DEFS)
       for (K, as_dict) in ((1, False), (2, False), (3, False), (2, True))]


# ---- design matrix: offset indicator columns ------------------------------------------------------------------------------------------
def dm_data_param(ex, path, name):
    n = z3.Int("n_obs")
    path.assume(n >= 1)
    t = fresh_arr("t", 1, "real", [n])
    return Obj("RVData", {"_t_bmjd": t, "_t_ref_bmjd": z3.Real("t_ref_bmjd"), "__len__": n}, ident="data")


def ids_param(ex, path, name):
    n = z3.Int("n_obs")
    return fresh_arr("ids", 1, "int", [n])


CT_INV = {
    "filled-so-far": "all(constant_part[r, c] == (1 if c == 0 else (1 if (c <= _it and ids[r] == unq_ids[c]) else 0)) "
                     "for r in range(len(data)) for c in range(len(unq_ids)))",
}
ct_matrix = Contract(
    LH + "get_constant_term_design_matrix", PROPERTY, params={"data": dm_data_param, "ids": ids_param},
    defs={"unq": ([], "np.unique(ids)")},
    invariants={1: CT_INV},
    ensures={
        "shape": "result.shape[0] == len(data) and result.shape[1] == len(unq())",
        "first-column-is-the-common-velocity": "all(result[r, 0] == 1 for r in range(len(data)))",
        "column-j-marks-exactly-the-epochs-of-survey-j": "all(result[r, j] == (1 if ids[r] == unq()[j] else 0) for r in range(len(data)) "
                                                         "for j in range(1, len(unq())))",
        "reference-survey-has-no-offset-column": "all(implies(ids[r] == unq()[0], all(result[r, j] == 0 for j in range(1, len(unq())))) for r in range(len(data)))",
    })
ct_matrix_default = Contract(
    LH + "get_constant_term_design_matrix", PROPERTY, params={"data": dm_data_param, "ids": "none"},
    invariants={1: CT_INV},
    ensures={"single-survey": "result.shape[0] == len(data) and result.shape[1] == 1 and all(result[r, 0] == 1 for r in range(len(data)))"})


def _res_ct(ex, path, bound, node):
    data, ids = bound["data"], bound.get("ids")
    n = data.fields["__len__"]
    if ids is None:
        return Arr([n, 1], lambda r, c: z3.RealVal(1), "real", "const_M")
    uq = _L["numpy.unique"](ex, path, [ids], {}, node, None)
    return Arr([n, uq.shape[0]], lambda r, c: z3.If(to_z3(c) == 0, z3.RealVal(1), z3.If(ids.at(r) == uq.at(c), z3.RealVal(1), z3.RealVal(0))), "real", "const_M")


ct_callee = Contract(LH + "get_constant_term_design_matrix", PROPERTY, ensures={}, result=_res_ct)

trend_matrix = Contract(
    LH + "get_trend_design_matrix", PROPERTY, params={"data": dm_data_param, "ids": ids_param, "poly_trend": "pos"},
    defs={"unq": ([], "np.unique(ids)"), "m": ([], "len(np.unique(ids))")},
    ensures={
        "shape": "result.shape[0] == len(data) and result.shape[1] == m() + poly_trend - 1",
        "constant-and-offset-columns-first": "all(result[r, j] == (1 if (j == 0 or ids[r] == unq()[j]) else 0) for r in range(len(data)) for j in range(m()))",
        "linear-trend-column-is-time-since-t_ref": "implies(poly_trend >= 2, all(result[r, m()] == data._t_bmjd[r] - data._t_ref_bmjd for r in range(len(data))))",
        "then-powers-of-time-since-t_ref": "all(result[r, m() + k] == ipow_(data._t_bmjd[r] - data._t_ref_bmjd, k + 1) "
                                           "for r in range(len(data)) for k in range(poly_trend - 1))",
    })

CONTRACTS = vpd + [ct_matrix, ct_matrix_default, trend_matrix]
CALLEES_VPD = {"thejoker.data.RVData": ctor, "thejoker.data.RVData.__init__": ctor, LH + "get_trend_design_matrix": trend_callee}

# the merged observations themselves (values and units, not the survey labels): also listed by C01 (the likelihood is evaluated on the
# merged data) and C07 (surveys given in different velocity units)
vpd_data = Contract(DH + "validate_prepare_data", PROPERTY, params={"data": data_param(2, False), "poly_trend": "pos", "n_offsets": "int"},
                    cases=[{"_name": "list,K=2"}], defs=VPD_DEFS,
                    ensures={k: VPD_ENS[k] for k in ("union-of-the-inputs", "time-velocity-error-from-the-same-input-row", "unit-of-the-first-source")})
CALLEES = dict(CALLEES_VPD)
CALLEES[LH + "get_constant_term_design_matrix"] = ct_callee
vpd_data.callees = dict(CALLEES)
vpd_data.lib = dict(LIB)
ASSUMPTIONS = ["RVData.__init__ contract (proved in C15) used at the call site, for finite inputs (sources are cleaned when built)",
               "numpy: concatenate, stable argsort (identity on non-decreasing input), unique (sorted distinct values), boolean-mask column store, vander, hstack"]
NOT_DECIDED = ["that the number of distinct survey labels minus one equals n_offsets on the returning path (pigeonhole; decided by the twin and by C18)",
               "number of surveys K > 3 (the proof is repeated for K = 1, 2, 3 with arbitrary survey sizes; K is the only bounded dimension)",
               "dict keys that are not mutually comparable (np.unique would raise)"]


# ---- TheJoker._make_joker_helper: every call prepares THIS call's data and builds the kernel helper from it - whatever earlier calls left on the
# sampler object (no cached helper / labelling / validation verdict may be reused) ------------------------------------------------------------------
import ast as _ast   # noqa: E402

TJ = "thejoker.thejoker.TheJoker."


def joker_self(history):
    def build(ex, path, name):
        fields = {"prior": Opaque("self.prior"), "__qualclass__": "thejoker.thejoker.TheJoker"}
        if history:
            known = {"prior", "pool", "rng", "tempfile_path", "_tempfile_path"}
            for n in _ast.walk(ex.fnsrc.node):
                a = None
                if isinstance(n, _ast.Attribute) and isinstance(n.value, _ast.Name) and n.value.id == "self" and isinstance(n.ctx, _ast.Load):
                    a = n.attr
                if (isinstance(n, _ast.Call) and isinstance(n.func, _ast.Name) and n.func.id in ("getattr", "hasattr") and len(n.args) >= 2
                        and isinstance(n.args[0], _ast.Name) and n.args[0].id == "self" and isinstance(n.args[1], _ast.Constant)):
                    a = n.args[1].value
                if a and a not in known and not a.startswith("__"):
                    fields.setdefault(a, Opaque(f"left-on-the-sampler-by-an-earlier-call:{a}"))
        o = Obj("TheJoker", fields, ident="self")
        o.fields["__hasattr__"] = lambda a, f=fields: a in f
        return o
    return build


@model("helper_built_from_this_calls_data", doc="spec: validate_prepare_data was called once, on this call's `data`; the kernel helper was constructed once, from the "
                                                "prepared data and design matrix of THAT call and the sampler's prior; and that new helper is what is returned")
def _helper_fresh(ex, path, args, kwargs, node, fn):
    evs = [e for e in path.ghost.get("events", []) if e.get("kind") == "call" and not e.get("attempted")]
    vp = [e for e in evs if e["name"].split(".")[-1] == "validate_prepare_data"]
    ck = [e for e in evs if e["name"].split(".")[-1] == "CJokerHelper"]
    res = path.env.get("result")
    if len(vp) != 1 or len(ck) != 1:
        return False
    if not vp[0]["args"] or vp[0]["args"][0] is not path.ghost.get("the_data"):
        return False
    a = ck[0]["args"]
    ok_from = lambda x, i: getattr(x, "item_of", None) is not None and x.item_of[1] == i and getattr(x.item_of[0], "from_call", None) is vp[0]
    if len(a) != 3 or not ok_from(a[0], 0) or not ok_from(a[2], 2):
        return False
    if getattr(res, "from_call", None) is not ck[0]:
        return False
    return True


def _data_param(ex, path, name):
    d = Opaque("data")
    path.ghost["the_data"] = d
    return d


LIB["helper_built_from_this_calls_data"] = _helper_fresh
make_helper = [Contract(TJ + "_make_joker_helper", PROPERTY, params={"self": joker_self(h), "data": _data_param},
                        cases=[{"_name": "fresh sampler" if not h else "sampler used before (any history)"}],
                        ensures={"prepares-and-uses-the-data-of-this-call": "helper_built_from_this_calls_data()"})
               for h in (False, True)]
for _c in make_helper:
    _c.cfg_mode = True
    _c.callees = {}
    _c.lib = dict(LIB)
CONTRACTS += make_helper
# the k-th offset prior must stay the k-th (the kernel helper reads prior.v0_offsets[k-1] for column k): JokerPrior.__init__, contract stated in c18.py


def _prior_order_contracts():
    from . import c18 as _C18
    from .chain import clone as _cl
    return [_cl(_c, callees=_C18.CALLEES, lib=_C18.LIB, hooks=_C18.HOOKS, home="c18", only=lambda k: k == "offset-priors-kept-in-the-given-order")
            for _c in _C18.prior_contracts() if "n_offsets=0" not in _c.cases[0]["_name"]]


CONTRACTS += _prior_order_contracts()


def EXTRA():
    from . import chain as _CHX
    return _CHX.frame_effects(PROPERTY)
