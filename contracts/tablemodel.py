"""Assumed library contract for astropy QTable / Row as used by JokerSamples (DESIGN Appendix A):
a table is (ordered columns name -> Quantity of common length, meta dict).  Row / slice / mask selection returns the
selected rows of every column and a copy of meta; column assignment adds or replaces a column (insertion order kept)."""
import ast

import z3

from jvc.lib import LIB, model
from jvc.symexec import arr_index, index, length, to_z3
from jvc.values import Arr, NameRef, Obj, Opaque, PyDict, PyList, SliceV, Unsupported, fresh_arr, fresh_int, fresh_name, is_int, is_z3

from . import astromodel as A


def qtable(cols=None, meta=None, nrows=None, kind="QTable"):
    cols = cols or PyDict()
    o = Obj(kind, {"cols": cols, "meta": meta or PyDict(), "nrows": nrows})
    o.fields["colnames"] = PyList(list(cols.keys))
    o.fields["__getitem__"] = _tbl_getitem
    o.fields["__setitem__"] = _tbl_setitem
    o.fields["__len__"] = nrows if nrows is not None else 0
    # astropy: a table is truthy iff it has at least one row (a 0-row selection is falsy); a Row is an ordinary object
    if kind == "QTable":
        o.fields["__bool__"] = lambda t: (to_z3(t.fields["nrows"]) > 0) if (t.fields["nrows"] is not None and is_z3(t.fields["nrows"])) else bool(t.fields["nrows"])
    o.fields["__contains__"] = lambda item, cols=cols: item in cols.vals
    o.bases = ("Table",) if kind == "QTable" else ()
    return o


def _select(q, key):
    return A.quantity(index(q.fields["value"], key), q.fields["unit"])


def _tbl_getitem(ex, path, recv, key, node):
    cols = recv.fields["cols"]
    if isinstance(key, str):
        if key not in cols.vals:
            raise Unsupported(f"table has no column {key!r} (KeyError)")
        return cols.vals[key]
    if is_int(key):
        new = PyDict()
        n_ = recv.fields.get("nrows")
        if is_z3(key) and n_ is not None:
            key = z3.If(key < 0, key + to_z3(n_), key)        # Python / astropy: a negative row index counts from the end
        for k in cols.keys:
            new = new.set(k, _select(cols.vals[k], key))
        r = qtable(new, recv.fields["meta"].copy(), None, "Row")
        r.fields["row_index"] = key
        r.fields["row_of"] = recv
        return r
    if isinstance(key, (SliceV, Arr)):
        new = PyDict()
        n = None
        for k in cols.keys:
            c = _select(cols.vals[k], key)
            new = new.set(k, c)
            n = c.fields["value"].shape[0]
        return qtable(new, recv.fields["meta"].copy(), n, "QTable")
    raise Unsupported(f"table[{key!r}]")


def _tbl_setitem(ex, path, base, key, value, node):
    if not isinstance(key, str):
        raise Unsupported("table[non-str] = ...")
    if not A.is_q(value):
        value = A.quantity(value, A.U_ONE)
    cols = base.fields["cols"].set(key, value)
    v = value.fields["value"]
    n = base.fields["nrows"]
    if n is None and isinstance(v, Arr):
        n = v.shape[0]
    t = qtable(cols, base.fields["meta"], n, base.cls)
    return t


@model("astropy.table.QTable", "thejoker.samples.QTable", "QTable", doc="QTable(): empty table; QTable(t): the same columns and meta; QTable(dict): those columns")
def _QTable(ex, path, args, kwargs, node, fn):
    if not args:
        return qtable()
    src = args[0]
    if isinstance(src, Obj) and src.cls in ("QTable", "Row"):
        cols = PyDict()
        for k in src.fields["cols"].keys:
            cols = cols.set(k, src.fields["cols"].vals[k])
        return qtable(cols, src.fields["meta"].copy(), src.fields["nrows"], "QTable")
    if isinstance(src, PyDict):
        n = None
        for k in src.keys:
            v = src.vals[k].fields["value"]
            n = v.shape[0] if isinstance(v, Arr) else n
        return qtable(src.copy(), PyDict(), n, "QTable")
    raise Unsupported(f"QTable({src!r})")


@model("QTable.copy", doc="Table.copy(): same columns, copy of meta")
def _tcopy(ex, path, args, kwargs, node, fn):
    t = args[0]
    return qtable(t.fields["cols"].copy(), t.fields["meta"].copy(), t.fields["nrows"], "QTable")


def samples_table(names_units, n=None, meta=None, prefix="col"):
    """a symbolic table with the given (name, Unit) columns of n rows"""
    if n is None:
        n = z3.Int("n_samples")
    cols = PyDict()
    for name, u_ in names_units:
        cols = cols.set(name, A.quantity(fresh_arr(f"{prefix}.{name}", 1, "real", [n]), u_))
    return qtable(cols, meta or PyDict(), n, "QTable")
