"""C06 - reported ln_prior / ln_likelihood stay attached to their own sample (in-memory and file paths,
rejection_sample and the iterative sampler), return_all_logprobs is in evaluation order."""
from . import filemodel
from . import rejection as R

PROPERTY = "C06"
CONTRACTS = R.select(R.rejection_inmem + R.rejection_file + R.iterative_inmem + R.iterative_file, {"C06"})
CALLEES = {**R.INMEM_CALLEES, **R.FILE_CALLEES}
LIB = filemodel.install_repo_models({})
ASSUMPTIONS = ["pytables Table.read_coordinates(coords, field=name) returns that column at the given rows in the order of coords; "
               "with field=None it returns structured records"]
NOT_DECIDED = ["n_linear_samples > 1 together with return_logprobs: the real code raises on a column-length mismatch (returns nothing)"]


# the plumbing this property's claim runs through (contracts/chain.py): listed here too, so that a change inside it is caught by THIS check
from . import chain as CH   # noqa: E402
CH.extend(CONTRACTS, CH.readers() + CH.plumbing() + CH.tables() + CH.wrapper())


def _EXTRA0():
    # return_logprobs / return_all_logprobs reach the function that attaches the values
    from jvc import effects
    return [r for r in effects.check_option_forwarding(["thejoker.thejoker.TheJoker.rejection_sample", "thejoker.thejoker.TheJoker.iterative_rejection_sample"],
                                                       PROPERTY) if "logprobs" in r["name"]]


def EXTRA():
    from . import chain as _CHX
    return list(_EXTRA0()) + _CHX.frame_effects(PROPERTY)
