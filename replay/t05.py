"""C05 twin: the same marginal ln-likelihoods on every execution path, bit for bit, and the same accepted set for equal seeds."""
import os

import numpy as np

import support as S
import t02

RULE = ("one seeded library of 23 rows (real kernel, 7 epochs): marginal_ln_likelihood in memory vs JokerSamples object (temp cache) vs file, "
        "n_batches in {1..26}, SerialPool and MultiPool(2); the same TheJoker reused after rejection sampling / posterior draws in between "
        "(call history); rejection_sample accepted set for equal seeds across paths; non-trivial = n_batches > 1")
EXHAUSTIVE = False
BOUNDED = ["MultiPool process isolation and pickling are exercised only on this one library, and only when the compiled kernel is in sync with the "
           ".pyx (the interpreted kernel that stands in for a stale binary cannot be pickled)"]
BUDGET_S = {"quick": 50, "thorough": 600}
_st = {}


KERNEL_IN_SYNC = None


def setup():
    # when the compiled extension is stale w.r.t. the .pyx, the current kernel SOURCE is what has to be exercised (interpreted; not picklable,
    # so the MultiPool cases then run only where no helper crosses a process boundary - see BOUNDED)
    global KERNEL_IN_SYNC
    KERNEL_IN_SYNC = S.install_kernel()


def _ctx(seed):
    if seed in _st:
        return _st[seed]
    from thejoker import TheJoker
    prior = S.default_prior(s=True)        # a sampled jitter: every row of a batch has its own weights
    data = S.make_data(7, seed)
    lib = prior.sample(size=23, rng=np.random.default_rng(seed), return_logprobs=True)
    path = os.path.join(S.OUTDIR, f"c05_lib_{os.getpid()}_{seed}.hdf5")
    if os.path.exists(path):
        os.unlink(path)
    lib.write(path)
    ref = TheJoker(prior, rng=np.random.default_rng(0)).marginal_ln_likelihood(data, lib, in_memory=True)
    _st[seed] = (prior, data, lib, path, ref)
    return _st[seed]


def cases(tier, seed):
    sd = int(seed) + 2
    for nb in list(range(1, 27)):
        for src in ("object", "file"):
            yield f"ll/{src}/{nb}/serial", {"kind": "ll", "src": src, "nb": nb, "pool": "serial", "seed": sd}
    for nb in ((2, 3, 24) if S.kernel_in_sync() else ()):
        yield f"ll/file/{nb}/multi", {"kind": "ll", "src": "file", "nb": nb, "pool": "multi", "seed": sd}
    for k in range(4):
        yield f"idx/{k}", {"kind": "idx", "k": k, "seed": sd}
    yield "history/rewritten-cache-file", {"kind": "rewrite", "seed": sd}
    for hist in ("rejection-first", "posterior-first", "other-data-first"):
        yield f"history/{hist}", {"kind": "history", "hist": hist, "seed": sd}
    for nb in (1, 4, 25):
        yield f"accepted/{nb}", {"kind": "accepted", "nb": nb, "seed": sd}


def nontrivial(inp):
    return inp.get("nb", 2) > 1


def check(inp):
    from thejoker import TheJoker
    fails = []
    bad = lambda name, **d: fails.append((f"twin:marginal_ln_likelihood/{name}", d))
    prior, data, lib, path, ref = _ctx(inp["seed"])
    if inp["kind"] == "ll":
        pool = None
        try:
            if inp["pool"] == "multi":
                from schwimmbad import MultiPool
                pool = MultiPool(2)
            joker = TheJoker(prior, rng=np.random.default_rng(1), pool=pool)
            got = joker.marginal_ln_likelihood(data, lib if inp["src"] == "object" else path, n_batches=inp["nb"])
        finally:
            if pool is not None:
                pool.close()
        if got.shape != ref.shape or not np.array_equal(got, ref):
            bad(f"same-values-in-input-order[{inp['src']},{inp['pool']}]", n_batches=inp["nb"], maxdiff=float(np.max(np.abs(got - ref))) if got.shape == ref.shape else None,
                shapes=[got.shape, ref.shape])
    elif inp["kind"] == "idx":
        # explicit (shuffled, non-monotone) index arrays through the helper, several batchings
        import schwimmbad
        from thejoker.multiproc_helpers import marginal_ln_likelihood_helper
        from thejoker.src.fast_likelihood import CJokerHelper
        joker = TheJoker(prior, rng=np.random.default_rng(1))
        helper = joker._make_joker_helper(data)
        rng = np.random.default_rng(inp["seed"] + inp["k"])
        sel = rng.permutation(len(ref))[: 5 + 4 * inp["k"]]
        for nb in (1, 3, 40):
            got = marginal_ln_likelihood_helper(helper, path, pool=schwimmbad.SerialPool(), n_batches=nb, samples_idx=sel)
            if not np.array_equal(got, ref[sel]):
                bad("index-array-values-in-the-given-order", n_batches=nb, sel=sel)
                break
    elif inp["kind"] == "rewrite":
        # the same path rewritten with the same physical samples in other column units: results must not depend on what was read before
        import astropy.units as u
        p2 = os.path.join(S.OUTDIR, f"c05_rw_{os.getpid()}.hdf5")
        joker = TheJoker(prior, rng=np.random.default_rng(1))
        for unit in ("day", "yr", "day"):
            l2 = lib.copy()
            l2.tbl["P"] = l2.tbl["P"].to(u.Unit(unit))
            if os.path.exists(p2):
                os.unlink(p2)
            l2.write(p2)
            got = joker.marginal_ln_likelihood(data, p2, n_batches=2)
            if not np.allclose(got, ref, rtol=1e-10, atol=1e-8):
                bad("independent-of-call-history[rewritten-cache-file]", unit=unit, maxdiff=float(np.max(np.abs(got - ref))))
                break
        if os.path.exists(p2):
            os.unlink(p2)
    elif inp["kind"] == "history":
        joker = TheJoker(prior, rng=np.random.default_rng(2))
        if inp["hist"] == "rejection-first":
            joker.rejection_sample(data, lib, in_memory=True, max_posterior_samples=3)
        elif inp["hist"] == "posterior-first":
            joker.rejection_sample(data, path, n_linear_samples=2, max_posterior_samples=2)
        else:
            joker.marginal_ln_likelihood(S.make_data(5, inp["seed"] + 9), lib, in_memory=True)
        got = joker.marginal_ln_likelihood(data, lib, in_memory=True)
        got2 = joker.marginal_ln_likelihood(data, path, n_batches=3)
        if not np.array_equal(got, ref) or not np.array_equal(got2, ref):
            bad(f"independent-of-call-history[{inp['hist']}]")
    else:
        sets = []
        for mode in ("inmem", "object", "file"):
            joker = TheJoker(prior, rng=np.random.default_rng(77))
            kw = dict(in_memory=True) if mode == "inmem" else dict(n_batches=inp["nb"])
            s = joker.rejection_sample(data, path if mode == "file" else lib, **kw)
            sets.append(sorted(float(x) for x in s["P"].value))
        if not (sets[0] == sets[1] == sets[2]):
            bad("same-accepted-set-for-equal-seeds", sets=sets)
    return fails
