"""Executable depyx: the current .pyx source run under CPython (used when the compiled extension is stale).
Run by /venv/bin/python only."""
import ast, sys, types, math, os
import numpy as np
sys.path.insert(0, os.path.join(os.path.dirname(os.path.abspath(__file__)), '..'))
from jvc.depyx import depyx

class Shim(ast.NodeTransformer):
    """rewrite calls that take ~addr arguments into shim calls; `~info` becomes an assignment target"""
    def visit_Expr(self, node):
        c = node.value
        if isinstance(c, ast.Call) and any(isinstance(a, ast.UnaryOp) and isinstance(a.op, ast.Invert) for a in c.args):
            name = ast.unparse(c.func).replace('.', '_')
            args = []; out = None
            for a in c.args:
                if isinstance(a, ast.UnaryOp) and isinstance(a.op, ast.Invert):
                    o = a.operand
                    if isinstance(o, ast.Subscript): args.append(o.value)          # &X[0,0] / &X[0] -> X
                    elif isinstance(o, ast.Name) and o.id == 'info': out = o; args.append(ast.Constant(None))
                    else: args.append(o)
                else: args.append(a)
            call = ast.Call(func=ast.Name('_sh_'+name, ast.Load()), args=args, keywords=[])
            if out is not None:
                return ast.copy_location(ast.Assign(targets=[ast.Name('info', ast.Store())], value=call), node)
            return ast.copy_location(ast.Expr(call), node)
        return node

def build(pyx_path):
    from scipy.linalg import lapack as L
    from twobody.wrap import cy_rv_from_elements
    py = depyx(open(pyx_path).read())
    tree = ast.parse(py)
    # class bodies that lost all statements need nothing: CJokerHelper still has methods
    tree = ast.fix_missing_locations(Shim().visit(tree))
    def dgetrf(m, n, A, lda, ipiv, info):
        lu, piv, inf = L.dgetrf(np.asarray(A).T, overwrite_a=False)   # Fortran sees the transpose of the C-ordered buffer
        A[:, :] = lu.T; ipiv[:] = piv + 1; return inf
    def dgetri(n, A, lda, ipiv, work, lwork, info):
        inv, inf = L.dgetri(np.asarray(A).T, np.asarray(ipiv) - 1); A[:, :] = inv.T; return inf
    def dsysv(uplo, n, nrhs, A, lda, ipiv, b, ldb, work, lwork, info):
        udut, piv, x, inf = L.dsysv(np.asarray(A).T, np.asarray(b), lower=0); b[:] = x; return inf
    def rvfe(t, rv, N, P, K, e, om, M0, t0, tol, maxiter):
        rv[0, :N] = cy_rv_from_elements(np.asarray(t), P, K, e, om, M0, t0, tol, maxiter)
    mod = types.ModuleType('fast_likelihood_depyx')
    mod.__dict__.update(dict(_sh_lapack_dgetrf=dgetrf, _sh_lapack_dgetri=dgetri, _sh_lapack_dsysv=dsysv,
                             _sh_c_rv_from_elements=rvfe, pow=math.pow, log=math.log, fabs=math.fabs, pi=math.pi,
                             __package__='thejoker.src', __name__='thejoker.src.fast_likelihood_depyx'))
    exec(compile(tree, pyx_path + ' (depyx)', 'exec'), mod.__dict__)
    return mod, py

