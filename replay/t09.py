"""C09 twin: densities and draws of the distributions thejoker defines / configures, on the real code."""
import itertools
import math

import numpy as np

import support as S

RULE = ("UniformLog(a,b) for (a,b) in {(2,100),(0.5,3),(1e-2,1e4)}: pm.logp on a 9-point grid inside/at/outside the support against ln(1/(x ln(b/a))) / -inf, "
        "numerical normalisation of exp(logp), Kolmogorov-Smirnov statistic of 20000 seeded draws against the log-uniform CDF (threshold 0.02: "
        "false-alarm probability < 1e-9) and support; FixedCompanionMass sigma on a (P,e) grid incl. the cap, P0 in yr/day; Kipping Beta parameters; "
        "prior.sample(return_logprobs=True): ln_prior - sum of own-row log-densities is constant over rows, nonlinear only and with generate_linear; "
        "non-trivial = evaluation points not at the support boundary")
EXHAUSTIVE = True
BOUNDED = ["statistical checks (KS) are evidence only", "pymc's own Normal / Beta / angle densities are not examined"]
BUDGET_S = {"quick": 120, "thorough": 600}


def cases(tier, seed):
    for ab in ((2.0, 100.0), (0.5, 3.0), (1e-2, 1e4)):
        yield f"uniformlog/{ab}", {"kind": "uniformlog", "a": ab[0], "b": ab[1], "seed": int(seed) + 1}
    for P0u in ("yr", "day"):
        for sKu in ("km/s", "m/s"):
            yield f"fcm/{P0u}/{sKu}", {"kind": "fcm", "P0u": P0u, "sKu": sKu}
    yield "kipping", {"kind": "kipping"}
    # the default period prior declared in other units: draws (as quantities) lie in the declared domain and are log-uniform on it
    for pu in (("day", "day"), ("yr", "yr"), ("h", "day"), ("yr", "day")):
        yield f"default-P/{pu}", {"kind": "default-P", "units": list(pu), "seed": int(seed) + 3}
    # trend sigmas given as a list, each in a unit of its own: every v_i prior is Normal(0, sigma_i) in the unit sigma_i was given in
    yield "trend-sigma/list-mixed-units", {"kind": "trend-sigma", "seed": int(seed) + 4}
    for gl in (False, True):
        for cK in (False, True):
            yield f"lnprior/{gl}/{cK}", {"kind": "lnprior", "generate_linear": gl, "customK": cK, "seed": int(seed) + 2}


def nontrivial(inp):
    return True


def check(inp):
    import astropy.units as u
    import pymc as pm
    fails = []
    bad = lambda fn, name, **d: fails.append((f"twin:{fn}/{name}", d))
    if inp["kind"] == "uniformlog":
        from thejoker.distributions import UniformLog
        a, b = inp["a"], inp["b"]
        d = UniformLog.dist(a, b)
        L = math.log(b / a)
        xs = [a * 0.5, a, a * 1.0001, math.sqrt(a * b), a * (b / a) ** 0.25, b * 0.999, b, b * 1.01, 10 * b]
        for x in xs:
            got = float(pm.logp(d, x).eval())
            want = -math.log(x) - math.log(L) if a <= x <= b else -math.inf
            if not (got == want or (math.isfinite(want) and abs(got - want) < 5e-5 * max(1, abs(want)))):
                bad("UniformLog.logp", "log-of-the-normalised-density", x=x, got=got, want=want)
                break
        grid = np.exp(np.linspace(math.log(a), math.log(b), 4001))
        dens = np.exp(np.array([float(v) for v in pm.logp(d, grid).eval()]))
        integ = float(np.sum(0.5 * (dens[1:] + dens[:-1]) * np.diff(grid)))
        if abs(integ - 1) > 2e-3:
            bad("UniformLog.logp", "density-integrates-to-one", integral=integ)
        draws = pm.draw(d, draws=20000, random_seed=np.random.default_rng(inp["seed"]))
        if draws.min() < a * (1 - 1e-6) or draws.max() > b * (1 + 1e-6):
            bad("UniformLogRV.rng_fn", "draws-inside-the-support", lo=float(draws.min()), hi=float(draws.max()))
        F = np.sort((np.log(draws) - math.log(a)) / L)
        ks = float(np.max(np.abs(F - (np.arange(1, len(F) + 1) - 0.5) / len(F))))
        if ks > 0.02:
            bad("UniformLogRV.rng_fn", "draws-follow-the-log-uniform-law", ks=ks)
        return fails
    if inp["kind"] == "fcm":
        import thejoker.units as xu
        from thejoker.distributions import FixedCompanionMass
        with pm.Model():
            P = xu.with_unit(pm.Uniform("P", 1.0, 10.0), u.day)
            e = xu.with_unit(pm.Uniform("e", 0.0, 0.9), u.one)
            P0 = (1.0 * u.yr) if inp["P0u"] == "yr" else (365.25 * u.day)
            sKu = u.Unit(inp.get("sKu", "km/s"))
            K = FixedCompanionMass("K", P=P, e=e, sigma_K0=(30 * u.km / u.s).to(sKu), P0=P0, max_K=400 * u.km / u.s)
        sig = K.owner.op.dist_params(K.owner)[1]
        f = (1 * u.km / u.s).to_value(sKu)      # the scale of K is in sigma_K0's unit
        for Pv, ev in itertools.product((0.004, 2.0, 50.0, 365.25, 5000.0), (0.0, 0.5, 0.95)):
            got = float(sig.eval({P: Pv, e: ev})) / f
            want = math.sqrt(min(30.0 ** 2 * (Pv / 365.25) ** (-2 / 3) / (1 - ev ** 2), 400.0 ** 2))
            if abs(got - want) > 1e-4 * want:
                bad("FixedCompanionMass.dist", "variance-rule-with-cap", P=Pv, e=ev, got=got, want=want)
                return fails
        return fails
    if inp["kind"] == "default-P":
        from thejoker import JokerPrior
        lo, hi = (3.0 * u.day).to(u.Unit(inp["units"][0])), (900.0 * u.day).to(u.Unit(inp["units"][1]))
        prior = JokerPrior.default(P_min=lo, P_max=hi, sigma_K0=25 * u.km / u.s, sigma_v=50 * u.km / u.s)
        smp = prior.sample(size=4000, rng=np.random.default_rng(inp["seed"]))
        Pd = smp["P"].to_value(u.day)
        if Pd.min() < 3.0 * (1 - 1e-9) or Pd.max() > 900.0 * (1 + 1e-9):
            bad("default_nonlinear_prior", "period-draws-inside-the-declared-domain", lo=float(Pd.min()), hi=float(Pd.max()), declared=[str(lo), str(hi)])
            return fails
        F = np.sort((np.log(Pd) - math.log(3.0)) / math.log(300.0))
        ks = float(np.max(np.abs(F - (np.arange(1, len(F) + 1) - 0.5) / len(F))))
        if ks > 0.045:      # n = 4000: false-alarm probability < 1e-9
            bad("default_nonlinear_prior", "period-draws-log-uniform-on-the-declared-domain", ks=ks)
        return fails
    if inp["kind"] == "trend-sigma":
        from thejoker import JokerPrior
        import thejoker.units as xu
        given = [10 * u.km / u.s, 100 * u.m / u.s / u.day, 3e-3 * u.km / u.s / u.yr ** 2]
        for form in ("list", "dict"):
            sv = list(given) if form == "list" else {f"v{i}": g for i, g in enumerate(given)}
            prior = JokerPrior.default(P_min=2 * u.day, P_max=100 * u.day, sigma_K0=25 * u.km / u.s, sigma_v=sv, poly_trend=3)
            for i, g in enumerate(given):
                d = prior.model[f"v{i}"]
                mu_, sd_ = [float(p.eval()) for p in d.owner.op.dist_params(d.owner)[:2]]
                unit = getattr(d, xu.UNIT_ATTR_NAME)
                if mu_ != 0.0 or not unit.is_equivalent(g.unit) or abs((sd_ * unit).to_value(g.unit) - g.value) > 1e-12 * g.value:
                    bad("default_linear_prior", f"v{i}-is-a-zero-mean-normal-with-the-given-sigma-and-unit[{form}]", declared=str(g), got=f"{sd_} {unit}")
            smp = prior.sample(size=2000, rng=np.random.default_rng(inp["seed"]), generate_linear=True)
            for i, g in enumerate(given):
                sd = float(np.std(smp[f"v{i}"].to_value(g.unit)))
                if abs(sd / g.value - 1) > 0.15:       # n = 2000: 0.15 is > 9 sigma of the sample standard deviation
                    bad("JokerPrior.sample", f"v{i}-draws-have-the-declared-standard-deviation[{form}]", declared=str(g), got=sd)
        return fails
    if inp["kind"] == "kipping":
        from thejoker import distributions as D
        for cls, (al, be) in (("Kipping13Long", (1.12, 3.09)), ("Kipping13Short", (0.697, 3.27)), ("Kipping13Global", (0.867, 3.03))):
            d = getattr(D, cls).dist()
            pa = [float(p.eval()) for p in d.owner.op.dist_params(d.owner)[:2]] if hasattr(d.owner.op, "dist_params") else [float(p.eval()) for p in d.owner.inputs[-2:]]
            if abs(pa[0] - al) > 1e-6 or abs(pa[1] - be) > 1e-6:
                bad(cls + ".dist", "published-beta-parameters", got=pa)
        return fails
    # ln_prior of prior.sample = sum of own-row log densities (up to one constant)
    from scipy import stats
    import thejoker.units as xu
    prior = S.default_prior(poly_trend=2, custom_K=inp["customK"])
    s = prior.sample(size=12, rng=np.random.default_rng(inp["seed"]), generate_linear=inp["generate_linear"], return_logprobs=True)
    lp = np.asarray(s["ln_prior"])
    P = s["P"].to_value(u.day)
    e = np.asarray(s["e"])
    own = -np.log(P) + stats.beta.logpdf(e, 0.867, 3.03)
    tag = "[generate_linear]" if inp["generate_linear"] else ""
    if inp["generate_linear"]:
        for nm in ("v0", "v1"):
            d = prior.model[nm]
            mu_, sd_ = [float(p.eval()) for p in d.owner.op.dist_params(d.owner)[:2]]
            own = own + stats.norm.logpdf(s[nm].value, mu_, sd_)
        K = s["K"].to_value(u.km / u.s)
        if inp["customK"]:
            own = own + stats.norm.logpdf(K, 0.7, 11.0)
        else:
            sig = np.sqrt(np.minimum(25.0 ** 2 * (P / 365.25) ** (-2 / 3) / (1 - e ** 2), 500.0 ** 2))
            own = own + stats.norm.logpdf(K, 0.0, sig)
            tag = "[generate_linear,default-K]"
    resid = lp - own
    if not inp["generate_linear"]:
        # another prior (another period domain) scored in the same process afterwards: its ln_prior is ITS density, not the previous prior's
        from thejoker import JokerPrior
        other = JokerPrior.default(P_min=300 * u.day, P_max=5000 * u.day, sigma_K0=25 * u.km / u.s, sigma_v=50 * u.km / u.s)
        s2 = other.sample(size=12, rng=np.random.default_rng(inp["seed"] + 1), return_logprobs=True)
        lp2 = np.asarray(s2["ln_prior"])
        own2 = -np.log(s2["P"].to_value(u.day)) + stats.beta.logpdf(np.asarray(s2["e"]), 0.867, 3.03)
        if not np.all(np.isfinite(lp2)) or np.ptp(lp2 - own2) > 1e-3 * max(1.0, np.abs(lp2).max()):
            bad("JokerPrior.sample", "ln_prior-is-this-priors-own-density-whatever-was-sampled-before[call-history]", spread=float(np.ptp(lp2 - own2)) if np.all(np.isfinite(lp2)) else "not finite")
    if np.ptp(resid) > 1e-3 * max(1.0, np.abs(lp).max()):
        bad("JokerPrior.sample", "ln_prior-is-the-sum-of-own-row-log-densities-up-to-a-constant" + tag, spread=float(np.ptp(resid)))
    return fails
