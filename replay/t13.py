"""C13 twin: native fault injection - a chosen call inside the sampling helpers raises at its k-th invocation."""
import glob
import hashlib
import os
import tempfile

import numpy as np

import support as S
import t02

RULE = ("entry points {marginal_ln_likelihood, rejection_sample, iterative_rejection_sample} x samples as {object (temp cache), file} x "
        "failing site in {JokerSamples.write, read_batch, kernel likelihood, kernel posterior draw, pool.map, JokerSamples.unpack, np.concatenate} "
        "x k in {1,2,3}-th invocation; after each failure: exception reached the caller, no new file in the temp directory, the user's "
        "file is byte-identical, and the same TheJoker gives the reference result on the next call; non-trivial = the injected site is reached")
EXHAUSTIVE = True
BOUNDED = ["k <= 3; SerialPool (MultiPool only in the thorough tier)"]
BUDGET_S = {"quick": 90, "thorough": 600}
SITES = ["write", "write-inner", "read_batch", "ll", "post", "pool.map", "unpack", "concatenate"]


class Boom(Exception):
    pass


# the same fault as an instance of classes that clean-up code is tempted to tolerate (a vanished file, a missing key, a closed pool)
class BoomFileNotFound(Boom, FileNotFoundError):
    pass


class BoomKey(Boom, KeyError):
    pass


BOOMS = [Boom, BoomFileNotFound, BoomKey]


def cases(tier, seed):
    for entry in ("marginal", "rejection", "iterative"):
        for src in ("object", "file"):
            for site in SITES:
                for k in (1, 2, 3):
                    yield f"{entry}/{src}/{site}/{k}", {"entry": entry, "src": src, "site": site, "k": k, "seed": int(seed) + 6}


_reached = {}


def nontrivial(inp):
    return _reached.get(key(inp), True)


def key(inp):
    return f"{inp['entry']}/{inp['src']}/{inp['site']}/{inp['k']}"


_ctx = {}


def _setup(seed):
    if "lib" in _ctx:
        return
    lib = S.library(9)
    lnp = np.arange(9.0)
    _ctx["path"] = t02._write_lib(lib, lnp)
    from thejoker import JokerSamples
    _ctx["obj"] = JokerSamples.read(_ctx["path"])
    _ctx["hash"] = hashlib.sha256(open(_ctx["path"], "rb").read()).hexdigest()


def _pool():
    """a serial pool that behaves like a process pool once closed: it refuses further work"""
    import schwimmbad

    class TrackPool(schwimmbad.SerialPool):
        closed = False

        def close(self):
            self.closed = True

        def map(self, *a, **k):
            if self.closed:
                raise ValueError("Pool not running")
            return super().map(*a, **k)
    return TrackPool()


def _call(entry, joker_mod, helper, src, rng, pool):
    import schwimmbad
    from thejoker.multiproc_helpers import iterative_rejection_helper, marginal_ln_likelihood_helper, rejection_sample_helper
    if entry == "marginal":
        return marginal_ln_likelihood_helper(helper, src, pool=pool, n_batches=3)
    if entry == "rejection":
        return rejection_sample_helper(helper, src, pool=pool, rng=rng, n_batches=2, return_logprobs=True)
    return iterative_rejection_helper(helper, src, pool=pool, rng=rng, n_requested_samples=2, init_batch_size=4, growth_factor=2, return_logprobs=True)


def check(inp):
    import schwimmbad
    import thejoker.multiproc_helpers as mh
    import thejoker.utils as ut
    from thejoker import JokerSamples
    fails = []
    bad = lambda name, **d: fails.append((f"twin:fault-injection/{name}", d))
    _setup(inp["seed"])
    helper = S.StubHelper({i: [0.0, -1.0, -0.5][i % 3] for i in range(9)})
    src = _ctx["obj"] if inp["src"] == "object" else _ctx["path"]
    tmpdir = tempfile.gettempdir()
    before = set(glob.glob(os.path.join(tmpdir, "*.hdf5")))
    count = {"n": 0}

    def failing(orig):
        def f(*a, **k):
            count["n"] += 1
            if count["n"] == inp["k"]:
                raise BOOMS[inp['k'] % 3](f"injected at {inp['site']} #{inp['k']}")
            return orig(*a, **k)
        return f
    patches = []

    def patch(obj, name, wrap=failing):
        orig = getattr(obj, name)
        patches.append((obj, name, orig))
        setattr(obj, name, wrap(orig))
    site = inp["site"]
    if site == "write":
        patch(JokerSamples, "write")
    elif site == "write-inner":
        import thejoker.samples_helpers as sh
        patch(sh, "_encode_mixins")          # a failure INSIDE the table writer, after the output file has been opened
    elif site == "read_batch":
        patch(mh, "read_batch")
    elif site == "ll":
        patch(helper, "batch_marginal_ln_likelihood")
    elif site == "post":
        patch(helper, "batch_get_posterior_samples")
    elif site == "pool.map":
        patch(schwimmbad.SerialPool, "map")
    elif site == "unpack":
        orig = JokerSamples.__dict__["unpack"]
        patches.append((JokerSamples, "unpack", orig))
        JokerSamples.unpack = classmethod(lambda cls, *a, **k: failing(orig.__func__)(cls, *a, **k))
    elif site == "concatenate":
        patch(mh.np, "concatenate")
    raised = None
    pool = _pool()
    try:
        try:
            _call(inp["entry"], mh, helper, src, np.random.default_rng(3), pool)
        except Boom as e:
            raised = e
        except Exception as e:     # the injected failure was replaced by another exception on its way out
            raised = e if count["n"] >= inp["k"] else None
            if raised is None:
                bad("unexpected-exception", exc=repr(e))
            else:
                bad("the-original-exception-reaches-the-caller", got=repr(e), site=site)
    finally:
        for obj, name, orig in reversed(patches):
            setattr(obj, name, orig)
    reached = count["n"] >= inp["k"]
    _reached[key(inp)] = reached
    if reached and raised is None:
        bad("failure-must-reach-the-caller", site=site, k=inp["k"])
    after = set(glob.glob(os.path.join(tmpdir, "*.hdf5")))
    if after - before:
        bad("no-temporary-file-left-behind", leaked=sorted(after - before))
        for f in after - before:
            os.unlink(f)
    if hashlib.sha256(open(_ctx["path"], "rb").read()).hexdigest() != _ctx["hash"]:
        bad("user-file-unchanged")
    # the same objects work on the next call
    helper2 = S.StubHelper({i: [0.0, -1.0, -0.5][i % 3] for i in range(9)})
    try:
        ll = mh.marginal_ln_likelihood_helper(helper2, src, pool=pool, n_batches=2)      # the SAME pool the failed call was given
        if not np.array_equal(ll, np.array([[0.0, -1.0, -0.5][i % 3] for i in range(9)])):
            bad("next-call-gives-correct-results")
    except Exception as e:
        bad("next-call-gives-correct-results", exc=repr(e), pool_closed=pool.closed)
    return fails
