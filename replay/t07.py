"""C07 twin: the same physical problem expressed in other units."""
import numpy as np

import support as S
import t01

RULE = ("one physical problem (7 epochs, default K prior with P0 = 1 yr, poly_trend 2, sampled jitter) expressed with data in {km/s, m/s}, "
        "prior velocity scales in {km/s, m/s}, period prior in {day, yr}, and (cached path, batches read back from the file) prior-sample columns in {yr, h} x {deg}: ln-likelihood differs from the reference exactly by "
        "n_epochs*ln(unit ratio of the data), equal seeds give the same accepted prior rows and physically equal posterior samples; "
        "non-trivial = a unit assignment different from the reference")
EXHAUSTIVE = True
BOUNDED = ["a single physical problem; unit systems {km/s, m/s} x {day, yr}; sample columns {yr, h} x {deg} on the cached path"]
BUDGET_S = {"quick": 150, "thorough": 600}
KERNEL_IN_SYNC = None
_ref = {}


def setup():
    global KERNEL_IN_SYNC
    KERNEL_IN_SYNC = S.install_kernel()


def cases(tier, seed):
    for du in ("km/s", "m/s"):
        for vu in ("km/s", "m/s"):
            for Pu in ("day", "yr"):
                yield f"{du}/{vu}/{Pu}", {"du": du, "vu": vu, "Pu": Pu, "seed": int(seed) + 4}
    # prior-sample columns in other (equivalent) units, read back from the cache file in batches (read_batch converts to internal units)
    for du, vu, Pu in (("km/s", "km/s", "day"), ("m/s", "m/s", "yr")):
        for cols in ("yr,deg", "h,deg"):
            yield f"{du}/{vu}/{Pu}/cached/{cols}", {"du": du, "vu": vu, "Pu": Pu, "seed": int(seed) + 4, "cached": True, "cols": cols}


def priority(inp):
    return 0 if inp.get("cached") else 1


def nontrivial(inp):
    return (inp["du"], inp["vu"], inp["Pu"]) != ("km/s", "km/s", "day") or bool(inp.get("cached"))


def _run(inp):
    import astropy.units as u
    from thejoker import TheJoker
    prior = S.default_prior(poly_trend=2, P_unit=inp["Pu"], v_unit=inp["vu"], s=True)
    data = S.make_data(7, inp["seed"], unit=inp["du"])
    # the SAME physical prior samples for every unit system: drawn once in the reference system, then re-expressed
    if "lib" not in _ref:
        ref_prior = S.default_prior(poly_trend=2, P_unit="day", v_unit="km/s", s=True)
        _ref["lib"] = ref_prior.sample(size=40, rng=np.random.default_rng(inp["seed"]))
    lib = _ref["lib"].copy()
    lib.tbl["P"] = lib.tbl["P"].to(u.Unit(inp["Pu"]))
    lib.tbl["s"] = lib.tbl["s"].to(u.Unit(inp["vu"]))
    mem = not inp.get("cached")
    if not mem:
        Pc, ac = inp["cols"].split(",")
        lib.tbl["P"] = lib.tbl["P"].to(u.Unit(Pc))
        lib.tbl["omega"] = lib.tbl["omega"].to(u.Unit(ac))
        lib.tbl["M0"] = lib.tbl["M0"].to(u.Unit(ac))
    joker = TheJoker(prior, rng=np.random.default_rng(99))
    P_before = np.array(lib["P"].value, copy=True)
    ll = joker.marginal_ln_likelihood(data, lib, in_memory=mem)
    ll_again = joker.marginal_ln_likelihood(data, lib, in_memory=mem)
    if not np.array_equal(np.asarray(ll), np.asarray(ll_again)) or not np.array_equal(P_before, np.asarray(lib["P"].value)):
        _ref.setdefault("twice_fail", []).append(dict(inp))
    joker2 = TheJoker(prior, rng=np.random.default_rng(99))
    post = joker2.rejection_sample(data, lib, in_memory=mem)
    return ll, post, len(data)


def check(inp):
    import astropy.units as u
    fails = []
    bad = lambda name, **d: fails.append((f"twin:unit-invariance/{name}", d))
    if "ref" not in _ref:
        _ref["ref"] = _run({"du": "km/s", "vu": "km/s", "Pu": "day", "seed": inp["seed"]})
    ll0, post0, n = _ref["ref"]
    ll, post, _ = _run(inp)
    if _ref.get("twice_fail"):
        bad("same-answer-when-the-same-samples-are-evaluated-again[call-history]", cfg=_ref.pop("twice_fail")[0])
        return fails
    ratio = (1 * u.km / u.s).to_value(u.Unit(inp["du"]))
    want = ll0 - n * np.log(ratio)
    if inp.get("cached"):
        # the cached path draws the linear parameters on child generators: its reference is the same cached run with the sample
        # columns stored in the internal units (day, rad); the likelihood is still compared with the in-memory reference as well
        rk = ("cached-ref", inp["du"], inp["vu"], inp["Pu"])
        if rk not in _ref:
            _ref[rk] = _run(dict(inp, cols="day,rad"))
        llc, post0, _ = _ref[rk]
        if not np.allclose(ll, llc, rtol=1e-9, atol=1e-6):
            bad("likelihood-independent-of-the-units-of-the-sample-columns", maxdiff=float(np.max(np.abs(ll - llc))), cfg=inp)
            return fails
    if not np.allclose(ll, want, rtol=1e-9, atol=1e-6):
        bad("likelihood-changes-only-by-the-jacobian-constant", maxdiff=float(np.max(np.abs(ll - want))), cfg=inp)
        return fails
    if len(post) != len(post0) or not np.allclose(post["P"].to_value(u.day), post0["P"].to_value(u.day), rtol=1e-12):
        bad("same-accepted-set-for-equal-seeds", n=len(post), n0=len(post0))
        return fails
    for nm, unit in (("K", u.km / u.s), ("v0", u.km / u.s), ("v1", u.km / u.s / u.day), ("s", u.km / u.s)):
        if not np.allclose(post[nm].to_value(unit), post0[nm].to_value(unit), rtol=1e-6, atol=1e-9):
            bad("posterior-samples-physically-equal", column=nm, cfg=inp)
    return fails
