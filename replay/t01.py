"""C01 twin: TheJoker.marginal_ln_likelihood against the closed form ln N(y | M mu, C + s^2 I + M Lambda M^T) computed
independently (numpy/scipy + twobody's Kepler solver for the K column) from the property statement."""
import itertools
import math

import numpy as np

import support as S

RULE = ("priors: poly_trend in {1,2,3} x n_offsets in {0,1,2} x K prior {default, custom Normal} x jitter {0, sampled} x period prior unit "
        "{day, yr} x data unit {km/s, m/s}; 6-7 epochs per survey (interleaved surveys), non-zero prior means; 6 seeded prior rows each incl. "
        "e up to 0.95 and one row pinned at the K-variance cap; compared to rtol max(1e-6, 2e-12 cond(B)), capped at 1e-3 (both evaluations lose about eps cond(B)); non-trivial = every case (jitter or trend or offsets)")
EXHAUSTIVE = False
BOUNDED = ["floating point: agreement to rtol max(1e-6, 2e-12 cond(B)) / atol 1e-6 (Kepler tolerance 1e-10 in the kernel)"]
BUDGET_S = {"quick": 120, "thorough": 900}
KERNEL_IN_SYNC = None


def setup():
    global KERNEL_IN_SYNC
    KERNEL_IN_SYNC = S.install_kernel()


def cases(tier, seed):
    cfgs = []
    for pt_ in (1, 2, 3):
        for no in (0, 1, 2):
            for cK in (False, True):
                for s in (None, True):
                    for Pu in ("day", "yr"):
                        for vu in ("km/s", "m/s"):
                            cfgs.append((pt_, no, cK, s, Pu, vu))
    if tier == "quick":
        rng = np.random.default_rng(seed)
        keep = [c for c in cfgs if (c[0], c[1]) in ((1, 0), (2, 0), (2, 1), (3, 2), (1, 2)) and (c[4] == "yr") == (c[5] == "m/s")]
        cfgs = keep
    for c in cfgs:
        for layout in (("single", "single-tref-75", "single-tref+30", "single-tref-utc") if c[1] == 0 else ("disjoint", "interleaved", "disjoint-mixed-units")):
            if layout.startswith("single-tref") and c[0] == 1 and not layout.endswith("utc"):
                continue        # a reference epoch in TCB only enters through the trend columns
            yield "/".join(map(str, c)) + "/" + layout, {"pt": c[0], "no": c[1], "customK": c[2], "s": c[3], "Pu": c[4], "vu": c[5],
                                                         "seed": int(seed) + 5, "layout": layout}


def nontrivial(inp):
    return True


_seen_features = set()


def priority(inp):
    """one representative of every (layout, poly_trend>1, K-prior kind, jitter) combination first"""
    f0 = (inp["layout"], inp["pt"] > 1)
    f1 = (inp["layout"], inp["pt"] > 1, inp["customK"], inp["s"] is not None)
    pr = 0 if f0 not in _seen_features else (1 if f1 not in _seen_features else 2)
    _seen_features.update((f0, f1))
    return pr


def build(inp):
    import astropy.units as u
    from thejoker import TheJoker
    prior = S.default_prior(poly_trend=inp["pt"], n_offsets=inp["no"], P_unit=inp["Pu"], v_unit=inp["vu"], s=inp["s"], custom_K=inp["customK"])
    layout = inp.get("layout", "single")
    other = "m/s" if inp["vu"] == "km/s" else "km/s"
    datas = [S.make_data(6 + (k % 2), inp["seed"] + 3 * k, unit=(other if (layout == "disjoint-mixed-units" and k >= 1) else inp["vu"]),
                         t_shift=(450.0 * k if layout.startswith("disjoint") else 0.0))
             for k in range(inp["no"] + 1)]
    if layout.startswith("single-tref"):
        # an explicit reference epoch that is not the earliest observation
        from astropy.time import Time
        d0 = datas[0]
        shift = -75.0 if layout.endswith("-75") else 30.5
        from thejoker import RVData
        scale = "utc" if layout.endswith("-utc") else "tcb"
        datas[0] = RVData(t=d0.t, rv=d0.rv, rv_err=d0.rv_err, t_ref=Time(d0.t.tcb.mjd.min() + shift, format="mjd", scale=scale))
    if layout == "single-precise":
        # m/s-level precision (0.03 - 0.15 m/s ... expressed in the data unit): variances far below any "small number" in km/s
        from thejoker import RVData
        d0 = datas[0]
        datas[0] = RVData(t=d0.t, rv=d0.rv, rv_err=d0.rv_err * 1e-4)
    data = datas[0] if inp["no"] == 0 else datas
    return prior, data


def closed_form(prior, data, samples_rows, inp, parts=False):
    """independent evaluation from the statement (parts=True: also the matrices M, mu, Lambda, C_s and y per row)"""
    import astropy.units as u
    from scipy.stats import multivariate_normal
    from twobody.wrap import cy_rv_from_elements
    import thejoker.units as xu
    vu = u.Unit(inp["vu"])
    srcs = [data] if inp["no"] == 0 else list(data)
    t = np.concatenate([d.t.tcb.mjd for d in srcs])
    y = np.concatenate([d.rv.to_value(vu) for d in srcs])
    err = np.concatenate([d.rv_err.to_value(vu) for d in srcs])
    lab = np.concatenate([[k] * len(d) for k, d in enumerate(srcs)])
    # the sampler's reference epoch: the data's declared one (single data set), the earliest time of the merged data otherwise
    tref = float(data.t_ref.tcb.mjd) if inp["no"] == 0 else t.min()
    nl = 1 + inp["pt"] + inp["no"]
    cols = [np.ones_like(t)] + [(lab == k).astype(float) for k in range(1, inp["no"] + 1)] + [(t - tref) ** j for j in range(1, inp["pt"])]
    # prior means / variances in the data unit (v_j in unit/day^j)
    def ms(name, j=0):
        d = prior.model[name]
        unit = getattr(d, xu.UNIT_ATTR_NAME)
        mu_, sd_ = [float(p.eval()) for p in d.owner.op.dist_params(d.owner)[:2]]
        f = (1 * unit).to_value(vu / u.day ** j)
        return mu_ * f, sd_ * f
    mus, lams = [None], [None]
    m, sd = ms("v0")
    mus.append(m); lams.append(sd ** 2)
    for k in range(1, inp["no"] + 1):
        m, sd = ms(f"dv0_{k}")
        mus.append(m); lams.append(sd ** 2)
    for j in range(1, inp["pt"]):
        m, sd = ms(f"v{j}", j)
        mus.append(m); lams.append(sd ** 2)
    out, extra = [], []
    for row in samples_rows:
        P, e, om, M0, s = row      # P in day, s in data unit
        Kcol = cy_rv_from_elements(np.ascontiguousarray(t), P, 1.0, e, om, M0, tref, 1e-12, 256)
        M = np.column_stack([Kcol] + cols)
        if inp["customK"]:
            mK, sK = ms("K")
            varK = sK ** 2
        else:
            dK = prior.model["K"]
            mK = float(dK.owner.op.dist_params(dK.owner)[0].eval()) * (1 * getattr(dK, xu.UNIT_ATTR_NAME)).to_value(vu)
            sK0 = dK._sigma_K0.to_value(vu)
            P0 = dK._P0.to_value(u.day)
            maxK = dK._max_K.to_value(vu)
            varK = min(sK0 ** 2 * (P / P0) ** (-2 / 3) / (1 - e ** 2), maxK ** 2)
        mu = np.array([mK] + mus[1:])
        Lam = np.diag([varK] + lams[1:])
        C = np.diag(err ** 2 + s ** 2)
        Bm = C + M @ Lam @ M.T
        r = y - M @ mu
        sign, logdet = np.linalg.slogdet(2 * np.pi * Bm)
        out.append(-0.5 * (r @ np.linalg.solve(Bm, r) + logdet) if sign > 0 else np.nan)
        if parts:
            extra.append((M, mu, Lam, C, y))
    if parts:
        return np.array(out), extra
    return np.array(out)


def rows_for(prior, inp, helper_units, n=6):
    import astropy.units as u
    samples = prior.sample(size=n, rng=np.random.default_rng(inp["seed"]))
    # stress rows: high eccentricity, and a short period so that the K-variance cap binds for the default prior
    samples["e"][0] = 0.95
    samples["P"][1] = (2.0001 * u.day).to(samples["P"].unit)
    samples["e"][1] = 0.9
    return samples


def check(inp):
    import astropy.units as u
    from thejoker import TheJoker
    fails = []
    bad = lambda name, **d: fails.append((f"twin:TheJoker.marginal_ln_likelihood/{name}", d))
    prior, data = build(inp)
    joker = TheJoker(prior, rng=np.random.default_rng(1))
    samples = rows_for(prior, inp, None)
    ll = joker.marginal_ln_likelihood(data, samples, in_memory=True)
    vu = u.Unit(inp["vu"])
    s_col = samples["s"].to_value(vu) if "s" in samples.par_names else np.zeros(len(samples))
    rows = np.column_stack([samples["P"].to_value(u.day), np.asarray(samples["e"]), samples["omega"].to_value(u.rad), samples["M0"].to_value(u.rad), s_col])
    want, parts_ = closed_form(prior, data, rows, inp, parts=True)
    if not np.all(np.isfinite(ll)):
        bad("finite-for-valid-input", ll=ll)
    # trend columns over a baseline of several hundred days make B = C + M Lambda M^T ill-conditioned: BOTH evaluations (the kernel's Woodbury form and
    # this direct solve) lose about eps * cond(B) in relative accuracy, so the comparison tolerance follows the condition number of the case
    cond = max(float(np.linalg.cond(p_[3] + p_[0] @ p_[2] @ p_[0].T)) for p_ in parts_)
    rtol = min(1e-3, max(1e-6, 2e-12 * cond))
    if not np.allclose(ll, want, rtol=rtol, atol=1e-6):
        # surveys interleaved in time run into the (separately listed) C08 label defect: reported under its own clause name
        tag = "[multi-survey-interleaved]" if inp.get("layout") == "interleaved" else ""      # (other layouts carry no tag)
        bad("equals-the-analytic-gaussian-marginal" + tag, got=ll, want=want, cfg=inp)
    if not fails and inp.get("layout") == "single" and inp["pt"] <= 2:
        # call history on ONE samples object: a column is replaced through the public API, the same object is evaluated again
        samples["P"] = samples["P"] * 1.25
        ll2 = joker.marginal_ln_likelihood(data, samples, in_memory=True)
        rows2 = rows.copy()
        rows2[:, 0] = samples["P"].to_value(u.day)
        want2 = closed_form(prior, data, rows2, inp)
        if not np.allclose(ll2, want2, rtol=rtol, atol=1e-6):
            bad("equals-the-analytic-gaussian-marginal-after-a-column-was-replaced[call-history]", got=ll2, want=want2, cfg=inp)
        # ... and after an IN-PLACE edit of a live column (no item assignment on the samples object is involved)
        samples["e"][::2] = 0.0
        ll3 = joker.marginal_ln_likelihood(data, samples, in_memory=True)
        rows3 = rows2.copy()
        rows3[:, 1] = np.asarray(samples["e"])
        want3 = closed_form(prior, data, rows3, inp)
        if not np.allclose(ll3, want3, rtol=rtol, atol=1e-6):
            bad("equals-the-analytic-gaussian-marginal-after-a-column-was-edited-in-place[call-history]", got=ll3, want=want3, cfg=inp)
        # ... and evaluating does not modify the samples it is given
        if not np.allclose(samples["P"].to_value(u.day), rows3[:, 0], rtol=1e-13) or not np.array_equal(np.asarray(samples["e"]), rows3[:, 1]):
            bad("the-given-samples-are-left-unchanged[call-history]")
    return fails
