"""C16 twin: executable copy of the batch_tasks / run_worker postconditions, run on the real functions."""
import itertools
import numpy as np

RULE = ("exhaustive enumeration of (n_tasks, n_batches, start_idx, arr?, args?) in a box; a case is non-trivial when "
        "n_tasks > 1; distinct = distinct argument tuples")
EXHAUSTIVE = True
BOUNDED = []


def cases(tier, seed):
    N, B = (14, 16) if tier == "quick" else (60, 70)
    for n_tasks in range(1, N + 1):
        for n_batches in range(1, B + 1):
            for start in (0, 1, 7):
                for with_arr in (False, True):
                    for args in (None, ("a", 3)):
                        yield f"{n_tasks}/{n_batches}/{start}/{with_arr}/{args}", {
                            "n_tasks": n_tasks, "n_batches": n_batches, "start_idx": start, "with_arr": with_arr, "args": args}


IDX_ARRAYS = [[0], [3], [0, 1, 2, 3], [2, 9, 0, 5], [5, 4, 3, 2], [7, 7, 1], [1, 3, 5, 7, 9, 11], [11, 0, 10, 1, 9, 2, 8], [4, 6, 5, 7]]
_orig_cases = cases


def cases(tier, seed):  # noqa: F811
    yield from _orig_cases(tier, seed)
    for ia, idx in enumerate(IDX_ARRAYS):
        for nb in (None, 1, 2, 3, 5, 20):
            for with_rng in (False, True):
                yield f"rw/idx{ia}/{nb}/{with_rng}", {"level": "rw", "idx": idx, "n_batches": nb, "rng": with_rng, "npri": None}
    for npri in (None, 1, 5, 12):
        for nb in (None, 1, 4, 13, 30):
            yield f"rw/range/{npri}/{nb}", {"level": "rw", "idx": None, "n_batches": nb, "rng": False, "npri": npri}


def nontrivial(inp):
    if inp.get("level") == "rw":
        return True
    return inp["n_tasks"] > 1


_lib_path = None


def _echo_worker(task):
    first = task[0]
    rows = list(range(first[0], first[1])) if isinstance(first, tuple) else [int(x) for x in first]
    return {"rows": rows, "start": task[1], "rest": len(task) - 2, "rng": task[-1] if len(task) > 4 else None}


def _check_rw(inp):
    import os
    import numpy as np
    import schwimmbad
    import support as S
    import t02
    from thejoker.multiproc_helpers import run_worker
    global _lib_path
    fails = []
    bad = lambda name, **d: fails.append((f"twin:run_worker/{name}", d))
    if _lib_path is None or not os.path.exists(_lib_path):
        _lib_path = t02._write_lib(S.library(12), np.arange(12.0))
    idx = None if inp["idx"] is None else np.array(inp["idx"])
    rng = np.random.default_rng(5) if inp["rng"] else None
    res = run_worker(_echo_worker, schwimmbad.SerialPool(), _lib_path, task_args=("A", "B"), n_batches=inp["n_batches"],
                     n_prior_samples=inp["npri"], samples_idx=idx, rng=rng)
    want = list(inp["idx"]) if idx is not None else list(range(12 if inp["npri"] is None else inp["npri"]))
    got = [r for t in res for r in t["rows"]]
    if got != want:
        bad("covers-exactly-the-requested-rows-in-order", got=got, want=want)
    if any(len(t["rows"]) == 0 for t in res):
        bad("each-nonempty")
    pos = 0
    for t in res:
        if t["start"] != pos:
            bad("own-start", got=t["start"], want=pos)
            break
        pos += len(t["rows"])
    if inp["rng"]:
        gens = [t["rng"] for t in res]
        if any(not isinstance(g, np.random.Generator) for g in gens):
            bad("one-child-generator-per-task")
        else:
            draws = [tuple(g.integers(0, 2**62, size=3)) for g in gens]
            if len(set(draws)) != len(draws):
                bad("children-distinct-within-the-call")
    return fails


_orig_check = None


def check(inp):
    if inp.get("level") == "rw":
        return _check_rw(inp)
    from thejoker.utils import batch_tasks
    n, nb, s = inp["n_tasks"], inp["n_batches"], inp["start_idx"]
    arr = np.arange(1000, 1000 + s + n + 3) if inp["with_arr"] else None
    args = inp["args"]
    res = batch_tasks(n, nb, arr=arr, args=args, start_idx=s)
    fails = []

    def lo(t):
        return int(t[0][0]) - 1000 if inp["with_arr"] else t[0][0]

    def hi(t):
        return int(t[0][-1]) - 1000 + 1 if inp["with_arr"] else t[0][1]
    ok = lambda c, name, d=None: None if c else fails.append((f"twin:batch_tasks/{name}", d or {"result": repr(res)[:300]}))
    ok(len(res) >= 1, "nonempty")
    if len(res) >= 1 and all(len(t[0]) > 0 for t in res):
        ok(len(res) == (nb if n >= nb else 1), "count")
        ok(lo(res[0]) == s, "first")
        ok(hi(res[-1]) == s + n, "last")
        ok(all(hi(res[k]) == lo(res[k + 1]) for k in range(len(res) - 1)), "chain")
        ok(all(lo(t) < hi(t) for t in res), "each-nonempty")
        ok(all(t[1] == lo(t) for t in res), "own-start")
        ok(all(list(t[2:]) == list(args or []) for t in res), "args-passed")
        if inp["with_arr"]:
            ok(all(np.array_equal(t[0], arr[lo(t):hi(t)]) for t in res), "arr-slice")
        covered = sorted(p for t in res for p in range(lo(t), hi(t)))
        ok(covered == list(range(s, s + n)), "cover")
    else:
        ok(False, "each-nonempty")
    return fails


def from_model(name, model):
    def g(k, d):
        try:
            return int(model.get(k, d))
        except (TypeError, ValueError):
            return d
    n, nb, s = max(1, g("n_tasks", 1)), max(1, g("n_batches", 1)), max(0, g("start_idx", 0))
    out = []
    for with_arr in ((True, False) if "[arr" in name else (False, True)):
        for args in ((("a", 3), None) if "args]" in name else (None, ("a", 3))):
            out.append({"n_tasks": n, "n_batches": nb, "start_idx": s, "with_arr": with_arr, "args": args})
    return out


def related(obligation, clause):
    return "batch_tasks" in obligation and "batch_tasks" in clause or "run_worker" in obligation and "run_worker" in clause
