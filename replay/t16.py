"""C16 twin: executable copy of the batch_tasks / run_worker postconditions, run on the real functions."""
import itertools
import numpy as np

RULE = ("exhaustive enumeration of (n_tasks, n_batches, start_idx, arr?, args?) in a box; a case is non-trivial when "
        "n_tasks > 1; distinct = distinct argument tuples")
EXHAUSTIVE = True
BOUNDED = []


def cases(tier, seed):
    N, B = (14, 16) if tier == "quick" else (60, 70)
    for n_tasks in range(1, N + 1):
        for n_batches in range(1, B + 1):
            for start in (0, 1, 7):
                for with_arr in (False, True):
                    for args in (None, ("a", 3)):
                        yield f"{n_tasks}/{n_batches}/{start}/{with_arr}/{args}", {
                            "n_tasks": n_tasks, "n_batches": n_batches, "start_idx": start, "with_arr": with_arr, "args": args}


def nontrivial(inp):
    return inp["n_tasks"] > 1


def check(inp):
    from thejoker.utils import batch_tasks
    n, nb, s = inp["n_tasks"], inp["n_batches"], inp["start_idx"]
    arr = np.arange(1000, 1000 + s + n + 3) if inp["with_arr"] else None
    args = inp["args"]
    res = batch_tasks(n, nb, arr=arr, args=args, start_idx=s)
    fails = []

    def lo(t):
        return int(t[0][0]) - 1000 if inp["with_arr"] else t[0][0]

    def hi(t):
        return int(t[0][-1]) - 1000 + 1 if inp["with_arr"] else t[0][1]
    ok = lambda c, name, d=None: None if c else fails.append((f"twin:batch_tasks/{name}", d or {"result": repr(res)[:300]}))
    ok(len(res) >= 1, "nonempty")
    if len(res) >= 1 and all(len(t[0]) > 0 for t in res):
        ok(len(res) == (nb if n >= nb else 1), "count")
        ok(lo(res[0]) == s, "first")
        ok(hi(res[-1]) == s + n, "last")
        ok(all(hi(res[k]) == lo(res[k + 1]) for k in range(len(res) - 1)), "chain")
        ok(all(lo(t) < hi(t) for t in res), "each-nonempty")
        ok(all(t[1] == lo(t) for t in res), "own-start")
        ok(all(list(t[2:]) == list(args or []) for t in res), "args-passed")
        if inp["with_arr"]:
            ok(all(np.array_equal(t[0], arr[lo(t):hi(t)]) for t in res), "arr-slice")
        covered = sorted(p for t in res for p in range(lo(t), hi(t)))
        ok(covered == list(range(s, s + n)), "cover")
    else:
        ok(False, "each-nonempty")
    return fails


def from_model(name, model):
    def g(k, d):
        try:
            return int(model.get(k, d))
        except (TypeError, ValueError):
            return d
    n, nb, s = max(1, g("n_tasks", 1)), max(1, g("n_batches", 1)), max(0, g("start_idx", 0))
    out = []
    for with_arr in ((True, False) if "[arr" in name else (False, True)):
        for args in ((("a", 3), None) if "args]" in name else (None, ("a", 3))):
            out.append({"n_tasks": n, "n_batches": nb, "start_idx": s, "with_arr": with_arr, "args": args})
    return out


def related(obligation, clause):
    return "batch_tasks" in obligation and "batch_tasks" in clause or "run_worker" in obligation and "run_worker" in clause
