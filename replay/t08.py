"""C08 twin: validate_prepare_data / design matrix on the real code over all small interleavings."""
import itertools

import numpy as np

RULE = ("2..3 surveys with 1..2 epochs each (3 for two surveys), every assignment of epochs to a 4-point time grid (interleaved, disjoint and "
        "identical epochs), list and dict input (dict keys in both orders); velocities are tagged by (survey, row) so each output row's origin "
        "is recoverable; non-trivial = surveys interleaved in time or sharing an epoch")
EXHAUSTIVE = True
BOUNDED = ["more than 3 surveys"]
GRID = [1.0, 2.0, 3.0, 4.0]


def cases(tier, seed):
    shapes = [(1, 1), (2, 1), (1, 2), (2, 2), (1, 1, 1), (2, 1, 1)]
    if tier != "quick":
        shapes += [(3, 2), (2, 2, 1), (2, 2, 2)]
    for sh in shapes:
        n = sum(sh)
        for times in itertools.product(range(4), repeat=n):
            if tier == "quick" and n >= 4 and (times[0] > 1 or times[-1] < 2):
                continue
            for kind in ("list", "dict", "dict-rev", "list-mixed-units"):
                if kind not in ("list", "list-mixed-units") and len(sh) != 2:
                    continue
                if kind == "list-mixed-units" and (len(sh) < 2 or times != tuple(sorted(times))):
                    continue        # surveys in different velocity units: time-ordered layouts only (keeps the scope small)
                yield f"{sh}/{times}/{kind}", {"shape": list(sh), "times": list(times), "kind": kind}
    yield from plot_cases()
    # call history on ONE sampler: the same observations split into surveys differently on the second call
    yield "history/5+3-then-3+5", {"kind": "history"}
    # many surveys: the k-th offset prior handed to the prior is the prior of the k-th further survey (dv0_10 comes after dv0_9, not after dv0_1)
    yield "many-offsets/11", {"kind": "many", "n": 11}


def plot_cases():
    # plot_rv_curves(apply_mean_v0_offset=True) shifts the epochs of the k-th further source by the mean of dv0_k - also with more than 10 sources
    for K in (2, 3, 11, 13):
        yield f"plot/{K}", {"kind": "plot", "K": K}


def interleaved(inp):
    """the merged rows, survey after survey (each survey time-sorted), are NOT already in time order: the layout on which the
    listed open finding (labels not reordered with the time sort) manifests"""
    sh, tm = inp["shape"], inp["times"]
    pos, blocks = 0, []
    for s in sh:
        blocks.append(sorted(tm[pos:pos + s]))
        pos += s
    if inp["kind"] == "dict-rev":
        blocks.reverse()        # the dict lists the second survey first
    seq = [x for b in blocks for x in b]
    return any(seq[i] > seq[i + 1] for i in range(len(seq) - 1))


def nontrivial(inp):
    if inp["kind"] in ("plot", "history", "many"):
        return True
    sh, tm = inp["shape"], inp["times"]
    pos = 0
    spans = []
    for s in sh:
        spans.append((min(tm[pos:pos + s]), max(tm[pos:pos + s])))
        pos += s
    return any(spans[i][1] >= spans[i + 1][0] for i in range(len(spans) - 1))


def check(inp):
    import astropy.units as u
    from astropy.time import Time
    from thejoker import RVData
    from thejoker.data_helpers import validate_prepare_data
    fails = []
    bad = lambda name, **d: fails.append((f"twin:validate_prepare_data/{name}", d))
    if inp["kind"] == "plot":
        return check_plot(inp)
    if inp["kind"] == "many":
        import pymc as pm
        import thejoker.units as xu
        from thejoker import JokerPrior
        n = inp["n"]
        with pm.Model() as model:
            offs = [xu.with_unit(pm.Normal(f"dv0_{k}", 0.0, 1.0 + k), u.km / u.s) for k in range(1, n + 1)]
            prior = JokerPrior.default(P_min=2 * u.day, P_max=100 * u.day, sigma_K0=25 * u.km / u.s, sigma_v=50 * u.km / u.s, v0_offsets=list(offs), model=model)
        got = [getattr(p, "name", None) for p in prior.v0_offsets]
        if len(prior.v0_offsets) != n or any(a is not b for a, b in zip(prior.v0_offsets, offs)):
            fails.append(("twin:JokerPrior.__init__/offset-priors-kept-in-the-given-order", {"got": got}))
        if list(prior.par_names)[-n:] != [f"dv0_{k}" for k in range(1, n + 1)]:
            fails.append(("twin:JokerPrior.__init__/offset-parameters-named-in-survey-order", {"got": list(prior.par_names)[-n:]}))
        return fails
    if inp["kind"] == "history":
        return check_history(inp)
    sh, tm = inp["shape"], inp["times"]
    srcs, pos = [], 0
    rows = []   # (t, rv, err, survey)
    for k, s in enumerate(sh):
        t = np.array([GRID[i] for i in tm[pos:pos + s]]) + 55000.0
        rv = 100.0 * k + np.arange(s) + 0.25
        err = 0.1 * (k + 1) + 0.01 * np.arange(s)
        pos += s
        # each source is itself a (time-sorted) RVData; remember what it holds
        if inp["kind"] == "list-mixed-units" and k >= 1:
            # the same physical observations, stored in m/s (velocities) and cm/s (uncertainties)
            d = RVData(Time(t, format="mjd", scale="tcb"), (rv * u.km / u.s).to(u.m / u.s), (err * u.km / u.s).to(u.cm / u.s))
        else:
            d = RVData(Time(t, format="mjd", scale="tcb"), rv * u.km / u.s, err * u.km / u.s)
        srcs.append(d)
        for a, b, c in zip(d.t.tcb.mjd, d.rv.to_value(u.km / u.s), d.rv_err.to_value(u.km / u.s)):
            rows.append((float(a), round(float(b), 9), round(float(c), 9), k))
    tag = "[interleaved]" if interleaved(inp) else ""
    if inp["kind"] in ("list", "list-mixed-units"):
        data = srcs
        keyof = {k: k for k in range(len(sh))}
    elif inp["kind"] == "dict":
        data = {"A": srcs[0], "B": srcs[1]}
        keyof = {0: "A", 1: "B"}
    else:
        data = {"B": srcs[1], "A": srcs[0]}
        keyof = {0: "A", 1: "B"}
    all_data, ids, M = validate_prepare_data(data, poly_trend=2, n_offsets=len(sh) - 1)
    got = [(float(a), round(float(b), 9), round(float(c), 9), i)
           for a, b, c, i in zip(all_data.t.tcb.mjd, all_data.rv.to_value(u.km / u.s), all_data.rv_err.to_value(u.km / u.s), ids)]
    if sorted(r[:3] for r in got) != sorted(r[:3] for r in rows):
        bad("merged-observations-are-the-union-of-the-inputs", got=got, want=sorted(rows))
        return fails
    want = sorted((a, b, c, keyof[k]) for a, b, c, k in rows)
    if sorted(got, key=lambda r: (r[0], r[1])) != sorted(want, key=lambda r: (r[0], r[1])):
        bad("each-observation-keeps-its-survey-label" + tag, got=got, want=want)
        return fails
    if any(got[i][0] > got[i + 1][0] for i in range(len(got) - 1)):
        bad("time-ordered", got=got)
    unq = list(np.unique(ids))
    if inp["kind"] == "list" and unq[0] != 0:
        bad("first-source-is-the-reference")
    if M.shape != (len(got), len(sh) + 1):
        bad("design-matrix-shape", shape=M.shape)
        return fails
    for r, row in enumerate(got):
        for j in range(1, len(sh)):
            if M[r, j] != (1.0 if row[3] == unq[j] else 0.0):
                bad("offset-column-marks-exactly-its-survey" + tag, r=r, j=j, M=M.tolist(), ids=[str(x) for x in ids])
                return fails
        if M[r, 0] != 1.0 or abs(M[r, len(sh)] - (row[0] - all_data._t_ref_bmjd)) > 1e-9:
            bad("constant-and-trend-columns", r=r)
    return fails


def check_plot(inp):
    """K time-disjoint surveys (one epoch each) on a flat orbit model; survey k carries the known offset 10*k km/s.  The plotted data points must be
    every input epoch, shifted by the mean offset of ITS OWN survey (so that all of them land on the reference survey's level)."""
    import matplotlib
    matplotlib.use("Agg")
    import matplotlib.pyplot as plt
    import astropy.units as u
    from astropy.time import Time
    from thejoker import JokerSamples, RVData
    from thejoker.plot import plot_rv_curves
    fails = []
    K = inp["K"]
    tref = Time(55000.0, format="mjd", scale="tcb")
    srcs = [RVData(Time([55000.0 + 10.0 * k], format="mjd", scale="tcb"), [5.0 + 10.0 * k] * u.km / u.s, [0.1] * u.km / u.s) for k in range(K)]
    s = JokerSamples(t_ref=tref, poly_trend=1, n_offsets=K - 1)
    n = 2
    s["P"] = [50.0, 50.0] * u.day
    s["e"] = [0.0, 0.0]
    s["omega"] = [0.0, 0.0] * u.rad
    s["M0"] = [0.0, 0.0] * u.rad
    s["s"] = [0.0, 0.0] * u.km / u.s
    s["K"] = [1e-9, 1e-9] * u.km / u.s
    s["v0"] = [5.0, 5.0] * u.km / u.s
    for k in range(1, K):
        s[f"dv0_{k}"] = [10.0 * k - 0.5, 10.0 * k + 0.5] * u.km / u.s
    fig, ax = plt.subplots()
    try:
        plot_rv_curves(s, data=srcs, ax=ax, apply_mean_v0_offset=True)
        pts = []
        for cont in ax.containers:
            line = cont.lines[0] if hasattr(cont, "lines") else None
            if line is not None:
                pts += list(zip(line.get_xdata(), line.get_ydata()))
        if not pts:
            for line in ax.lines:
                if len(line.get_xdata()) == K:
                    pts = list(zip(line.get_xdata(), line.get_ydata()))
        got = sorted((round(float(x), 6), round(float(y), 6)) for x, y in pts)
        want = sorted((55000.0 + 10.0 * k, 5.0) for k in range(K))
        if len(got) != K or any(abs(a[0] - b[0]) > 1e-6 or abs(a[1] - b[1]) > 1e-6 for a, b in zip(got, want)):
            fails.append(("twin:plot_rv_curves/each-epoch-shifted-by-the-mean-offset-of-its-own-survey", {"K": K, "got": got, "want": want}))
    finally:
        plt.close(fig)
    return fails


def check_history(inp):
    import astropy.units as u
    from astropy.time import Time
    import support as S
    from thejoker import RVData, TheJoker
    fails = []
    S.install_kernel()
    prior = S.default_prior(n_offsets=1)
    t = 55000.0 + np.arange(8) * 11.0
    rv = np.array([1.0, -2.0, 0.5, 7.5, 5.0, 8.0, 6.5, 7.0])
    err = np.full(8, 0.4)
    mk = lambda sl: RVData(Time(t[sl], format="mjd", scale="tcb"), rv[sl] * u.km / u.s, err[sl] * u.km / u.s)
    lib = prior.sample(size=6, rng=np.random.default_rng(5))
    jk = TheJoker(prior, rng=np.random.default_rng(1))
    jk.marginal_ln_likelihood([mk(slice(0, 5)), mk(slice(5, 8))], lib, in_memory=True)
    got = jk.marginal_ln_likelihood([mk(slice(0, 3)), mk(slice(3, 8))], lib, in_memory=True)
    want = TheJoker(prior, rng=np.random.default_rng(1)).marginal_ln_likelihood([mk(slice(0, 3)), mk(slice(3, 8))], lib, in_memory=True)
    if not np.allclose(got, want, rtol=1e-10, atol=1e-9):
        fails.append(("twin:TheJoker/survey-labelling-of-this-call-is-used[call-history]", {"got": got, "fresh_sampler": want}))
    return fails
