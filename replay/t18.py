"""C18 twin: constructing priors / samplers with one thing wrong at a time must raise; well-formed ones must be accepted."""
import itertools

import numpy as np

RULE = ("for poly_trend in {1,2} x n_offsets in {0,1}: the well-formed prior is accepted with parameters in the order nonlinear, linear, offsets; "
        "then one defect at a time on each parameter: omitted / without unit / unit of the wrong dimension / linear prior that is not Normal "
        "(Uniform - in km/s, m/s and cm/s -, StudentT, HalfNormal, LogNormal, TruncatedNormal, SkewNormal) / not a random variable; data/prior count mismatches with 1..3 sources; sources of unsupported form; TheJoker "
        "argument checks; non-trivial = a defective input")
EXHAUSTIVE = True
BOUNDED = []
BUDGET_S = {"quick": 120, "thorough": 600}
NONLIN = ["P", "e", "omega", "M0", "s"]


def cases(tier, seed):
    for pt_, no in ((1, 0), (2, 0), (1, 1), (2, 1), (3, 1), (4, 0)):
        lin = ["K"] + [f"v{i}" for i in range(pt_)]
        off = [f"dv0_{i}" for i in range(1, no + 1)]
        yield f"ok/{pt_}/{no}", {"kind": "prior", "pt": pt_, "no": no, "defect": None, "par": None}
        for par in NONLIN + lin + off:
            defects = ["omit", "no-unit", "wrong-dim"] if par not in off else ["no-unit", "wrong-dim"]
            if par[0] == "v":          # a velocity per time**(i +- 1) is not convertible to the canonical unit of v_i either
                defects += ["next-order", "previous-order"]
            if (pt_, no) in ((3, 1), (4, 0)) and par[0] != "v":
                continue
            if par in lin + off:
                defects += ["uniform", "studentt", "deterministic", "halfnormal", "lognormal", "truncatednormal", "skewnormal",
                            # the same non-Normal prior declared in other equivalent units (one of them is the unit the validation itself compares with)
                            "uniform@m/s", "uniform@cm/s"]
            if tier == "quick" and (pt_, no) != (2, 1) and par in ("e", "M0", "s"):
                continue
            for d in defects:
                yield f"{d}/{par}/{pt_}/{no}", {"kind": "prior", "pt": pt_, "no": no, "defect": d, "par": par}
    for nsrc in (1, 2, 3):
        for no in (0, 1, 2, 3):
            yield f"count/{nsrc}/{no}", {"kind": "count", "nsrc": nsrc, "no": no}
    yield "count/emptied-source", {"kind": "emptied"}
    for bad in ("not-rvdata", "covariance"):
        yield f"source/{bad}", {"kind": "source", "bad": bad}
    yield "history/container-mutated-between-calls", {"kind": "history"}
    yield "history/offsets-list-extended-after-construction", {"kind": "alias"}
    for what in ("ok", "pool-no-map", "pool-no-close", "rng-int", "rng-legacy", "prior-str"):
        yield f"joker/{what}", {"kind": "joker", "what": what}


def nontrivial(inp):
    return inp.get("defect") is not None or inp["kind"] != "prior"


def _pars(pt_, no, defect, par):
    import astropy.units as u
    import pymc as pm
    import pytensor.tensor as pt
    import thejoker.units as xu
    from pymc_ext.distributions import angle
    from thejoker.distributions import UniformLog
    spec = {"P": u.day, "e": u.one, "omega": u.rad, "M0": u.rad, "s": u.km / u.s, "K": u.km / u.s}
    for i in range(pt_):
        spec[f"v{i}"] = u.km / u.s / u.day ** i
    for i in range(1, no + 1):
        spec[f"dv0_{i}"] = u.km / u.s
    wrong = {"P": u.km, "e": u.day, "omega": u.day, "M0": u.km, "s": u.day, "K": u.day}
    pars, offs = {}, []
    with pm.Model() as model:
        for name, unit in spec.items():
            d = defect if name == par else None
            if d == "omit":
                continue
            if name == "P":
                v = UniformLog("P", 1.0, 100.0)
            elif name == "e":
                v = pm.Beta("e", 0.867, 3.03)
            elif name in ("omega", "M0"):
                v = angle(name)
            elif name == "s":
                v = pm.Lognormal("s", 0, 0.5)
            elif d == "uniform" or (d or "").startswith("uniform@"):
                v = pm.Uniform(name, -5, 5)
            elif d == "studentt":
                v = pm.StudentT(name, nu=3, mu=0, sigma=2)
            elif d == "halfnormal":          # distributions whose NAME contains "Normal" but which are not Normal
                v = pm.HalfNormal(name, sigma=5.0)
            elif d == "lognormal":
                v = pm.LogNormal(name, mu=0.0, sigma=1.0)
            elif d == "truncatednormal":
                v = pm.TruncatedNormal(name, mu=0.0, sigma=5.0, lower=-1.0, upper=8.0)
            elif d == "skewnormal":
                v = pm.SkewNormal(name, mu=0.0, sigma=5.0, alpha=3.0)
            elif d == "deterministic":
                v = pt.as_tensor_variable(np.float64(1.0)) * 1.0
                v.name = name
            else:
                v = pm.Normal(name, 0.0, 10.0)
            if d in ("next-order", "previous-order"):
                v = xu.with_unit(v, u.km / u.s / u.day ** (int(name[1:]) + (1 if d == "next-order" else -1)))
            elif (d or "").startswith("uniform@"):
                order = int(name[1:]) if (name[0] == "v" and name[1:].isdigit()) else 0
                v = xu.with_unit(v, u.Unit(d.split("@")[1]) / u.day ** order)
            elif d != "no-unit":
                v = xu.with_unit(v, wrong.get(name, u.day) if d == "wrong-dim" else unit)
            if name.startswith("dv0_"):
                offs.append(v)
            else:
                pars[name] = v
    return pars, offs, model


def check(inp):
    import astropy.units as u
    from thejoker import JokerPrior, TheJoker
    import support as S
    fails = []
    bad = lambda fn, name, **d: fails.append((f"twin:{fn}/{name}", d))
    if inp["kind"] == "prior":
        pars, offs, model = _pars(inp["pt"], inp["no"], inp["defect"], inp["par"])
        try:
            prior = JokerPrior(pars=pars, poly_trend=inp["pt"], v0_offsets=offs or None, model=model)
            accepted = True
        except (ValueError, TypeError, AttributeError, KeyError) as e:
            accepted = False
        if inp["defect"] is None:
            if not accepted:
                bad("JokerPrior.__init__", "well-formed-prior-accepted")
            else:
                want = NONLIN + ["K"] + [f"v{i}" for i in range(inp["pt"])] + [f"dv0_{i}" for i in range(1, inp["no"] + 1)]
                if prior.par_names != want:
                    bad("JokerPrior.__init__", "parameter-order-nonlinear-linear-offsets", got=prior.par_names)
        elif accepted:
            bad("JokerPrior.__init__", f"defective-prior-must-raise[{inp['defect']}]", par=inp["par"])
        return fails
    if inp["kind"] == "alias":
        # what was validated is what the prior keeps: extending the caller's own list of offset priors later must not add an (unvalidated) offset
        import pymc as pm
        import thejoker.units as xu
        with pm.Model() as model:
            dv1 = xu.with_unit(pm.Normal("dv0_1", 0.0, 5.0), u.km / u.s)
            offsets = [dv1]
            prior = JokerPrior.default(P_min=2 * u.day, P_max=100 * u.day, sigma_K0=25 * u.km / u.s, sigma_v=50 * u.km / u.s, v0_offsets=offsets, model=model)
            before = (prior.n_offsets, list(prior.par_names))
            offsets.append(xu.with_unit(pm.Uniform("dv0_2", -5, 5), u.km / u.s))
        if (prior.n_offsets, list(prior.par_names)) != before or len(prior.v0_offsets) != 1:
            bad("JokerPrior.__init__", "accepted-prior-unchanged-when-the-callers-list-is-extended[call-history]", n_offsets=prior.n_offsets, before=before[0])
        return fails
    if inp["kind"] == "history":
        # one sampler, one list object: accepted with two sources and one offset prior; after a third source is appended to the SAME list the
        # next call must refuse it (validation is per call, not per container)
        from astropy.time import Time
        from thejoker import RVData
        S.install_kernel()
        prior = S.default_prior(n_offsets=1)
        mk = lambda k: RVData(Time(55000.0 + 40.0 * k + np.arange(3) * 7.0, format="mjd", scale="tcb"), (np.arange(3) + 5.0 * k) * u.km / u.s,
                              np.full(3, 0.5) * u.km / u.s)
        surveys = [mk(0), mk(1)]
        lib = prior.sample(size=4, rng=np.random.default_rng(2))
        jk = TheJoker(prior, rng=np.random.default_rng(1))
        jk.marginal_ln_likelihood(surveys, lib, in_memory=True)
        surveys.append(mk(2))
        try:
            jk.marginal_ln_likelihood(surveys, lib, in_memory=True)
            bad("TheJoker", "source-count-checked-on-every-call[call-history]", note="3 sources accepted with one offset prior after the list was extended in place")
        except ValueError:
            pass
        return fails
    if inp["kind"] == "count":
        from thejoker.data_helpers import validate_prepare_data
        srcs = [S.make_data(3, 4 + k) for k in range(inp["nsrc"])]
        data = srcs[0] if inp["nsrc"] == 1 else srcs
        try:
            validate_prepare_data(data, 1, inp["no"])
            ok = True
        except ValueError:
            ok = False
        if ok != (inp["no"] == inp["nsrc"] - 1):
            bad("validate_prepare_data", "source-count-must-match-offset-priors", nsrc=inp["nsrc"], n_offsets=inp["no"], accepted=ok)
        if inp["nsrc"] >= 2:
            try:
                validate_prepare_data([srcs[0]], 1, inp["no"])
                ok1 = True
            except ValueError:
                ok1 = False
            if ok1 != (inp["no"] == 0):
                bad("validate_prepare_data", "source-count-must-match-offset-priors[list-of-one]", n_offsets=inp["no"])
        return fails
    if inp["kind"] == "emptied":
        # three listed sources, the middle one without a single finite row (cleaned to an empty RVData): two surveys contribute epochs, so the design
        # matrix has ONE offset column - accepted with one offset prior at most, never with two
        from astropy.time import Time
        from thejoker import RVData
        from thejoker.data_helpers import validate_prepare_data
        tref = Time(55000.0, format="mjd", scale="tcb")
        mk = lambda k, nan: RVData(Time(55000.0 + 40.0 * k + np.arange(4) * 7.0, format="mjd", scale="tcb"),
                                   (np.full(4, np.nan) if nan else np.arange(4) + 5.0 * k) * u.km / u.s, np.full(4, 0.5) * u.km / u.s, t_ref=tref)
        srcs = [mk(0, False), mk(1, True), mk(2, False)]
        for no in (1, 2):
            try:
                out = validate_prepare_data(srcs, 1, no)
                if out[2].shape[1] != 1 + no:
                    bad("validate_prepare_data", "one-design-matrix-column-per-linear-parameter[emptied-source]", n_offsets=no, columns=int(out[2].shape[1]))
            except ValueError:
                pass
        return fails
    if inp["kind"] == "source":
        from thejoker.data_helpers import validate_prepare_data
        from thejoker import RVData
        d0 = S.make_data(3, 1)
        if inp["bad"] == "not-rvdata":
            other = {"t": 1}
        else:
            import astropy.units as u
            from astropy.time import Time
            other = RVData(Time(55000 + np.arange(3.0), format="mjd", scale="tcb"), np.arange(3.0) * u.km / u.s, np.eye(3) * (u.km / u.s) ** 2)
        try:
            validate_prepare_data([d0, other], 1, 1)
            bad("validate_prepare_data", f"unsupported-source-must-raise[{inp['bad']}]")
        except (TypeError, NotImplementedError):
            pass
        return fails
    prior = S.default_prior()

    class P1:
        def close(self):
            pass

    class P2:
        def map(self, f, x):
            return [f(i) for i in x]
    args = {"ok": dict(rng=np.random.default_rng(1)), "pool-no-map": dict(pool=P1()), "pool-no-close": dict(pool=P2()),
            "rng-int": dict(rng=42), "rng-legacy": dict(rng=np.random.RandomState(1)), "prior-str": None}[inp["what"]]
    try:
        TheJoker("not a prior" if args is None else prior, **(args or {}))
        ok = True
    except TypeError:
        ok = False
    if ok != (inp["what"] == "ok"):
        bad("TheJoker.__init__", f"argument-check[{inp['what']}]", accepted=ok)
    return fails
