"""C15 twin: RVData against its definition (exhaustive small scope on the real class)."""
import itertools
import math

import numpy as np

RULE = ("all time arrays of length 1..4 over {1, 2, 2, 3, NaN} (ties included), velocities/uncertainties tagged by row id with NaN/inf "
        "placed at every single position, clean in {True, False}, t_ref in {None, given}, 1-D errors and full covariances, "
        "then copy() and slicing of the built object; non-trivial = at least two epochs out of time order or a non-finite entry")
EXHAUSTIVE = True
BOUNDED = ["astropy Time scale/format conversions (only TCB MJD inputs are enumerated)"]
TV = [1.0, 2.0, 2.0, 3.0, math.nan]


def cases(tier, seed):
    nmax = 3 if tier == "quick" else 4
    for n in range(1, nmax + 1):
        for ts in itertools.product(range(len(TV)), repeat=n):
            for bad_pos in [None] + list(range(n)):
                for bad_kind in ((None,) if bad_pos is None else ("rv_nan", "err_inf")):
                    for clean in (True, False):
                        if not clean and (bad_pos is not None or 4 in ts):
                            continue
                        for cov in (False, True):
                            for tref in (None, 0.5):
                                if tier == "quick" and n == 3 and (cov and tref is not None):
                                    continue
                                yield f"{ts}/{bad_pos}/{bad_kind}/{clean}/{cov}/{tref}", {
                                    "ts": [int(x) for x in ts], "bad_pos": bad_pos, "bad_kind": bad_kind, "clean": clean, "cov": cov, "tref": tref}


def nontrivial(inp):
    t = [TV[i] for i in inp["ts"]]
    return inp["bad_pos"] is not None or any(math.isnan(x) for x in t) or any(a > b for a, b in zip(t, t[1:]))


def check(inp):
    import astropy.units as u
    from astropy.time import Time
    from thejoker import RVData
    fails = []
    bad = lambda fn, name, **d: fails.append((f"twin:RVData.{fn}/{name}", d))
    n = len(inp["ts"])
    t = np.array([TV[i] for i in inp["ts"]]) + 55000.0
    rv = 10.0 + np.arange(n)
    err = 0.1 * (1 + np.arange(n))
    if inp["bad_kind"] == "rv_nan":
        rv[inp["bad_pos"]] = np.nan
    if inp["bad_kind"] == "err_inf":
        err[inp["bad_pos"]] = np.inf
    if inp["cov"]:
        C = np.diag(err ** 2) + 0.001 * (np.arange(n)[:, None] * 7 + np.arange(n)[None, :] * 3 + 1)
        C = 0.5 * (C + C.T)
        if inp["bad_kind"] == "err_inf":
            C[inp["bad_pos"], :] = np.inf
            C[:, inp["bad_pos"]] = np.inf
        errq = C * (u.km / u.s) ** 2
    else:
        errq = err * u.km / u.s
    tref = None if inp["tref"] is None else Time(55000.0 + inp["tref"], format="mjd", scale="tcb")
    fin = np.isfinite(t) & np.isfinite(rv) & (np.isfinite(C).all(axis=0) if inp["cov"] else np.isfinite(err))
    keep = [i for i in range(n) if fin[i]] if inp["clean"] else list(range(n))
    try:
        # astropy refuses non-finite values in a Time: NaN epochs can only arrive as a raw BMJD array
        tin = t if (not np.isfinite(t).all() or len(t) % 2 == 0) else Time(t, format="mjd", scale="tcb")
        d = RVData(tin, rv * u.km / u.s, errq, t_ref=tref, clean=inp["clean"])
    except Exception as e:
        if len(keep) == 0 or not inp["clean"] and not fin.all():
            return fails      # nothing left (Time.min of empty) - construction may raise
        bad("__init__", "unexpected-exception", exc=repr(e))
        return fails
    m = len(d)
    if m != len(keep):
        bad("__init__", "exactly-the-finite-observations", got=m, want=len(keep))
        return fails
    tt = d.t.tcb.mjd
    if any(tt[i] > tt[i + 1] for i in range(m - 1)):
        bad("__init__", "time-ordered", t=tt)
    # recover the permutation from the row-id tags in rv (unique), then check every parallel array against it
    rvv = d.rv.to_value(u.km / u.s)
    pi = [int(round(x - 10.0)) if np.isfinite(x) else None for x in rvv]
    if None in pi or sorted(pi) != sorted(keep):
        bad("__init__", "exactly-the-finite-observations", rows=pi, want=keep)
        return fails
    if not np.array_equal(tt, t[pi]):
        bad("__init__", "time-paired", got=tt, want=t[pi])
    if d.rv.unit != u.km / u.s:
        bad("__init__", "units-kept")
    if inp["cov"]:
        if not np.array_equal(d.rv_err.value, C[np.ix_(pi, pi)]):
            bad("__init__", "covariance-rows-and-columns-paired")
        if m and np.isfinite(C[np.ix_(pi, pi)]).all() and np.linalg.cond(C[np.ix_(pi, pi)]) < 1e8:
            if not np.allclose(d.ivar.value @ C[np.ix_(pi, pi)], np.eye(m), atol=1e-6):
                bad("ivar", "inverse-covariance")
            # the same covariance at the m/s level expressed in (km/s)**2 (entries ~1e-10): still the inverse of the matrix, whatever its scale
            try:
                ds = RVData(tin, rv * u.km / u.s, errq * 1e-10, t_ref=tref, clean=inp["clean"])
                if not np.allclose(ds.ivar.value @ (1e-10 * C[np.ix_(pi, pi)]), np.eye(m), atol=1e-6):
                    bad("ivar", "inverse-covariance[small-scale]")
            except Exception as e:  # noqa: BLE001
                bad("ivar", "inverse-covariance[small-scale]", exc=repr(e)[:200])
    else:
        if not np.array_equal(d.rv_err.to_value(u.km / u.s), err[pi]):
            bad("__init__", "uncertainty-paired-with-its-time", got=d.rv_err.value, want=err[pi])
        if not np.allclose(d.ivar.value, 1 / err[pi] ** 2, rtol=1e-12):
            bad("ivar", "reciprocal-variance")
        if not np.allclose(d.cov.value, np.diag(err[pi] ** 2), rtol=1e-12):
            bad("cov", "diagonal-of-variances")
    if m == 0:
        return fails        # an empty data set has no earliest time; nothing further is claimed
    want_ref = (55000.0 + inp["tref"]) if inp["tref"] is not None else float(np.min(tt))
    if abs(d._t_ref_bmjd - want_ref) > 1e-9:
        bad("__init__", "t_ref-default-or-given", got=d._t_ref_bmjd, want=want_ref)
    # copy / slicing
    try:
        c = d.copy()
    except Exception as e:
        bad("copy", "unexpected-exception", exc=repr(e))
        return fails
    if abs(c._t_ref_bmjd - d._t_ref_bmjd) > 1e-9:
        bad("copy", "same-reference-epoch", got=c._t_ref_bmjd, want=d._t_ref_bmjd)
    if not (np.array_equal(c.t.tcb.mjd, tt) and np.array_equal(c.rv.value, d.rv.value) and np.array_equal(c.rv_err.value, d.rv_err.value)
            and c.rv.unit == d.rv.unit):
        bad("copy", "same-observations")
    if m >= 2:
        s = d[1:]
        if not (np.array_equal(s.t.tcb.mjd, tt[1:]) and np.array_equal(s.rv.value, d.rv.value[1:])
                and np.array_equal(s.rv_err.value, d.rv_err.value[1:, 1:] if inp["cov"] else d.rv_err.value[1:])):
            bad("__getitem__", "corresponding-observations")
        # index arrays and boolean masks select the corresponding rows (and, for a covariance, rows AND columns)
        sel_i = np.array([0, m - 1])
        sel_m = np.zeros(m, dtype=bool)
        sel_m[[0, m - 1]] = True
        for nm, sel in (("index-array", sel_i), ("mask", sel_m)):
            try:
                g = d[sel]
            except Exception as e:
                bad("__getitem__", f"unexpected-exception[{nm}]", exc=repr(e))
                continue
            rows = [0, m - 1]
            want_err = d.rv_err.value[np.ix_(rows, rows)] if inp["cov"] else d.rv_err.value[rows]
            if not (len(g) == 2 and np.array_equal(g.t.tcb.mjd, tt[rows]) and np.array_equal(g.rv.value, d.rv.value[rows])
                    and g.rv_err.value.shape == want_err.shape and np.array_equal(g.rv_err.value, want_err) and g.rv_err.unit == d.rv_err.unit):
                bad("__getitem__", f"corresponding-observations[{nm}]", shape=g.rv_err.value.shape)
    return fails
