"""C11 twin: the pymc model assembled by setup_mcmc against the sampler's model, natively."""
import numpy as np

import support as S
import t01

RULE = ("priors poly_trend in {1,2} x n_offsets in {0,1} (incl. both at once) x explicit reference epoch x jitter {0, sampled} x units {day,km/s | yr,m/s}: the compiled model_rv at 3 parameter points "
        "equals M(theta) x (independent design matrix, twobody Kepler solver); the ln_likelihood deterministic equals sum ln N(y | model, sigma^2 + s^2); "
        "mcmc_init is the chosen sample (the median-period sample of several) in the prior's units; non-trivial = every case")
EXHAUSTIVE = False
BOUNDED = ["model.logp() as a function of the physical parameters (pymc transforms / Jacobians) is not examined",
           "KeplerianOrbit.__init__ under the argument pattern (period, ecc, omega, t_periastron) is exercised here, not proved"]
BUDGET_S = {"quick": 200, "thorough": 900}
KERNEL_IN_SYNC = None


def setup():
    global KERNEL_IN_SYNC
    KERNEL_IN_SYNC = S.install_kernel()


def cases(tier, seed):
    for pt_, no in ((1, 0), (2, 0), (1, 1)):
        for s in (None, True):
            for Pu, vu in (("day", "km/s"), ("yr", "m/s")):
                if tier == "quick" and (pt_, no) == (1, 1) and s is None:
                    continue
                yield f"{pt_}/{no}/{s}/{Pu}/{vu}", {"pt": pt_, "no": no, "customK": False, "s": s, "Pu": Pu, "vu": vu, "seed": int(seed) + 5,
                                                   "layout": "single" if no == 0 else "disjoint"}


    # both kinds of extra linear column at once (their order matters), and a reference epoch that is not the first observation
    yield "2/1/None/day/km/s", {"pt": 2, "no": 1, "customK": False, "s": None, "Pu": "day", "vu": "km/s", "seed": int(seed) + 5, "layout": "disjoint"}
    yield from _fcm_cases()
    # a constant, non-zero jitter (not a sampled one): it still inflates the uncertainties of the MCMC model
    yield "2/0/fixed-s/day/km/s", {"pt": 2, "no": 0, "customK": False, "s": "fixed", "Pu": "day", "vu": "km/s", "seed": int(seed) + 5, "layout": "single"}
    yield "2/0/None/day/km/s/tref", {"pt": 2, "no": 0, "customK": False, "s": None, "Pu": "day", "vu": "km/s", "seed": int(seed) + 5,
                                     "layout": "single-tref+30"}


def _fcm_cases():
    # the K prior the MCMC model inherits from the sampler: its scale rule incl. the cap, with sigma_K0 declared in another velocity unit
    for P0u in ("yr",):
        for sKu in ("km/s", "m/s"):
            yield f"K-prior/{P0u}/{sKu}", {"kind": "fcm", "P0u": P0u, "sKu": sKu, "pt": 0, "no": 0, "layout": "fcm"}


def priority(inp):
    return 0 if (inp["pt"] == 2 and inp["no"] == 1) or inp["layout"] != "single" and inp["no"] == 0 or inp.get("s") == "fixed" else 1


def nontrivial(inp):
    return True


def check(inp):
    import astropy.units as u
    import pymc as pm
    import pytensor
    from scipy.stats import norm
    import thejoker.units as xu
    from thejoker import TheJoker
    if inp.get("kind") == "fcm":
        import t09
        return t09.check(inp)
    fails = []
    bad = lambda name, **d: fails.append((f"twin:setup_mcmc/{name}", d))
    # a fresh prior per case (setup_mcmc adds variables to the prior's model)
    S._cache.clear()
    prior, data = t01.build(inp)
    joker = TheJoker(prior, rng=np.random.default_rng(inp["seed"]))
    lib = prior.sample(size=5, rng=np.random.default_rng(inp["seed"]), generate_linear=True)
    lib0 = lib.copy()            # what the caller handed over, kept aside
    with prior.model:
        init = joker.setup_mcmc(data, lib)
    mp = lib0.median_period()
    for nm in lib0.par_names:
        if not np.array_equal(np.asarray(lib[nm].value), np.asarray(lib0[nm].value)):
            bad("the-given-samples-are-left-unchanged", column=nm)
            return fails
    for nm in prior.par_names:
        unit = getattr(prior.pars[nm], xu.UNIT_ATTR_NAME)
        if not np.allclose(np.squeeze(init[nm]), np.squeeze(mp[nm].to_value(unit)), rtol=1e-12):
            bad("initial-point-is-the-median-period-sample-in-prior-units", par=nm)
            return fails
    model = prior.model
    vu = u.Unit(inp["vu"])
    names = [n for n in prior.par_names]
    inputs = [prior.pars[n] for n in names if prior.pars[n].owner is not None and hasattr(prior.pars[n].owner.op, "rng_fn") or True]
    free = [prior.pars[n] for n in names if n != "s" or inp["s"] is True]
    fn = pytensor.function(free, [model.named_vars["model_rv"], model.named_vars["ln_likelihood"]], on_unused_input="ignore")
    srcs = [data] if inp["no"] == 0 else list(data)
    for r in range(3):
        vals = []
        for v in free:
            unit = getattr(v, xu.UNIT_ATTR_NAME)
            vals.append(np.float64(lib[v.name][r].to_value(unit)))
        rv, lnl = fn(*vals)
        s_col = lib["s"][r].to_value(vu) if (inp["s"] and "s" in lib.par_names) else 0.0
        if inp["s"] == "fixed":
            s_col = (2.5 * u.km / u.s).to_value(vu)      # the constant that was DECLARED (support.default_prior), not what the model reports
        row = np.array([[lib["P"][r].to_value(u.day), float(np.asarray(lib["e"])[r]), lib["omega"][r].to_value(u.rad), lib["M0"][r].to_value(u.rad), s_col]])
        _, parts = t01.closed_form(prior, data, row, inp, parts=True)
        M, mu, Lam, C, y = parts[0]
        lin = ["K", "v0"] + [f"dv0_{k}" for k in range(1, inp["no"] + 1)] + [f"v{j}" for j in range(1, inp["pt"])]
        x = np.array([lib[nm][r].to_value(vu / u.day ** int(nm[1:]) if (nm.startswith("v") and nm != "v0") else vu) for nm in lin])
        want = M @ x
        if not np.allclose(rv, want, rtol=1e-6, atol=1e-6 * max(1.0, np.abs(want).max())):
            bad("model_rv-equals-the-sampler-model", row=r, maxdiff=float(np.max(np.abs(rv - want))), cfg=inp)
            return fails
        want_l = norm.logpdf(y, want, np.sqrt(np.diag(C))).sum()
        if abs(float(lnl) - want_l) > 1e-5 * max(1.0, abs(want_l)):
            bad("ln_likelihood-is-the-gaussian-data-term-with-jitter", got=float(lnl), want=float(want_l), cfg=inp)
            return fails
    return fails
