"""C19 twin: the diagnostics against their definitions on the real functions."""
import itertools
import math

import numpy as np

RULE = ("observation phases on a 1/12 grid, 1..4 observations (all multisets, all orders for <=3), periods {1 d, 2.5 d, 0.01 yr}, "
        "n_bins in {1,3,10}; permutation and time-reversal invariance checked on the same cases; MAP_sample on small tables with ties; "
        "non-trivial = at least two distinct phases")
EXHAUSTIVE = True
BOUNDED = []
GRID = [k / 12 for k in range(12)]


def cases(tier, seed):
    nmax = 3 if tier == "quick" else 4
    for n in range(1, nmax + 1):
        for ph in itertools.product(range(12), repeat=n):
            if tier == "quick" and n == 3 and (ph[0] % 2 or ph[1] % 3):
                continue
            for P in (("1.0", "day"), ("2.5", "day"), ("0.01", "yr")):
                yield f"{ph}/{P}", {"kind": "diag", "ph": list(ph), "P": P}
    for vals in itertools.product((0.0, 1.0, -1.0), repeat=3):
        yield f"map/{vals}", {"kind": "map", "lnp": list(vals), "lnl": [0.5, 0.0, 0.5]}


def nontrivial(inp):
    return inp["kind"] == "map" or len(set(inp["ph"])) >= 2


def _defs(phases, nb):
    p = sorted(phases)
    n = len(p)
    gaps = [p[i + 1] - p[i] for i in range(n - 1)] + [p[0] + 1 - p[-1]]
    occ = set(min(int(math.floor(x * nb + 1e-9)), nb - 1) for x in p)
    return max(gaps), len(occ) / nb


def check(inp):
    import astropy.units as u
    from astropy.time import Time
    from thejoker import JokerSamples, RVData
    from thejoker.samples_analysis import MAP_sample, max_phase_gap, periods_spanned, phase_coverage
    fails = []
    bad = lambda fn, name, **d: fails.append((f"twin:{fn}/{name}", d))
    if inp["kind"] == "map":
        s = JokerSamples()
        s["P"] = [1.0, 2.0, 3.0] * u.day
        s["ln_prior"] = np.array(inp["lnp"])
        s["ln_likelihood"] = np.array(inp["lnl"])
        row, idx = MAP_sample(s, return_index=True)
        post = [a + b for a, b in zip(inp["lnp"], inp["lnl"])]
        if post[idx] != max(post):
            bad("MAP_sample", "maximises", idx=int(idx), post=post)
        if float(row["P"].value[0] if np.ndim(row["P"].value) else row["P"].value) != [1.0, 2.0, 3.0][idx]:
            bad("MAP_sample", "is-a-row-of-the-input")
        # asking again gives the same answer, and asking does not change the table
        row2, idx2 = MAP_sample(s, return_index=True)
        row3, idx3 = MAP_sample(s, return_index=True)
        if idx2 != idx or idx3 != idx:
            bad("MAP_sample", "same-answer-when-asked-again[call-history]", first=int(idx), again=[int(idx2), int(idx3)])
        if not np.array_equal(np.asarray(s["ln_prior"]), np.array(inp["lnp"])) or not np.array_equal(np.asarray(s["ln_likelihood"]), np.array(inp["lnl"])):
            bad("MAP_sample", "leaves-the-samples-unchanged[call-history]", ln_prior=np.asarray(s["ln_prior"]))
        return fails
    P = float(inp["P"][0]) * u.Unit(inp["P"][1])
    Pd = P.to_value(u.day)
    t0 = 55000.0
    # observation k sits at phase ph/12 in cycle k (so times are distinct and unsorted phases occur)
    ts = [t0 + (k + ph / 12.0) * Pd for k, ph in enumerate(inp["ph"])]
    ts[0] = t0 + (inp["ph"][0] / 12.0) * Pd
    tref = Time(t0, format="mjd", scale="tcb")
    def mk(times):
        n = len(times)
        return RVData(Time(np.array(times), format="mjd", scale="tcb"), rv=np.arange(n) * u.km / u.s, rv_err=np.ones(n) * u.km / u.s, t_ref=tref)
    data = mk(ts)
    s = JokerSamples()
    # the period column is assigned twice on the same object (a user correcting a value): the diagnostics read the value assigned LAST
    s["P"] = [3.0 * P.value] * P.unit
    s["P"] = [P.value] * P.unit
    if abs(float(s["P"][0].to_value(u.day)) - Pd) > 1e-12 * Pd:
        bad("JokerSamples.__setitem__", "the-column-now-is-the-assigned-quantity[call-history]", got=float(s["P"][0].to_value(u.day)), want=Pd)
        return fails
    phases = [(x / 12.0) % 1.0 for x in inp["ph"]]
    ph_code = np.asarray(data.phase(s["P"][0]))
    # the twin's own rounding guard: skip cases where floating point moved a phase across a grid line
    if not np.allclose(sorted(ph_code % 1.0), sorted(phases), atol=1e-6) and not np.allclose(sorted((ph_code + 1e-7) % 1.0), sorted(phases), atol=1e-6):
        bad("RVData.phase", "fractional-periods-since-t_ref", got=ph_code, want=phases)
        return fails
    g_def, _ = _defs(list(ph_code), 10)
    g = float(np.squeeze(max_phase_gap(s[0], data)))
    if abs(g - g_def) > 1e-9:
        bad("max_phase_gap", "largest-empty-arc-incl-wrap", got=g, want=g_def)
    for nb in (1, 3, 10):
        edge = any(abs(x * nb - round(x * nb)) < 1e-6 for x in ph_code)
        if edge:
            continue
        _, c_def = _defs(list(ph_code), nb)
        c = float(np.squeeze(phase_coverage(s[0], data, n_bins=nb)))
        if abs(c - c_def) > 1e-12:
            bad("phase_coverage", "fraction-of-occupied-bins", n_bins=nb, got=c, want=c_def)
    ps = float(np.squeeze(periods_spanned(s[0], data)))
    if abs(ps - (max(ts) - min(ts)) / Pd) > 1e-6:
        bad("periods_spanned", "baseline-over-period", got=ps, want=(max(ts) - min(ts)) / Pd)
    # a reference epoch INSIDE the series (observations on both sides of it): phases are the fractional part in [0, 1), and the diagnostics
    # are those of these phases
    if len(ts) > 1:
        tmid = sorted(ts)[len(ts) // 2] + 0.01 * Pd
        dm = RVData(Time(np.array(ts), format="mjd", scale="tcb"), rv=np.arange(len(ts)) * u.km / u.s, rv_err=np.ones(len(ts)) * u.km / u.s,
                    t_ref=Time(tmid, format="mjd", scale="tcb"))
        want_ph = np.array([((x - tmid) / Pd) % 1.0 for x in sorted(ts)])
        got_ph = np.asarray(dm.phase(s["P"][0]), dtype=float)
        if not np.allclose(got_ph, want_ph, atol=1e-9) or got_ph.min() < 0 or got_ph.max() >= 1:
            bad("RVData.phase", "fractional-periods-since-t_ref[epoch-inside-the-series]", got=got_ph, want=want_ph)
        else:
            gm_def, _ = _defs(list(want_ph), 10)
            gm = float(np.squeeze(max_phase_gap(s[0], dm)))
            if abs(gm - gm_def) > 1e-9:
                bad("max_phase_gap", "largest-empty-arc-incl-wrap[epoch-inside-the-series]", got=gm, want=gm_def)
    # order independence and time reversal
    if len(ts) > 1:
        g2 = float(np.squeeze(max_phase_gap(s[0], mk(list(reversed(ts))))))
        if abs(g2 - g) > 1e-9:
            bad("max_phase_gap", "order-independent", a=g, b=g2)
        rev = [2 * t0 - x for x in ts]
        g3 = float(np.squeeze(max_phase_gap(s[0], mk(rev))))
        if abs(g3 - g) > 1e-6:
            bad("max_phase_gap", "time-reversal-invariant", a=g, b=g3)
    return fails


def from_model(name, model):
    return []
