"""C14 twin: iterative rejection sampling on the REAL iterative_rejection_inmem / iterative_rejection_helper
(function level: stub helper with scripted likelihoods, recording generator) and TheJoker.iterative_rejection_sample."""
import itertools
import math
import os

import numpy as np

import support as S
import t02

RULE = ("libraries of N<=8 rows with scripted likelihoods from {0,-1,-3,-inf}, n_requested in {1,2,3}, init_batch_size in {None,1,2,N}, "
        "growth_factor in {1,2}, max_prior_samples in {None,N-1,N}, randomize_prior_order, in-memory/file; the acceptance draws are "
        "real (recorded) so the oracle recomputes the accepted set from the recorded last uniform draw; non-trivial = more than one iteration "
        "or a truncated result")
EXHAUSTIVE = False
BOUNDED = []
BUDGET_S = {"quick": 45, "thorough": 900}
PROFILES = [(0.0, -1.0, -3.0, 0.0, -1.0, -3.0, 0.0, -1.0), (-3.0, -3.0, -3.0, -3.0, 0.0, -3.0, -3.0, -3.0),
            (0.0,) * 8, (-math.inf, -1.0, -math.inf, 0.0, -1.0, -1.0, -math.inf, -3.0)]



KERNEL_IN_SYNC = None


def setup():
    # the API-level cases run the CURRENT kernel source (interpreted) when the compiled extension is stale
    global KERNEL_IN_SYNC
    import support as _S
    KERNEL_IN_SYNC = _S.install_kernel()


def cases(tier, seed):
    Ns = (4, 8) if tier == "quick" else (3, 4, 6, 8)
    for N in Ns:
        for prof in PROFILES:
            for nreq in (1, 2, 3):
                for init in (None, 1, 2, N):
                    for gf in (1, 2):
                        for path in ("inmem", "file"):
                            for mp in ((None,) if path == "inmem" else (None, N - 1)):
                                for rand in ((False,) if path == "inmem" else (False, True)):
                                    for sd in (seed, seed + 1):
                                        yield (f"{path}/N{N}/{prof[:N]}/req{nreq}/init{init}/gf{gf}/mp{mp}/r{rand}/s{sd}",
                                               {"level": "fn", "N": N, "lls": list(prof[:N]), "nreq": nreq, "init": init, "gf": gf,
                                                "path": path, "mp": mp, "rand": rand, "seed": int(sd), "nlin": 1})
    for in_memory in (True, False):
        for mp in (None, 7):
            yield f"api/{in_memory}/{mp}", {"level": "api", "in_memory": in_memory, "mp": mp, "seed": int(seed) + 3}


def nontrivial(inp):
    return True


def key(inp):
    return repr(sorted(inp.items()))


def check_all(inp):
    return _check_api(inp) if inp["level"] == "api" else _check_fn(inp)


def check(inp):
    return [(c, d) for c, d in check_all(inp) if not any(x in c for x in t02.C06_CLAUSES)]


def _oracle(fn, lls_by_row, ev_order, rng, samples, nreq, budget, bad, lib_ids, ln_prior):
    """common postcondition: recompute the accepted set from the recorded draws"""
    uni = [e for e in rng.events if e[0] == "uniform"]
    if not uni:
        bad("acceptance-draw", events=[(e[0], e[1]) for e in rng.events])
        return
    E = int(uni[-1][1])
    if E > budget:
        bad("budget", evaluated=E, budget=budget)
        return
    sizes = [int(u[1]) for u in uni]
    if any(b <= a for a, b in zip(sizes, sizes[1:])):
        bad("each-row-once", draw_sizes=sizes)
    uu = [float(x) for x in uni[-1][2]]
    lls = [lls_by_row[ev_order[k]] for k in range(E)]
    m = max(lls)
    good = [k for k in range(E) if math.exp(lls[k] - m) > uu[k]][:nreq]
    want = [ev_order[k] for k in good]
    got = [int(round(x)) for x in samples["P"].value] if len(samples) else []
    if got != want:
        bad("accepted-set", got=got, want=want, evaluated=E)
        return
    if len(got) > nreq:
        bad("at-most-requested", got=len(got))
    if ln_prior is not None and len(samples):
        lp = np.asarray(samples["ln_prior"])
        if lp.dtype.kind != "f" or not np.array_equal(lp, ln_prior[want]):
            bad("ln_prior-own-row", dtype=str(lp.dtype))
        if not np.array_equal(np.asarray(samples["ln_likelihood"]), np.array(lls)[good]):
            bad("ln_likelihood-own-row")


def _check_fn(inp):
    from thejoker import JokerSamples
    from thejoker.likelihood_helpers import iterative_rejection_inmem
    fails = []
    fn = "iterative_rejection_inmem" if inp["path"] == "inmem" else "iterative_rejection_helper"
    bad = lambda name, **d: fails.append((f"twin:{fn}/{name}", d))
    N = inp["N"]
    lib = S.library(N)
    helper = S.StubHelper({i: inp["lls"][i] for i in range(N)})
    rng = S.RecordingGenerator(inp["seed"])
    ln_prior = 1000.0 + np.arange(N)
    first = inp["gf"] * inp["nreq"] if inp["init"] is None else inp["init"]
    budget = N if inp["mp"] is None else inp["mp"]
    try:
        if inp["path"] == "inmem":
            res = iterative_rejection_inmem(helper, lib.copy(), rng, n_requested_samples=inp["nreq"], ln_prior=ln_prior,
                                            init_batch_size=inp["init"], growth_factor=inp["gf"], n_linear_samples=inp["nlin"])
        else:
            import schwimmbad
            from thejoker.multiproc_helpers import iterative_rejection_helper
            path = t02._write_lib(lib, ln_prior)
            try:
                res = iterative_rejection_helper(helper, path, pool=schwimmbad.SerialPool(), rng=rng, n_requested_samples=inp["nreq"],
                                                 init_batch_size=inp["init"], growth_factor=inp["gf"], max_prior_samples=inp["mp"],
                                                 n_linear_samples=inp["nlin"], return_logprobs=True, n_batches=2,
                                                 randomize_prior_order=inp["rand"])
            finally:
                if os.path.exists(path):
                    os.unlink(path)
    except (ValueError, RuntimeError) as e:
        if first > budget and isinstance(e, ValueError):
            return fails          # library too small: must raise
        if isinstance(e, RuntimeError) and ("good samples" in str(e) or "NaN or Inf" in str(e)):
            return fails          # documented failure exits (all raised)
        bad("unexpected-exception", exc=repr(e))
        return fails
    if first > budget:
        bad("library-too-small-must-raise", first_batch=first, budget=budget)
        return fails
    if not isinstance(res, JokerSamples):
        bad("returns-samples", got=type(res).__name__)
        return fails
    if inp["rand"]:
        ch = [e for e in rng.events if e[0] == "choice"]
        if not ch or rng.events[0][0] != "choice":
            bad("shuffle-is-a-choice", events=[(e[0], e[1]) for e in rng.events])
            return fails
        order = [int(i) for i in ch[0][2]]
        if len(set(order)) != len(order):
            bad("row-evaluated-twice", order=order)
    else:
        order = list(range(N))
    _oracle(fn, inp["lls"], order, rng, res, inp["nreq"], budget, bad, None, ln_prior)
    evaluated = sum(len(c) for c in helper.ll_calls)
    ids = [int(round(r[0])) for c in helper.ll_calls for r in c]
    if len(set(ids)) != len(ids):
        bad("row-evaluated-twice", ids=ids)
    if evaluated > budget:
        bad("budget", evaluated=evaluated, budget=budget)
    return fails


_api = {}


def _check_api(inp):
    from thejoker import JokerSamples, TheJoker
    fails = []
    bad = lambda name, **d: fails.append((f"twin:TheJoker.iterative_rejection_sample/{name}[{'inmem' if inp['in_memory'] else 'file'}]", d))
    prior, data, lib, path = t02._api_setup(inp["seed"])
    N = len(lib)
    rng = S.RecordingGenerator(inp["seed"])
    joker = TheJoker(prior, rng=rng)
    lls_all = [float(x) for x in TheJoker(prior, rng=np.random.default_rng(0)).marginal_ln_likelihood(data, lib, in_memory=True)]
    try:
        res = joker.iterative_rejection_sample(data, lib if inp["in_memory"] else path, n_requested_samples=2, max_prior_samples=inp["mp"],
                                               return_logprobs=True, init_batch_size=3, growth_factor=2, in_memory=inp["in_memory"])
    except RuntimeError as e:
        if "good samples" in str(e):
            return fails
        raise
    if not isinstance(res, JokerSamples):
        bad("returns-samples", got=type(res).__name__)
        return fails
    budget = N if inp["mp"] is None else inp["mp"]
    uni = [e for e in rng.events if e[0] == "uniform"]
    E = int(uni[-1][1])
    if E > budget:
        bad("max_prior_samples-honoured", evaluated=E, budget=budget)
        return fails
    uu = [float(x) for x in uni[-1][2]]
    m = max(lls_all[:E])
    good = [k for k in range(E) if math.exp(lls_all[k] - m) > uu[k]][:2]
    for name in ("P", "e"):
        if not np.array_equal(res[name].to_value(lib[name].unit), lib[name].value[good]):
            bad("accepted-rows", column=name)
            return fails
    lp = np.asarray(res["ln_prior"])
    if lp.dtype.kind != "f" or not np.array_equal(lp, np.asarray(lib["ln_prior"])[good]):
        bad("ln_prior-own-row", dtype=str(lp.dtype))
    if not np.allclose(np.asarray(res["ln_likelihood"]), np.array(lls_all)[good], atol=1e-9, rtol=0):
        bad("ln_likelihood-own-row")
    return fails


def related(ob, clause):
    for f in ("iterative_rejection_inmem", "iterative_rejection_helper", "TheJoker.iterative_rejection_sample"):
        if f in ob and f in clause:
            return True
    return False
