"""C12 twin: HDF5 round trips, appends, refusals and batch reads on the real code."""
import hashlib
import itertools
import os

import numpy as np

import support as S

RULE = ("tables of 1..4 rows with column subsets {nonlinear, +ln_prior, +K,v0}, units {day|yr, rad|deg, km/s|m/s}, metadata (t_ref given/None, "
        "poly_trend 1|2, n_offsets 0|1); histories of length <= 3 over {write, overwrite, append, append-incompatible(extra column / missing column / "
        "other unit / other metadata)}; read_batch with tuples, slices, shuffled index arrays (with repeats; descending or permuted contiguous blocks; repeats whose span equals their count; a permutation of all rows), random subsets, unit conversion; "
        "FITS round trip; non-trivial = more than one row or an append")
EXHAUSTIVE = False
BOUNDED = ["serialisation itself is astropy's / h5py's"]
BUDGET_S = {"quick": 60, "thorough": 600}


_IDX_SHAPES = {"idx-block-descending": lambda n: [5, 4, 3, 2], "idx-block-permuted": lambda n: [3, 5, 2, 4],
               "idx-repeats-spanning-their-count": lambda n: [2, 2, 4, 5], "idx-all-rows-permuted": lambda n: list(range(n))[::-1][1:] + [n - 1]}


def cases(tier, seed):
    for n in (1, 2, 4):
        for cols in ("nonlinear", "lnprior", "linear"):
            for units in (("day", "rad", "km/s"), ("yr", "deg", "m/s")):
                for meta in ((True, 1, 0), (False, 2, 1)):
                    yield f"rt/{n}/{cols}/{units}/{meta}", {"kind": "roundtrip", "n": n, "cols": cols, "units": list(units), "meta": list(meta)}
    for bad in ("extra-column", "missing-column", "other-unit", "other-meta", "compatible"):
        for n in (1, 3):
            yield f"append/{bad}/{n}", {"kind": "append", "bad": bad, "n": n}
    for sel in ("tuple", "slice", "idx", "idx-shuffled", "idx-repeats", "idx-block-descending", "idx-block-permuted", "idx-repeats-spanning-their-count", "idx-all-rows-permuted", "random"):
        for conv in (False, True):
            yield f"read/{sel}/{conv}", {"kind": "read", "sel": sel, "conv": conv, "seed": int(seed)}


def nontrivial(inp):
    return inp.get("n", 2) > 1 or inp["kind"] != "roundtrip"


def _table(n, cols, units, meta, offset=0.0):
    import astropy.units as u
    from astropy.time import Time
    from thejoker import JokerSamples
    tref = Time(55100.5, format="mjd", scale="tcb") if meta[0] else None
    s = JokerSamples(t_ref=tref, poly_trend=meta[1], n_offsets=meta[2])
    r = np.arange(n) + offset
    s["P"] = ((2.0 + r) * u.day).to(u.Unit(units[0]))
    s["e"] = 0.1 + 0.01 * r
    s["omega"] = ((0.5 + r) * u.rad).to(u.Unit(units[1]))
    s["M0"] = (1.5 + r) * u.rad
    s["s"] = ((0.2 + r) * u.km / u.s).to(u.Unit(units[2]))
    if cols in ("lnprior", "linear"):
        s["ln_prior"] = -1.0 - r
    if cols == "linear":
        s["K"] = ((10.0 + r) * u.km / u.s).to(u.Unit(units[2]))
        s["v0"] = (-3.0 + r) * u.km / u.s
    return s


def _same(a, b):
    import astropy.units as u
    if a.par_names != b.par_names or len(a) != len(b):
        return f"columns {a.par_names} vs {b.par_names}, rows {len(a)} vs {len(b)}"
    for k in a.par_names:
        if a[k].unit != b[k].unit or not np.array_equal(np.asarray(a[k].value), np.asarray(b[k].value)):
            return f"column {k}: {a[k]!r} vs {b[k]!r}"
    if (a.t_ref is None) != (b.t_ref is None) or (a.t_ref is not None and abs(a.t_ref.tcb.mjd - b.t_ref.tcb.mjd) > 1e-9):
        return f"t_ref {a.t_ref} vs {b.t_ref}"
    if a.poly_trend != b.poly_trend or a.n_offsets != b.n_offsets:
        return "poly_trend / n_offsets"
    return None


def _tmp(ext=".hdf5"):
    p = os.path.join(S.OUTDIR, f"c12_{os.getpid()}{ext}")
    if os.path.exists(p):
        os.unlink(p)
    return p


def check(inp):
    import astropy.units as u
    from thejoker import JokerSamples
    from thejoker.utils import read_batch
    fails = []
    bad = lambda fn, name, **d: fails.append((f"twin:{fn}/{name}", d))
    if inp["kind"] == "roundtrip":
        s = _table(inp["n"], inp["cols"], inp["units"], inp["meta"])
        for ext in (".hdf5", ".fits"):
            p = _tmp(ext)
            s.write(p, overwrite=True)
            d = _same(s, JokerSamples.read(p))
            if d:
                bad("JokerSamples.write-read", f"round-trip[{ext}]", diff=d)
            if ext == ".hdf5":
                s2 = _table(inp["n"], inp["cols"], inp["units"], inp["meta"], offset=10.0)
                s2.write(p, append=True)
                got = JokerSamples.read(p)
                if len(got) != 2 * inp["n"] or not np.array_equal(got["e"].value[inp["n"]:], np.asarray(s2["e"].value)) \
                        or not np.array_equal(got["P"].value[:inp["n"]], s["P"].value):
                    bad("JokerSamples.write", "append-is-concatenation")
                s.write(p, overwrite=True)
                if _same(s, JokerSamples.read(p)):
                    bad("JokerSamples.write", "overwrite-replaces")
                try:
                    s.write(p)
                    bad("JokerSamples.write", "existing-file-without-overwrite-must-raise")
                except OSError:
                    pass
            os.unlink(p)
        return fails
    if inp["kind"] == "append":
        base = _table(inp["n"], "lnprior", ("day", "rad", "km/s"), (True, 1, 0))
        p = _tmp()
        base.write(p)
        h0 = hashlib.sha256(open(p, "rb").read()).hexdigest()
        other = {"extra-column": _table(2, "linear", ("day", "rad", "km/s"), (True, 1, 0)),
                 "missing-column": _table(2, "nonlinear", ("day", "rad", "km/s"), (True, 1, 0)),
                 "other-unit": _table(2, "lnprior", ("yr", "rad", "km/s"), (True, 1, 0)),
                 "other-meta": _table(2, "lnprior", ("day", "rad", "km/s"), (True, 2, 0)),
                 "compatible": _table(2, "lnprior", ("day", "rad", "km/s"), (True, 1, 0), offset=5.0)}[inp["bad"]]
        try:
            other.write(p, append=True)
            ok = True
        except Exception:
            ok = False
        if inp["bad"] == "compatible":
            if not ok or len(JokerSamples.read(p)) != inp["n"] + 2:
                bad("write_table_hdf5", "compatible-append-accepted")
        else:
            if ok:
                bad("write_table_hdf5", f"incompatible-append-must-be-refused[{inp['bad']}]")
            if hashlib.sha256(open(p, "rb").read()).hexdigest() != h0:
                bad("write_table_hdf5", f"refused-append-must-not-alter-the-file[{inp['bad']}]")
        os.unlink(p)
        return fails
    # read_batch
    s = _table(7, "lnprior", ("yr", "deg", "m/s"), (True, 1, 0))
    p = _tmp()
    s.write(p)
    cols = ["P", "e", "omega", "M0", "s"]
    units = {"P": u.day, "omega": u.rad, "s": u.km / u.s} if inp["conv"] else None
    def want(rows):
        out = np.zeros((len(rows), 5))
        for c, k in enumerate(cols):
            q = s[k][rows]
            out[:, c] = q.to_value(units[k]) if (units and k in units) else q.value
        return out
    rng = np.random.default_rng(inp["seed"])
    sel = inp["sel"]
    if sel == "tuple":
        got, rows = read_batch(p, cols, (2, 6), units=units), list(range(2, 6))
    elif sel == "slice":
        got, rows = read_batch(p, cols, slice(1, 5), units=units), list(range(1, 5))
    elif sel == "idx":
        got, rows = read_batch(p, cols, np.array([0, 3, 6]), units=units), [0, 3, 6]
    elif sel == "idx-shuffled":
        got, rows = read_batch(p, cols, np.array([5, 0, 6, 2]), units=units), [5, 0, 6, 2]
    elif sel == "idx-repeats":
        got, rows = read_batch(p, cols, np.array([4, 4, 1]), units=units), [4, 4, 1]
    elif sel in _IDX_SHAPES:
        # index arrays whose end points look like one contiguous block although the array is not an ascending run
        rows = _IDX_SHAPES[sel](len(s))
        got = read_batch(p, cols, np.array(rows), units=units)
    else:
        r1 = S.RecordingGenerator(inp["seed"])
        got = read_batch(p, cols, 4, units=units, rng=r1)
        rows = [int(i) for i in r1.events[0][2]] if r1.events else []
        if len(set(rows)) != 4:
            bad("read_random_batch", "random-subset-without-repeats", rows=rows)
    if got.shape != (len(rows), 5) or not np.allclose(got, want(rows), rtol=1e-14, atol=0):
        bad("read_batch", f"exactly-the-requested-rows-in-order[{sel}]", rows=rows, got=got[:, 0])
    os.unlink(p)
    return fails
