"""C02 twin: the acceptance rule of the property statement as an executable postcondition on the REAL
rejection_sample_inmem / rejection_sample_helper (function level, scripted likelihoods and draws) and on
TheJoker.rejection_sample (API level, real kernel)."""
import itertools
import math
import os
import tempfile

import numpy as np

import support as S

RULE = ("function level: every likelihood profile in {-inf,0,-1,-50}^N (N<=3, one finite at least) x scripted uniform "
        "draws on a grid that contains the exact boundary value exp(ll-max) x max_posterior_samples in {None,1,N+1} x "
        "n_linear_samples in {1,2} x ln_prior given or not x return_all_logprobs; API level: real kernel, seeded library of "
        "12 rows x {in_memory, file} x n_prior_samples x max_posterior_samples x randomize_prior_order; a case is "
        "non-trivial when at least one row is rejected and one accepted")
EXHAUSTIVE = False
BOUNDED = ["numpy Generator.uniform is uniform/independent (not decidable here)"]
BUDGET_S = {"quick": 45, "thorough": 900}
LLV = [0.0, -1.0, -50.0, -math.inf]
UGRID = [0.0, math.exp(-1.0), 0.5, 0.999]



KERNEL_IN_SYNC = None


def setup():
    # the API-level cases run the CURRENT kernel source (interpreted) when the compiled extension is stale
    global KERNEL_IN_SYNC
    import support as _S
    KERNEL_IN_SYNC = _S.install_kernel()


def cases(tier, seed):
    NS = (1, 2, 3) if tier == "quick" else (1, 2, 3, 4)
    for N in NS:
        for lls in itertools.product(LLV, repeat=N):
            if all(l == -math.inf for l in lls):
                continue
            for us in (itertools.product(UGRID, repeat=N) if N <= 2 else [tuple(UGRID[(i + s) % 4] for i in range(N)) for s in range(4)]):
                for K in (None, 1, N + 1):
                    for nlin, lnp, ra in ((1, True, False), (2, False, True)):
                        yield f"fn/{lls}/{us}/{K}/{nlin}", {"level": "fn", "lls": list(lls), "uu": list(us), "K": K,
                                                            "nlin": nlin, "lnp": lnp, "return_all": ra, "path": "inmem"}
    # file-path function-level (rejection_sample_helper with a stub helper and a real cache file)
    for N in (3,):
        for lls in ((0.0, -1.0, -50.0), (-1.0, 0.0, 0.0), (-math.inf, 0.0, -1.0)):
            for K in (None, 1):
                for npri in (None, 2):
                    for rand in (False, True):
                        yield f"file/{lls}/{K}/{npri}/{rand}", {"level": "fn", "lls": list(lls), "uu": [0.2, 0.5, 0.9], "K": K, "nlin": 1,
                                                                  "lnp": True, "return_all": True, "path": "file", "npri": npri, "rand": rand}
    rng = np.random.default_rng(seed)
    for in_memory in (True, False):
        for npri in (None, 5):
            for K in (None, 2):
                for rand in (False, True):
                    yield f"api/{in_memory}/{npri}/{K}/{rand}", {"level": "api", "in_memory": in_memory, "npri": npri, "K": K, "rand": rand,
                                                                  "seed": int(seed) + 11, "nlin": 1}
    # call history on ONE library object: used once in memory, then re-ordered in place through the public API, then used again
    for K in (None, 2):
        yield f"api/history/{K}", {"level": "api", "in_memory": True, "npri": None, "K": K, "rand": False, "seed": int(seed) + 11, "nlin": 1, "history": True}


def priority(inp):
    # the API-level cases (real kernel, real files, call histories) first: the function-level enumeration fills the rest of the time budget
    return 0 if inp.get("level") == "api" else 1


def nontrivial(inp):
    if inp["level"] == "api":
        return True
    m = max(inp["lls"])
    a = [math.exp(l - m) > u for l, u in zip(inp["lls"], inp["uu"])]
    return any(a) and not all(a)


def key(inp):
    return repr(sorted(inp.items()))


def _expected(lls, uu, K):
    m = max(lls)
    good = [i for i in range(len(lls)) if math.exp(lls[i] - m) > uu[i]]
    return good if K is None else good[:K]


C06_CLAUSES = ("ln_prior-own-row", "ln_likelihood-own-row", "all-logprobs")


def check_all(inp):
    return _check_fn(inp) if inp["level"] == "fn" else _check_api(inp)


def check(inp):
    # clauses about the log-prob columns belong to C06's twin (t06 re-uses check_all)
    return [(c, d) for c, d in check_all(inp) if not any(x in c for x in C06_CLAUSES)]


def _check_fn(inp):
    from thejoker.likelihood_helpers import rejection_sample_inmem
    fails = []
    N = len(inp["lls"])
    lib = S.library(N)
    helper = S.StubHelper({i: inp["lls"][i] for i in range(N)})
    rng = S.ScriptedGenerator(5, inp["uu"])
    ln_prior = 1000.0 + np.arange(N)
    bad = lambda name, **d: fails.append((f"twin:{'rejection_sample_helper' if inp['path'] == 'file' else 'rejection_sample_inmem'}/{name}", d))
    if inp["path"] == "inmem":
        res = rejection_sample_inmem(helper, lib.copy(), rng, ln_prior=ln_prior if inp["lnp"] else None,
                                     max_posterior_samples=inp["K"], n_linear_samples=inp["nlin"],
                                     return_all_logprobs=inp["return_all"])
        evaluated = list(range(N))
        uu = inp["uu"]
    else:
        return _check_file_fn(inp, lib, helper, rng, ln_prior, bad, fails)
    samples, all_ll = (res if inp["return_all"] else (res, None))
    exp_good = _expected(inp["lls"], uu, inp["K"])
    got_ids = [int(round(x)) for x in samples["P"].value] if len(samples) else []
    want_ids = [i for i in exp_good for _ in range(inp["nlin"])]
    if got_ids != want_ids:
        bad("accepted-set", got=got_ids, want=want_ids)
    else:
        for c, name in enumerate(["P", "e", "omega", "M0", "s"]):
            if len(samples) and not np.array_equal(samples[name].value, np.repeat(lib[exp_good, c], inp["nlin"])):
                bad("rows-unaltered", column=name)
    if not rng.events or rng.events[0][0] != "uniform" or int(rng.events[0][1]) != N:
        bad("draw-is-first-event-uniform-N", events=[(e[0], e[1]) for e in rng.events])
    if all_ll is not None and not np.array_equal(all_ll, np.array(inp["lls"])):
        bad("all-logprobs", got=all_ll)
    if inp["lnp"] and got_ids == want_ids and len(samples):
        if not np.array_equal(np.asarray(samples["ln_prior"]), np.repeat(ln_prior[exp_good], inp["nlin"])):
            bad("ln_prior-own-row", got=np.asarray(samples["ln_prior"]))
        if not np.array_equal(np.asarray(samples["ln_likelihood"]), np.repeat(np.array(inp["lls"])[exp_good], inp["nlin"])):
            bad("ln_likelihood-own-row", got=np.asarray(samples["ln_likelihood"]))
    return fails


def _write_lib(lib, ln_prior):
    import astropy.units as u
    from thejoker import JokerSamples
    s = JokerSamples()
    s["P"] = lib[:, 0] * u.day
    s["e"] = lib[:, 1] * u.one
    s["omega"] = lib[:, 2] * u.rad
    s["M0"] = lib[:, 3] * u.rad
    s["s"] = lib[:, 4] * u.km / u.s
    s["ln_prior"] = ln_prior
    fd, path = tempfile.mkstemp(suffix=".hdf5", dir=S.OUTDIR)
    os.close(fd)
    os.unlink(path)
    s.write(path)
    return path


def _check_file_fn(inp, lib, helper, rng, ln_prior, bad, fails):
    import schwimmbad
    from thejoker.multiproc_helpers import rejection_sample_helper
    N = len(inp["lls"])
    path = _write_lib(lib, ln_prior)
    try:
        res = rejection_sample_helper(helper, path, pool=schwimmbad.SerialPool(), rng=rng, n_prior_samples=inp["npri"],
                                      max_posterior_samples=inp["K"], n_linear_samples=inp["nlin"], return_logprobs=True,
                                      n_batches=2, randomize_prior_order=inp["rand"], return_all_logprobs=True)
    finally:
        if os.path.exists(path):
            os.unlink(path)
    samples, all_ll = res
    npri = N if inp["npri"] is None else inp["npri"]
    ev = list(rng.events)
    if inp["rand"]:
        if not ev or ev[0][0] != "choice":
            bad("randomize-draws-choice-first", events=[(e[0], e[1]) for e in ev])
            return fails
        order = [int(i) for i in ev[0][2]]
        ev = ev[1:]
    else:
        order = list(range(npri))
    if len(order) != npri:
        bad("n_prior_samples-honoured", evaluated=len(order), want=npri)
    if not ev or ev[0][0] != "uniform" or int(ev[0][1]) != npri:
        bad("draw-is-first-event-uniform-N", events=[(e[0], e[1]) for e in ev])
        return fails
    lls_eval = [inp["lls"][i] for i in order]
    uu = [inp["uu"][k % len(inp["uu"])] for k in range(npri)]
    good = _expected(lls_eval, uu, inp["K"])
    want_ids = [order[k] for k in good]
    got_ids = [int(round(x)) for x in samples["P"].value] if len(samples) else []
    if got_ids != want_ids:
        bad("accepted-set", got=got_ids, want=want_ids)
        return fails
    if not np.array_equal(all_ll, np.array(lls_eval)):
        bad("all-logprobs", got=all_ll, want=lls_eval)
    if len(samples):
        lp = np.asarray(samples["ln_prior"])
        if lp.dtype.kind != "f" or lp.shape != (len(want_ids),) or not np.array_equal(lp, ln_prior[want_ids]):
            bad("ln_prior-own-row", dtype=str(lp.dtype), shape=lp.shape)
        if not np.array_equal(np.asarray(samples["ln_likelihood"]), np.array(lls_eval)[good]):
            bad("ln_likelihood-own-row", got=np.asarray(samples["ln_likelihood"]))
    return fails


_api = {}


def _api_setup(seed):
    if seed in _api:
        return _api[seed]
    prior = S.default_prior(s=True)       # a sampled jitter: the fifth nonlinear column differs from row to row
    d0 = S.make_data(6, seed)
    from thejoker import RVData
    # weakly informative data: several of the 12 library rows are accepted, so that order / pairing clauses have witnesses
    data = RVData(t=d0.t, rv=d0.rv * 0.05, rv_err=d0.rv_err * 20.0, t_ref=d0.t_ref)
    lib = prior.sample(size=12, rng=np.random.default_rng(seed), return_logprobs=True)
    path = os.path.join(S.OUTDIR, f"c02_lib_{os.getpid()}_{seed}.hdf5")
    if os.path.exists(path):
        os.unlink(path)
    lib.write(path)
    _api[seed] = (prior, data, lib, path)
    return _api[seed]


def _check_api(inp):
    from thejoker import TheJoker
    fails = []
    bad = lambda name, **d: fails.append((f"twin:TheJoker.rejection_sample/{name}", d))
    prior, data, lib, path = _api_setup(inp["seed"])
    N = len(lib)
    rng = S.RecordingGenerator(inp["seed"])
    joker = TheJoker(prior, rng=rng)
    if inp.get("history"):
        lib = lib.copy()
        TheJoker(prior, rng=np.random.default_rng(1)).rejection_sample(data, lib, in_memory=True, return_logprobs=True)
        TheJoker(prior, rng=np.random.default_rng(1)).marginal_ln_likelihood(data, lib, in_memory=True)
        for nm in list(lib.par_names):
            lib[nm] = lib[nm][::-1]
        ref = lib.copy()        # a fresh object holding the re-ordered rows: the reference
    else:
        ref = lib
    src = lib if inp["in_memory"] else path
    lls_all = TheJoker(prior, rng=np.random.default_rng(0)).marginal_ln_likelihood(data, ref, in_memory=True)
    res = joker.rejection_sample(data, src, n_prior_samples=inp["npri"], max_posterior_samples=inp["K"], n_linear_samples=inp["nlin"],
                                 return_logprobs=True, return_all_logprobs=True, randomize_prior_order=inp["rand"],
                                 in_memory=inp["in_memory"], n_batches=3)
    samples, all_ll = res
    npri = N if inp["npri"] is None else inp["npri"]
    ev = [e for e in rng.events if e[0] != "mvn"]
    tag = "inmem" if inp["in_memory"] else "file"
    if inp["rand"] and ev and ev[0][0] == "choice":
        order = [int(i) for i in ev[0][2]]
        ev = ev[1:]
    elif inp["rand"] and not inp["in_memory"]:
        bad(f"randomize_prior_order-honoured[{tag}]", events=[(e[0], e[1]) for e in ev])
        return fails
    else:
        # (the property does not require the in-memory path to shuffle: library order is then the evaluation order)
        order = list(range(npri))
    if not ev or ev[0][0] != "uniform":
        bad("draw-is-first-event-uniform", events=[(e[0], e[1]) for e in ev])
        return fails
    if int(ev[0][1]) != npri or len(all_ll) != npri:
        bad(f"n_prior_samples-honoured[{tag}]", evaluated=int(ev[0][1]), want=npri)
        return fails
    lls_eval = [float(lls_all[i]) for i in order]
    if not np.allclose(all_ll, lls_eval, rtol=0, atol=1e-9):
        bad("all-logprobs-evaluation-order", got=all_ll, want=lls_eval)
        # (no early return: whether the returned ROWS are the accepted ones is a separate clause, judged against the true likelihoods below)
        all_ll = np.array(lls_eval)
    uu = [float(x) for x in ev[0][2]]
    good = _expected([float(x) for x in all_ll], uu, inp["K"])
    want_rows = [order[k] for k in good]
    for name in ("P", "e", "omega", "M0", "s"):
        want = ref[name][want_rows]
        got = samples[name]
        if len(got) != len(want) or not np.array_equal(got.to_value(want.unit), want.value):
            bad("accepted-rows", column=name, got=got, want=want)
            return fails
    lp = np.asarray(samples["ln_prior"])
    if lp.dtype.kind != "f" or not np.array_equal(lp, np.asarray(ref["ln_prior"])[want_rows]):
        bad(f"ln_prior-own-row[{tag}]", dtype=str(lp.dtype))
    if not np.allclose(np.asarray(samples["ln_likelihood"]), np.array(lls_eval)[good], rtol=0, atol=1e-9):
        bad("ln_likelihood-own-row")
    return fails


def from_model(name, model):
    return []


def related(ob, clause):
    for f in ("rejection_sample_inmem", "rejection_sample_helper", "TheJoker.rejection_sample"):
        if f in ob and f in clause:
            return True
    return False
