"""C10 twin: equal seeds give bit-identical outputs on every entry point; numpy's and Python's global random state are untouched;
different batches / successive calls get different streams."""
import os
import random

import numpy as np

import support as S
import t02

RULE = ("entry points {prior.sample, rejection_sample (object / file / int), iterative_rejection_sample, marginal_ln_likelihood} x {in_memory, "
        "temp cache, file} x n_batches {1, 3} x n_linear_samples {1, 2}: two runs with the same seed are compared bit for bit, a run with "
        "another seed must differ; numpy legacy global state and random.getstate() hashes before/after; linear draws of different batches "
        "and of successive calls on one TheJoker must differ; non-trivial = every case")
EXHAUSTIVE = True
BOUNDED = ["MultiPool only when the compiled kernel is in sync (the interpreted kernel is not picklable)"]
BUDGET_S = {"quick": 120, "thorough": 600}
KERNEL_IN_SYNC = None


def setup():
    global KERNEL_IN_SYNC
    KERNEL_IN_SYNC = S.install_kernel()


def cases(tier, seed):
    sd = int(seed) + 8
    yield "prior.sample", {"what": "prior", "seed": sd}
    for src in ("object-inmem", "object-cache", "file", "int"):
        for nb in (1, 3):
            for nlin in (1, 2):
                yield f"rejection/{src}/{nb}/{nlin}", {"what": "rejection", "src": src, "nb": nb, "nlin": nlin, "seed": sd}
    for src in ("object-inmem", "file"):
        yield f"iterative/{src}", {"what": "iterative", "src": src, "seed": sd}
    yield "streams", {"what": "streams", "seed": sd}
    yield "pool-size", {"what": "pool-size", "seed": sd}
    yield "hash-seed", {"what": "hash-seed", "seed": sd}


def nontrivial(inp):
    return True


def _state():
    return (hash(np.random.get_state()[1].tobytes()), hash(random.getstate()))


def _tbl(s):
    return {k: np.asarray(s[k].value).tobytes() for k in s.par_names}


def check(inp):
    from thejoker import TheJoker
    fails = []
    bad = lambda name, **d: fails.append((f"twin:reproducibility/{name}", d))
    prior, data, lib, path = t02._api_setup(inp["seed"])
    g0 = _state()

    def run(seed):
        rng = np.random.default_rng(seed)
        if inp["what"] == "prior":
            return _tbl(prior.sample(size=7, rng=rng, return_logprobs=False))
        joker = TheJoker(prior, rng=rng)
        if inp["what"] == "rejection":
            src = {"object-inmem": lib, "object-cache": lib, "file": path, "int": 40}[inp["src"]]
            s = joker.rejection_sample(data, src, n_linear_samples=inp["nlin"], n_batches=inp["nb"], in_memory=inp["src"] == "object-inmem",
                                       return_logprobs=inp["src"] != "int" and inp["nlin"] == 1)
            return _tbl(s)
        if inp["what"] == "iterative":
            s = joker.iterative_rejection_sample(data, lib if inp["src"] == "object-inmem" else path, n_requested_samples=2, init_batch_size=4,
                                                 growth_factor=2, in_memory=inp["src"] == "object-inmem")
            return _tbl(s)
    if inp["what"] == "pool-size":
        # equal seed, inputs and batching give the same output on pools of different size (the number of batches, not of workers, decides the streams)
        class WidePool:
            size = 3

            def map(self, f, tasks, callback=None):
                return [f(t) for t in tasks]

            def close(self):
                pass

        from thejoker import RVData
        # weakly informative data and a larger library, so that several samples are accepted (several batches of linear draws)
        wdata = RVData(t=data.t, rv=data.rv * 0.05, rv_err=data.rv_err * 20.0, t_ref=data.t_ref)
        wlib = prior.sample(size=48, rng=np.random.default_rng(inp["seed"] + 1), return_logprobs=True)
        wpath = os.path.join(S.OUTDIR, f"c10_lib_{os.getpid()}.hdf5")
        if os.path.exists(wpath):
            os.unlink(wpath)
        wlib.write(wpath)

        def go(pool, which):
            jk = TheJoker(prior, rng=np.random.default_rng(inp["seed"]), pool=pool)
            if which == "rejection":
                return _tbl(jk.rejection_sample(wdata, wpath, n_batches=2, n_linear_samples=2))
            return _tbl(jk.iterative_rejection_sample(wdata, wpath, n_requested_samples=6, init_batch_size=24, growth_factor=2, n_batches=2, n_linear_samples=2))
        for which in ("rejection", "iterative"):
            if go(None, which) != go(WidePool(), which):
                bad(f"same-output-on-pools-of-different-size[{which},n_batches=2]")
        return fails
    if inp["what"] == "hash-seed":
        # a seeded draw does not depend on the interpreter's string-hash seed (no set-iteration order in the path of a draw)
        import subprocess
        import sys
        code = ("import sys, numpy as np; sys.path.insert(0, %r); sys.path.insert(0, %r); import support as S; S.quiet(); "
                "p = S.default_prior(poly_trend=3); s = p.sample(size=5, rng=np.random.default_rng(7), generate_linear=True); "
                "print(','.join(repr(float(x)) for k in s.par_names for x in np.atleast_1d(s[k].value)))") % (os.path.dirname(os.path.abspath(__file__)), os.environ.get("VERIF_REPO", "/repo"))
        outs = []
        for hs in ("1", "2", "3"):
            env = dict(os.environ, PYTHONHASHSEED=hs, PYTHONPATH=os.environ.get("VERIF_REPO", "/repo"))
            r = subprocess.run([sys.executable, "-c", code], capture_output=True, text=True, env=env, timeout=600)
            outs.append(r.stdout.strip().split("\n")[-1] if r.returncode == 0 else "ERR " + r.stderr[-200:])
        if any(o.startswith("ERR") for o in outs):
            bad("hash-seed-subprocess-failed", outs=outs)
        elif len(set(outs)) != 1:
            bad("seeded-prior-draw-independent-of-the-hash-seed")
        return fails
    if inp["what"] == "streams":
        # successive prior draws on ONE generator continue its stream (they are not the same numbers again), and the generator is advanced
        g = np.random.default_rng(inp["seed"])
        st0 = g.bit_generator.state["state"]["state"]
        p1 = _tbl(prior.sample(size=9, rng=g))
        st1 = g.bit_generator.state["state"]["state"]
        p2 = _tbl(prior.sample(size=9, rng=g))
        if p1 == p2:
            bad("successive-prior-draws-on-one-generator-continue-the-stream")
        if st0 == st1:
            bad("prior-draws-are-made-on-the-handed-generator", note="the generator's state did not change")
        jk = TheJoker(prior, rng=np.random.default_rng(inp["seed"]))
        l1 = jk.rejection_sample(data, 40, return_all_logprobs=True, in_memory=True)[1]
        l2 = jk.rejection_sample(data, 40, return_all_logprobs=True, in_memory=True)[1]
        if np.array_equal(np.asarray(l1), np.asarray(l2)):
            bad("successive-calls-draw-fresh-prior-samples")
        # the child generators handed to the tasks: raw output of every child of two successive calls (and of every batch within a call) must
        # be disjoint - streams that merely start a few draws apart repeat each other's numbers
        import schwimmbad
        from thejoker.multiproc_helpers import run_worker
        g2 = np.random.default_rng(inp["seed"])
        raw = lambda task: [int(v) for v in task[-1].integers(0, 2 ** 62, size=400)]
        seen, clash = {}, None
        for call in range(3):
            g2.uniform(size=16)             # what a sampling call draws on the parent between two rounds of spawning
            for b_, vals in enumerate(run_worker(raw, schwimmbad.SerialPool(), path, n_batches=3, rng=g2)):
                for v in vals:
                    if v in seen and seen[v] != (call, b_):
                        clash = (seen[v], (call, b_))
                    seen[v] = (call, b_)
        if clash:
            bad("child-streams-of-different-batches-and-calls-do-not-overlap", first=clash[0], second=clash[1])
        joker = TheJoker(prior, rng=np.random.default_rng(inp["seed"]))
        a = joker.rejection_sample(data, path, n_batches=3, n_linear_samples=3)
        b = joker.rejection_sample(data, path, n_batches=3, n_linear_samples=3)
        Ka = np.asarray(a["K"].value)
        if len(Ka) >= 2 and len(set(np.round(Ka, 12))) != len(Ka):
            bad("linear-draws-not-repeated-across-batches", K=Ka)
        if len(a) == len(b) and len(a) > 0 and np.array_equal(Ka, np.asarray(b["K"].value)):
            bad("successive-calls-get-different-streams")
        return fails
    r1, r2, r3 = run(inp["seed"]), run(inp["seed"]), run(inp["seed"] + 1)
    if r1 != r2:
        bad(f"same-seed-same-output[{inp['what']}/{inp.get('src', '')}]", columns=[k for k in r1 if r1[k] != r2.get(k)])
    if r1 == r3 and inp["what"] != "iterative":
        bad("different-seed-different-output")
    if _state() != g0:
        bad("global-random-state-untouched")
    return fails
