"""C06 twin: the log-prob clauses of the C02 and C14 twins (same runs on the real code, other clauses filtered out)."""
import t02
import t14

RULE = "cases of the C02 and C14 twins that request log-probabilities; only the ln_prior / ln_likelihood / all-logprobs clauses are kept"
BOUNDED = []
BUDGET_S = {"quick": 60, "thorough": 1200}



KERNEL_IN_SYNC = None


def setup():
    # the API-level cases run the CURRENT kernel source (interpreted) when the compiled extension is stale
    global KERNEL_IN_SYNC
    import support as _S
    KERNEL_IN_SYNC = _S.install_kernel()


def cases(tier, seed):
    for cid, inp in t02.cases(tier, seed):
        if inp.get("lnp", True) or inp["level"] == "api":
            yield "C02:" + cid, ("t02", inp)
    for cid, inp in t14.cases(tier, seed):
        yield "C14:" + cid, ("t14", inp)


def key(x):
    return x[0] + (t02.key(x[1]) if x[0] == "t02" else t14.key(x[1]))


def priority(x):
    return 0 if (x[0] == "t02" and x[1].get("level") == "api") or (x[0] == "t14" and x[1].get("level") == "api") else 1


def nontrivial(x):
    return True


def check(x):
    mod = t02 if x[0] == "t02" else t14
    return [(c, d) for c, d in mod.check_all(x[1]) if any(k in c for k in t02.C06_CLAUSES)]


def related(ob, clause):
    return t02.related(ob, clause) or t14.related(ob, clause)
