"""C17 twin: JokerSamples operations on the real class."""
import itertools
import math

import numpy as np

RULE = ("tables of 1..3 rows; K sign patterns in {-2, 0, 3}^n; omega on a grid incl. 0, pi, 2pi-eps, negative and >2pi, in rad and deg; "
        "P in day and yr; phases {0, 1, -2.5} rad; index expressions int / slice / mask / column; copy, mean, std, median_period; "
        "pack/unpack with and without linear columns; non-trivial = at least one negative K or more than one row")
EXHAUSTIVE = True
BOUNDED = ["native cross-check of the contracts on the real class (tables of <= 3 rows); JokerSamples.__setitem__'s validation is exercised here only"]
KV = [-2.0, 0.0, 3.0]
OM = [0.0, math.pi, 2 * math.pi - 1e-3, -0.5, 7.0]


def cases(tier, seed):
    nmax = 2 if tier == "quick" else 3
    for n in range(1, nmax + 1):
        for ks in itertools.product(KV, repeat=n):
            for oms in itertools.product(range(len(OM)), repeat=n):
                if tier == "quick" and n == 2 and (oms[0] + oms[1]) % 2:
                    continue
                for om_unit in ("rad", "deg"):
                    for P_unit in ("day", "yr"):
                        yield f"{ks}/{oms}/{om_unit}/{P_unit}", {"K": list(ks), "om": [OM[i] for i in oms], "om_unit": om_unit, "P_unit": P_unit}


def nontrivial(inp):
    return len(inp["K"]) > 1 or any(k < 0 for k in inp["K"])


def _rv(K, e, om, f):
    return K * (math.cos(om + f) + e * math.cos(om))


def check(inp):
    import astropy.units as u
    from astropy.time import Time
    from thejoker import JokerSamples
    fails = []
    bad = lambda fn, name, **d: fails.append((f"twin:JokerSamples.{fn}/{name}", d))
    n = len(inp["K"])
    tref = Time(55123.25, format="mjd", scale="tcb")
    s = JokerSamples(t_ref=tref, poly_trend=2, n_offsets=0)
    Pd = np.array([3.5 + i for i in range(n)])
    s["P"] = (Pd * u.day).to(u.Unit(inp["P_unit"]))
    s["e"] = np.array([0.1 * (i + 1) for i in range(n)])
    s["omega"] = (np.array(inp["om"]) * u.rad).to(u.Unit(inp["om_unit"]))
    s["M0"] = np.array([0.3 + i for i in range(n)]) * u.rad
    s["s"] = np.zeros(n) * u.m / u.s
    s["K"] = np.array(inp["K"]) * u.km / u.s
    s["v0"] = np.array([1.0 + i for i in range(n)]) * u.km / u.s
    s["v1"] = np.array([0.01 * (i + 1) for i in range(n)]) * u.km / u.s / u.day
    K0 = s["K"].to_value(u.km / u.s).copy()
    om0 = s["omega"].to_value(u.rad).copy()
    e0 = np.asarray(s["e"]).copy()
    w = s.copy().wrap_K()
    K1 = w["K"].to_value(u.km / u.s)
    om1 = w["omega"].to_value(u.rad)
    if np.any(K1 < 0) or not np.allclose(K1, np.abs(K0), rtol=0, atol=0):
        bad("wrap_K", "every-K-non-negative-same-magnitude", K0=K0, K1=K1)
    for i in range(n):
        if K0[i] >= 0 and om1[i] != om0[i]:
            bad("wrap_K", "omega-unchanged-where-K-was-non-negative", i=i)
        for f in (0.0, 0.7, 2.9, -1.3):
            if abs(_rv(K1[i], e0[i], om1[i], f) - _rv(K0[i], e0[i], om0[i], f)) > 1e-9:
                bad("wrap_K", "rv-curve-unchanged", i=i, f=f)
                break
        if K0[i] < 0 and not (-1e-12 <= om1[i] < 2 * math.pi + 1e-12):
            bad("wrap_K", "omega-in-0-2pi-where-wrapped", got=om1[i])
    if w["K"].unit != s["K"].unit or w["omega"].unit != s["omega"].unit or w.t_ref != tref or w.poly_trend != 2:
        bad("wrap_K", "units-and-metadata-kept")
    # get_time_with_phase / get_t0
    for ph in (0.0, 1.0, -2.5):
        tt = s.get_time_with_phase(ph * u.rad)
        tt = np.atleast_1d(tt.tcb.mjd)
        M = 2 * math.pi * (tt - tref.tcb.mjd) / Pd - s["M0"].to_value(u.rad)
        if not np.allclose(M, ph, atol=1e-8):
            bad("get_time_with_phase", "mean-anomaly-equals-phase", phase=ph, got=M)
    t0 = np.atleast_1d(s.get_t0().tcb.mjd)
    if not np.allclose(2 * math.pi * (t0 - tref.tcb.mjd) / Pd - s["M0"].to_value(u.rad), 0, atol=1e-8):
        bad("get_t0", "phase-zero")
    # pack / unpack round trip
    for nonlinear_only in (True, False):
        packed, units = s.pack(nonlinear_only=nonlinear_only)
        back = JokerSamples.unpack(packed, units, t_ref=tref, poly_trend=2, n_offsets=0)
        names = list(units.keys())
        want = ["P", "e", "omega", "M0", "s"] if nonlinear_only else s.par_names
        if names != list(want) or back.par_names != list(want):
            bad("pack", "names-and-order", got=names)
        for k in names:
            if not np.allclose(back[k].to_value(s[k].unit), s[k].value, rtol=1e-13, atol=0) or not back[k].unit.is_equivalent(s[k].unit):
                bad("unpack", "round-trip-values-and-units", column=k)
        if back.t_ref != tref or back.poly_trend != 2 or back.n_offsets != 0:
            bad("unpack", "metadata")
    # pack with a user-given units mapping whose order differs from the packed order: column j holds names[j] in the unit reported at position j
    for want_units in ({"omega": u.deg, "M0": u.deg}, {"s": u.km / u.s, "P": u.hour}, {"K": u.m / u.s, "e": u.one}):
        for nonlinear_only in (True, False):
            packed, units = s.pack(units=dict(want_units), nonlinear_only=nonlinear_only)
            names = list(units.keys())
            want = ["P", "e", "omega", "M0", "s"] if nonlinear_only else s.par_names
            if names != list(want):
                bad("pack", "reported-units-are-in-column-order", got=names, want=list(want), units=[str(k) for k in want_units])
                break
            for j, k in enumerate(names):
                if not np.allclose(packed[:, j], s[k].to_value(units[k]), rtol=1e-13, atol=0):
                    bad("pack", "column-holds-its-parameter-in-the-unit-reported-for-it", column=k)
                if k in want_units and units[k] != want_units[k]:
                    bad("pack", "requested-units-honoured", column=k)
    # call history on ONE object: after a column is replaced, times of a given phase follow the new values
    s2 = s.copy()
    s2.get_t0()
    s2.get_time_with_phase(1.0 * u.rad)
    newM0 = np.array([1.1 + 0.5 * i for i in range(n)])
    s2["M0"] = newM0 * u.rad
    newP = Pd * 1.5
    s2["P"] = (newP * u.day).to(u.Unit(inp["P_unit"]))
    for ph in (0.0, 1.0):
        tt = np.atleast_1d(s2.get_time_with_phase(ph * u.rad).tcb.mjd)
        M = 2 * math.pi * (tt - tref.tcb.mjd) / newP - newM0
        if not np.allclose(M, ph, atol=1e-8):
            bad("get_time_with_phase", "mean-anomaly-equals-phase-after-columns-were-replaced[call-history]", phase=ph, got=M)
            break
    # unpack takes the column order from the units mapping it is handed - whatever kind of mapping that is, and whatever the order
    order = ["e", "omega", "M0", "s", "P", "v0", "K"]
    packed2, units2 = s.pack(names=order, nonlinear_only=False)
    for kind, mapping in (("OrderedDict", units2), ("dict", {k: units2[k] for k in order}), ("from-strings", {k: u.Unit(str(units2[k])) for k in order})):
        back2 = JokerSamples.unpack(packed2, mapping, t_ref=tref, poly_trend=2, n_offsets=0)
        for k in order:
            if not np.allclose(back2[k].to_value(s[k].unit), s[k].value, rtol=1e-12, atol=0):
                bad("unpack", f"column-order-taken-from-the-units-mapping[{kind},non-canonical-order]", column=k)
                break
    # median_period with repeated periods (each nonlinear row repeated, as with several linear draws per sample): still ONE member row
    rep = JokerSamples(t_ref=tref, poly_trend=2, n_offsets=0)
    for k in s.par_names:
        rep[k] = np.repeat(s[k].value, 2) * s[k].unit
    rep["K"] = (np.repeat(s["K"].value, 2) + np.arange(2 * n) * 0.01) * s["K"].unit
    mpr = rep.median_period()
    if len(mpr) != 1:
        bad("median_period", "is-a-single-member-row[repeated-periods]", rows=len(mpr))
    else:
        rws = [tuple(float(rep[k].value[i]) for k in rep.par_names) for i in range(2 * n)]
        if tuple(float(np.atleast_1d(mpr[k].value)[0]) for k in rep.par_names) not in rws:
            bad("median_period", "is-a-member-row[repeated-periods]")
    # negative integer keys count from the end; an EMPTY selection is still a table with the same names, units and metadata
    for k in range(-n, n):
        try:
            rowk = s[k]
        except Exception as e:  # noqa: BLE001
            bad("__getitem__", "source-table-keeps-units-and-metadata-after-selections[call-history]", key=k, error=repr(e)[:200])
            return fails
        if len(rowk) != 1 or any(float(np.atleast_1d(rowk[c].value)[0]) != float(s[c].value[k]) for c in s.par_names) or rowk.t_ref != tref:
            bad("__getitem__", "integer-key-returns-that-member-row", key=k, rows=len(rowk))
            break
    for name_, empty in (("all-False-mask", s[np.zeros(n, dtype=bool)]), ("empty-slice", s[0:0])):
        if list(empty.par_names) != list(s.par_names) or any(empty[c].unit != s[c].unit for c in s.par_names if c in empty.par_names) \
                or empty.t_ref != tref or empty.poly_trend != 2 or len(empty) != 0:
            bad("__getitem__", f"empty-selection-keeps-names-units-metadata[{name_}]", names=list(empty.par_names))
    # indexing / copy / reductions keep units and metadata
    def meta_ok(x):
        return x.t_ref == tref and x.poly_trend == 2 and x.n_offsets == 0 and all(x[k].unit == s[k].unit for k in s.par_names)
    views = {"int": s[0], "slice": s[0:1], "mask": s[np.arange(n) == 0], "copy": s.copy(), "mean": s.mean(), "std": s.std(), "median_period": s.median_period()}
    for name, v in views.items():
        if not meta_ok(v):
            bad("__getitem__" if name in ("int", "slice", "mask") else name, "units-and-metadata-kept", view=name)
    if float(np.atleast_1d(s[0]["P"].to_value(u.day))[0]) != float(s["P"].to_value(u.day)[0]) or len(s[0:1]) != 1:
        bad("__getitem__", "corresponding-rows")
    mp = s.median_period()
    rows = [tuple(float(np.atleast_1d(s[i][k].value)[0]) for k in s.par_names) for i in range(n)]
    got = tuple(float(np.atleast_1d(mp[k].value)[0]) for k in s.par_names)
    if got not in rows:
        bad("median_period", "is-a-member-row", got=got)
    else:
        Ps = sorted(Pd)
        if abs(mp["P"].to_value(u.day)[0] - Ps[n // 2]) > 1e-9:
            bad("median_period", "is-the-median-period-row")
    # ... and after all of these the SOURCE table still is what it was (a selection must not take the metadata away from its parent)
    try:
        if not meta_ok(s) or not meta_ok(s[0:1]) or not meta_ok(s.median_period()):
            bad("__getitem__", "source-table-keeps-units-and-metadata-after-selections[call-history]")
    except Exception as e:  # noqa: BLE001
        bad("__getitem__", "source-table-keeps-units-and-metadata-after-selections[call-history]", error=repr(e)[:200])
    # a quadratic trend: v2 is a velocity per time**2; the table and everything derived from it keep poly_trend = 3 and the unit of v2
    try:
        q = JokerSamples(t_ref=tref, poly_trend=3, n_offsets=0)
        for k in s.par_names:
            q[k] = s[k]
        q["v2"] = np.array([1e-4 * (i + 1) for i in range(n)]) * u.km / u.s / u.day ** 2
        for name, v in {"int": q[0], "slice": q[0:1], "copy": q.copy(), "mean": q.mean(), "median_period": q.median_period()}.items():
            if v.poly_trend != 3 or v["v2"].unit != q["v2"].unit or v.t_ref != tref:
                bad("__getitem__" if name in ("int", "slice") else name, "units-and-metadata-kept[poly_trend=3]", view=name)
        blk, un = q.pack(nonlinear_only=False)
        back = JokerSamples.unpack(blk, un, t_ref=tref, poly_trend=3, n_offsets=0)
        if list(back.par_names) != list(q.par_names) or not np.allclose(back["v2"].to_value(q["v2"].unit), q["v2"].value, rtol=1e-13, atol=0):
            bad("unpack", "pack-then-unpack-reproduces-names-units-values[poly_trend=3]")
    except Exception as e:  # noqa: BLE001
        bad("__init__", "table-with-a-quadratic-trend-accepted[poly_trend=3]", error=repr(e)[:200])
    return fails
