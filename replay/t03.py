"""C03 twin: the arguments of the conditional-posterior draw (recorded on the generator handed to TheJoker) against
a = A (Lambda^-1 mu + M^T C_s^-1 y),  A = (Lambda^-1 + M^T C_s^-1 M)^-1  computed independently; the emitted rows."""
import numpy as np

import support as S
import t01

RULE = t01.RULE + "; for every accepted row the recorded multivariate_normal(mean, cov, size) call is compared with the closed form; n_linear_samples in {1, 3}"
EXHAUSTIVE = False
BOUNDED = ["that numpy's multivariate_normal draws from N(mean, cov) is not decided"]
BUDGET_S = {"quick": 70, "thorough": 900}
KERNEL_IN_SYNC = None


def setup():
    global KERNEL_IN_SYNC
    KERNEL_IN_SYNC = S.install_kernel()


def cases(tier, seed):
    for cid, inp in t01.cases(tier, seed):
        if inp.get("layout") == "interleaved":
            continue
        for nlin in (1, 3):
            yield f"{cid}/nlin{nlin}", dict(inp, nlin=nlin)
        if inp.get("layout") in ("single", "disjoint"):
            # the cached (file) path with several batches: blocks of linear draws are put together by make_full_samples
            yield f"{cid}/nlin3/cached", dict(inp, nlin=3, cached=True)


_seen = set()


def priority(inp):
    f = (bool(inp.get("cached")), inp["nlin"], inp["pt"] > 1, inp["no"] > 0, inp["s"] is not None)
    if f in _seen:
        return 1
    _seen.add(f)
    return 0


def nontrivial(inp):
    return True


def check(inp):
    import astropy.units as u
    from thejoker import TheJoker
    fails = []
    bad = lambda name, **d: fails.append((f"twin:batch_get_posterior_samples/{name}", d))
    prior, data = t01.build(inp)
    samples = t01.rows_for(prior, inp, None)
    if inp.get("cached"):
        return check_cached(inp, prior, data, fails)
    rng = S.RecordingGenerator(inp["seed"])
    joker = TheJoker(prior, rng=rng)
    post = joker.rejection_sample(data, samples, in_memory=True, n_linear_samples=inp["nlin"], max_posterior_samples=3)
    vu = u.Unit(inp["vu"])
    ev = [e for e in rng.events if e[0] == "mvn"]
    nacc = len(post) // inp["nlin"]
    if len(ev) != nacc:
        bad("one-draw-call-per-accepted-row", calls=len(ev), accepted=nacc)
        return fails
    s_col = post["s"].to_value(vu) if "s" in post.par_names else np.zeros(len(post))
    rows = np.column_stack([post["P"].to_value(u.day), np.asarray(post["e"]), post["omega"].to_value(u.rad), post["M0"].to_value(u.rad), s_col])
    rows = rows[::inp["nlin"]]
    _, parts = t01.closed_form(prior, data, rows, inp, parts=True)
    names = ["K", "v0"] + [f"dv0_{k}" for k in range(1, inp["no"] + 1)] + [f"v{j}" for j in range(1, inp["pt"])]
    for r, ((M, mu, Lam, C, y), e) in enumerate(zip(parts, ev)):
        size, (mean, cov, draws) = e[1], e[2]
        Ci = np.diag(1 / np.diag(C))
        Ainv = np.linalg.inv(Lam) + M.T @ Ci @ M
        A = np.linalg.inv(Ainv)
        a = A @ (np.linalg.inv(Lam) @ mu + M.T @ Ci @ y)
        # the kernel inverts / solves with Ainv: both evaluations lose about eps * cond(Ainv)
        tol = min(1e-3, max(1e-6 if inp["pt"] <= 2 else 1e-4, 2e-12 * float(np.linalg.cond(Ainv))))
        if int(size) != inp["nlin"]:
            bad("n_linear_samples-draws-per-row", size=size)
        if not np.allclose(mean, a, rtol=tol, atol=1e-8 * max(1.0, np.abs(a).max())):
            bad("mean-is-the-conditional-posterior-mean", got=mean, want=a, cfg=inp)
        if not np.allclose(cov, A, rtol=10 * tol, atol=1e-10 * np.abs(A).max()):
            bad("covariance-is-the-conditional-posterior-covariance", got=np.diag(cov), want=np.diag(A), cfg=inp)
        # emitted rows: this row's draws, in design-matrix column order and units
        for j in range(inp["nlin"]):
            got = []
            for k, nm in enumerate(names):
                unit = vu / u.day ** int(nm[1:]) if (nm.startswith("v") and nm != "v0") else vu
                got.append(post[nm][r * inp["nlin"] + j].to_value(unit))
            if not np.allclose(got, np.atleast_2d(draws)[j], rtol=1e-12, atol=0):
                bad("draws-emitted-in-column-order-and-units", row=r, got=got, want=np.atleast_2d(draws)[j])
    return fails


def check_cached(inp, prior, data, fails):
    """file-backed path, 3 batches, 3 linear draws per accepted row: every accepted prior row (the same ones as in memory for the same seed)
    appears exactly n_linear_samples times, consecutively, with its nonlinear parameters unchanged, and carries its own draws"""
    import astropy.units as u
    from thejoker import TheJoker
    bad = lambda name, **d: fails.append((f"twin:make_full_samples/{name}", d))
    from thejoker import RVData
    lib = prior.sample(size=48, rng=np.random.default_rng(inp["seed"] + 1))
    nl = inp["nlin"]
    if "s" in lib.par_names:
        # the jitter column stored in another (equivalent) unit than the data's: every path must convert it
        vu_ = u.Unit(inp["vu"])
        lib.tbl["s"] = lib.tbl["s"].to(u.m / u.s if vu_ == u.km / u.s else u.km / u.s)
    # weakly informative data, so that several prior rows are accepted (the blocks of several batches have to be put together)
    weak = lambda d: RVData(t=d.t, rv=d.rv * 0.05, rv_err=d.rv_err * 20.0, t_ref=d.t_ref)
    data = [weak(d) for d in data] if isinstance(data, list) else weak(data)
    mem = TheJoker(prior, rng=np.random.default_rng(inp["seed"])).rejection_sample(data, lib, in_memory=True, n_linear_samples=1, max_posterior_samples=7)
    got = TheJoker(prior, rng=np.random.default_rng(inp["seed"])).rejection_sample(data, lib, in_memory=False, n_batches=3, n_linear_samples=nl,
                                                                                   max_posterior_samples=7)
    if len(mem) < 3:
        return fails        # nothing to put together
    if len(got) != nl * len(mem):
        bad("n_linear_samples-rows-per-accepted-sample[cached,n_batches=3]", got=len(got), accepted=len(mem), nlin=nl)
        return fails
    cols = [("P", u.day), ("e", u.one), ("omega", u.rad), ("M0", u.rad)] + ([("s", u.km / u.s)] if "s" in lib.par_names else [])
    for nm, unit in cols:
        a = np.repeat(np.asarray(mem[nm].to_value(unit)), nl)
        b = np.asarray(got[nm].to_value(unit))
        if not np.allclose(a, b, rtol=1e-12, atol=0):
            bad("each-draw-paired-with-its-own-nonlinear-row[cached,n_batches=3]", column=nm, want=a, got=b)
            return fails
    K = np.asarray(got["K"].value)
    if len(mem) and (np.any(K == 0.0) or len(np.unique(K)) != len(K)):
        bad("every-returned-row-carries-its-own-draw[cached,n_batches=3]", K=K)
    # successive calls on ONE sampler draw fresh linear parameters (independent draws, not the previous call's again)
    jk = TheJoker(prior, rng=np.random.default_rng(inp["seed"]))
    runs = [np.asarray(jk.rejection_sample(data, lib, in_memory=False, n_batches=2, n_linear_samples=nl, max_posterior_samples=7)["K"].value) for _ in range(3)]
    for a_, b_ in ((0, 1), (1, 2), (0, 2)):
        if len(set(np.round(runs[a_], 12)) & set(np.round(runs[b_], 12))):
            bad("successive-calls-draw-fresh-linear-parameters[cached]", calls=(a_, b_))
            break
    return fails
