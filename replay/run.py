"""Native side (run by /venv/bin/python, which has the repository's own dependencies):
replays counter-models on the REAL code and runs the executable twins of the contracts over a small
enumerated scope (the CPython cross-check of DESIGN 2.7).  Results are bounded evidence, never proof.

usage: run.py request.json result.json
"""
import importlib
import json
import os
import sys
import time
import traceback
import warnings

warnings.filterwarnings("ignore")
HERE = os.path.dirname(os.path.abspath(__file__))
sys.path.insert(0, HERE)
sys.path.insert(0, os.path.dirname(HERE))


def jsonable(x):
    try:
        import numpy as np
        if isinstance(x, np.ndarray):
            return x.tolist()
        if isinstance(x, (np.integer,)):
            return int(x)
        if isinstance(x, (np.floating,)):
            return float(x)
        if isinstance(x, np.bool_):
            return bool(x)
    except Exception:
        pass
    if isinstance(x, dict):
        return {str(k): jsonable(v) for k, v in x.items()}
    if isinstance(x, (list, tuple)):
        return [jsonable(v) for v in x]
    if isinstance(x, (int, float, str, bool)) or x is None:
        return x
    return repr(x)


def main():
    # a PRIVATE temporary directory for everything the library creates during this run: the twins look for leaked cache files, and a shared
    # /tmp would make them see (and clean up) files of unrelated processes running at the same time
    import shutil
    import tempfile
    base = os.environ.get("VERIF_OUT") or os.path.join(os.path.dirname(HERE), "out")
    os.makedirs(base, exist_ok=True)
    priv = tempfile.mkdtemp(prefix="twin-tmp-", dir=base)
    tempfile.tempdir = priv
    os.environ["TMPDIR"] = priv
    try:
        _main()
    finally:
        shutil.rmtree(priv, ignore_errors=True)


def _main():
    req = json.load(open(sys.argv[1]))
    prop, tier, seed = req["property"], req["tier"], req["seed"]
    out = {"property": prop, "evaluations": 0, "distinct_nontrivial": 0, "failures": [], "replays": [], "samples": []}
    try:
        import support
        support.quiet()
        t = importlib.import_module(f"t{prop[1:]}")
        if hasattr(t, "setup"):
            t.setup()
        out["rule"] = getattr(t, "RULE", "")
        out["bounded"] = getattr(t, "BOUNDED", [])
        out["kernel_in_sync"] = getattr(t, "KERNEL_IN_SYNC", None)
        if req.get("replay_file"):
            rec = json.load(open(req["replay_file"]))
            nr = rec.get("native_replay") or {}
            inp = nr.get("input")
            if inp is None:
                out["error"] = None
                out["replay_failed"] = False
                out["note"] = "replay file carries no concrete input (no-failing-input-found)"
            else:
                fails = t.check(t.decode(inp) if hasattr(t, "decode") else inp)
                out["replay_failed"] = bool(fails)
                out["replay_failures"] = jsonable(fails)
            json.dump(out, open(sys.argv[2], "w"), indent=1)
            return
        seen_clauses = {}
        distinct = set()
        t0 = time.time()
        budget = getattr(t, "BUDGET_S", {"quick": 60, "thorough": 600})[tier]
        exhausted = True
        all_cases = list(t.cases(tier, seed))
        out["cases_in_scope"] = len(all_cases)
        if not getattr(t, "EXHAUSTIVE", False):
            import random
            random.Random(seed).shuffle(all_cases)      # a budget-limited run samples the scope evenly
        if hasattr(t, "priority"):
            all_cases.sort(key=lambda c: t.priority(c[1]))     # stable: one representative of every feature first, then the sampled rest
        for cid, inp in all_cases:
            if time.time() - t0 > budget:
                exhausted = False
                break
            out["evaluations"] += 1
            try:
                fails = t.check(inp)
            except Exception as e:  # an exception escaping the twin itself is a checker error, not a violation
                out["error"] = f"twin crashed on case {cid}: {traceback.format_exc()[-1200:]}"
                break
            key = t.key(inp) if hasattr(t, "key") else json.dumps(jsonable(inp), sort_keys=True)
            if (t.nontrivial(inp) if hasattr(t, "nontrivial") else True):
                distinct.add(key)
            if len(out["samples"]) < 4:
                out["samples"].append({"case": cid, "input": jsonable(inp), "failed_clauses": [c for c, _ in fails]})
            for clause, detail in fails:
                if clause not in seen_clauses:
                    seen_clauses[clause] = {"clause": clause, "case": cid, "input": jsonable(t.encode(inp) if hasattr(t, "encode") else inp),
                                            "detail": jsonable(detail)}
        out["distinct_nontrivial"] = len(distinct)
        out["exhaustive"] = exhausted and getattr(t, "EXHAUSTIVE", False)
        out["failures"] = list(seen_clauses.values())
        # replay of the verifier's counter-models
        for r in req.get("refuted", []):
            rec = {"obligation": r["name"], "failed": False, "tried": []}
            try:
                inputs = t.from_model(r["name"], r.get("model") or {}) if hasattr(t, "from_model") else []
            except Exception:
                inputs = []
                rec["concretise_error"] = traceback.format_exc()[-400:]
            for inp in inputs:
                try:
                    fails = t.check(inp)
                except Exception:
                    rec["tried"].append({"input": jsonable(inp), "error": traceback.format_exc()[-400:]})
                    continue
                rec["tried"].append({"input": jsonable(inp), "failed_clauses": [c for c, _ in fails]})
                if fails:
                    rec.update(failed=True, input=jsonable(t.encode(inp) if hasattr(t, "encode") else inp),
                               clause=fails[0][0], detail=jsonable(fails[0][1]), source="counter-model")
                    break
            if not rec["failed"] and out["failures"]:
                # small-scope search (DESIGN 2.6): a failing input found by the enumerated twin for the same function
                rel = [f for f in out["failures"] if getattr(t, "related", lambda ob, cl: True)(r["name"], f["clause"])]
                if rel:
                    f = rel[0]
                    rec.update(failed=True, input=f["input"], clause=f["clause"], detail=f["detail"], source="small-scope search")
            out["replays"].append(rec)
    except Exception:
        out["error"] = traceback.format_exc()[-2500:]
    json.dump(out, open(sys.argv[2], "w"), indent=1, default=repr)


if __name__ == "__main__":
    main()
