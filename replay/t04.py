"""C04 twin: one RV curve everywhere, and the Bayes identity
   marginal ln-likelihood(theta) = ln p(y | theta, x) + ln p(x | theta) - ln N(x | a, A)   for returned (theta, x)."""
import numpy as np

import support as S
import t01

RULE = ("single-survey priors poly_trend in {1,2,3} x K prior {default, custom} x jitter {0, sampled} x units {day,km/s | yr,m/s}: for every returned "
        "posterior row (3 linear draws each) and for hand-built rows: (a) get_orbit(i).radial_velocity(t) equals M(theta) x computed with the "
        "independent design matrix; (b) ln_unmarginalized_likelihood equals the Gaussian sum with sigma^2 + s^2; (c) the Bayes identity to 1e-6 "
        "relative; (d) samples.t_ref is the data's reference epoch; multi-survey (offset) priors: (a) is reported under its own clause")
EXHAUSTIVE = False
BOUNDED = ["floating point tolerances 1e-6 (1e-4 for quadratic trends)"]
BUDGET_S = {"quick": 90, "thorough": 900}
KERNEL_IN_SYNC = None


def setup():
    global KERNEL_IN_SYNC
    KERNEL_IN_SYNC = S.install_kernel()


def cases(tier, seed):
    for pt_ in (1, 2, 3):
        for cK in (False, True):
            for s in (None, True):
                for Pu, vu in (("day", "km/s"), ("yr", "m/s")):
                    yield f"{pt_}/{cK}/{s}/{Pu}/{vu}", {"pt": pt_, "no": 0, "customK": cK, "s": s, "Pu": Pu, "vu": vu, "seed": int(seed) + 5, "layout": "single"}
    # an explicit reference epoch given in a non-TCB time scale (the kernel's epoch number and the samples' t_ref must be the same instant)
    for pt_ in (1, 2):
        yield f"{pt_}/tref-utc", {"pt": pt_, "no": 0, "customK": False, "s": None, "Pu": "day", "vu": "km/s", "seed": int(seed) + 5, "layout": "single-tref-utc"}
    # very precise velocities (variances ~1e-9 in (km/s)**2): the per-row likelihood is the Gaussian of the row's own curve at any error scale
    yield "1/precise", {"pt": 1, "no": 0, "customK": False, "s": None, "Pu": "day", "vu": "km/s", "seed": int(seed) + 5, "layout": "single-precise"}
    yield "offsets", {"pt": 1, "no": 1, "customK": False, "s": None, "Pu": "day", "vu": "km/s", "seed": int(seed) + 5, "layout": "disjoint"}


def nontrivial(inp):
    return True


def priority(inp):
    return 0 if inp["layout"] != "single" else 1


def check(inp):
    import astropy.units as u
    from scipy.stats import multivariate_normal, norm
    from thejoker import TheJoker
    fails = []
    bad = lambda fn, name, **d: fails.append((f"twin:{fn}/{name}", d))
    prior, data = t01.build(inp)
    lib = t01.rows_for(prior, inp, None, n=12) if True else None
    joker = TheJoker(prior, rng=np.random.default_rng(inp["seed"]))
    post = joker.rejection_sample(data, lib, in_memory=True, n_linear_samples=3, return_logprobs=True) if False else \
        joker.rejection_sample(data, lib, in_memory=True, n_linear_samples=3)
    vu = u.Unit(inp["vu"])
    n = len(post)
    if n == 0:
        return fails
    s_col = post["s"].to_value(vu) if "s" in post.par_names else np.zeros(n)
    rows = np.column_stack([post["P"].to_value(u.day), np.asarray(post["e"]), post["omega"].to_value(u.rad), post["M0"].to_value(u.rad), s_col])
    ll_marg = joker.marginal_ln_likelihood(data, post, in_memory=True)
    # the same rows through the CACHED path, stored in other (equivalent) units: the identity is about the row, not about how it is stored
    post_u = post.copy()
    post_u.tbl["P"] = post_u.tbl["P"].to(u.yr)
    post_u.tbl["omega"] = post_u.tbl["omega"].to(u.deg)
    post_u.tbl["M0"] = post_u.tbl["M0"].to(u.deg)
    ll_cached = joker.marginal_ln_likelihood(data, post_u, in_memory=False, n_batches=2)
    if not np.allclose(ll_cached, ll_marg, rtol=1e-9, atol=1e-7):
        bad("marginal_ln_likelihood", "same-value-for-the-same-row-through-the-cached-path-in-other-units", maxdiff=float(np.max(np.abs(ll_cached - ll_marg))))
        return fails
    want_ll, parts = t01.closed_form(prior, data, rows, inp, parts=True)
    names = ["K", "v0"] + [f"dv0_{k}" for k in range(1, inp["no"] + 1)] + [f"v{j}" for j in range(1, inp["pt"])]
    srcs = [data] if inp["no"] == 0 else list(data)
    tol = 1e-6 if inp["pt"] <= 2 else 1e-4
    if inp["no"] == 0:
        if abs(post.t_ref.tcb.mjd - data.t_ref.tcb.mjd) > 1e-9:
            bad("make_full_samples", "t_ref-is-the-data-reference-epoch")
        lun = post.ln_unmarginalized_likelihood(data)
    for r in range(n):
        M, mu, Lam, C, y = parts[r]
        x = []
        for nm in names:
            unit = vu / u.day ** int(nm[1:]) if (nm.startswith("v") and nm != "v0") else vu
            x.append(post[nm][r].to_value(unit))
        x = np.array(x)
        model = M @ x
        if inp["no"] == 0:
            rv = post.get_orbit(r).radial_velocity(data.t).to_value(vu)
            if not np.allclose(rv, model, rtol=1e-7, atol=1e-7 * max(1.0, np.abs(model).max())):
                bad("get_orbit", "same-rv-curve-as-the-sampler", row=r, maxdiff=float(np.max(np.abs(rv - model))))
                break
            if inp["layout"] == "single-precise":
                lnl = norm.logpdf(y, rv, np.sqrt(np.diag(C))).sum()
                if abs(lun[r] - lnl) > 1e-8 * max(1.0, abs(lnl)):
                    bad("ln_unmarginalized_likelihood", "gaussian-with-jitter-in-quadrature[precise-data]", row=r, got=float(lun[r]), want=float(lnl))
                    break
                continue
            lnl = norm.logpdf(y, model, np.sqrt(np.diag(C))).sum()
            if abs(lun[r] - lnl) > tol * max(1.0, abs(lnl)):
                bad("ln_unmarginalized_likelihood", "gaussian-with-jitter-in-quadrature", row=r, got=float(lun[r]), want=float(lnl))
                break
            Ci = np.diag(1 / np.diag(C))
            A = np.linalg.inv(np.linalg.inv(Lam) + M.T @ Ci @ M)
            a = A @ (np.linalg.inv(Lam) @ mu + M.T @ Ci @ y)
            def lnN(v, m, S_):
                S_ = 0.5 * (S_ + S_.T)
                sign, ld = np.linalg.slogdet(2 * np.pi * S_)
                d_ = v - m
                return -0.5 * (d_ @ np.linalg.solve(S_, d_) + ld)
            rhs = lun[r] + lnN(x, mu, Lam) - lnN(x, a, A)
            if abs(ll_marg[r] - rhs) > 10 * tol * max(1.0, abs(rhs)):
                bad("bayes-identity", "marginal-equals-likelihood-times-prior-over-conditional-posterior", row=r, lhs=float(ll_marg[r]), rhs=float(rhs))
                break
        else:
            rv = post.get_orbit(r).radial_velocity(data[0].t if False else srcs[1].t).to_value(vu)
            lab1 = M[len(srcs[0]):, :] @ x
            if not np.allclose(rv, lab1, rtol=1e-7, atol=1e-7 * max(1.0, np.abs(lab1).max())):
                bad("get_orbit", "survey-offsets-representable-in-the-orbit", row=r)
                break
    if inp["no"] == 0 and not fails:
        # call history on ONE samples object: orbits were built above; now K < 0 rows are wrapped in place - every row must still denote the
        # same curve, and the orbit built afterwards must be the orbit of the row as it now stands
        before = [post.get_orbit(r).radial_velocity(data.t).to_value(vu) for r in range(n)]
        neg = int(np.sum(post["K"].value < 0))
        post.wrap_K()
        for r in range(n):
            after = post.get_orbit(r).radial_velocity(data.t).to_value(vu)
            if not np.allclose(after, before[r], rtol=1e-9, atol=1e-9 * max(1.0, np.abs(before[r]).max())):
                bad("get_orbit", "same-rv-curve-after-wrap_K-on-the-same-object[call-history]", row=r, n_negative_K=neg,
                    maxdiff=float(np.max(np.abs(after - before[r]))))
                break
    return fails
