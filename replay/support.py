"""Native test support for the executable twins (run under /venv/bin/python on the real code)."""
import os
import sys
import warnings

import numpy as np

warnings.filterwarnings("ignore")


def quiet():
    import logging
    import thejoker  # noqa: F401  (the package installs its own logger class first)
    logging.getLogger("thejoker").setLevel(logging.ERROR)

HERE = os.path.dirname(os.path.abspath(__file__))
ROOT = os.path.dirname(HERE)
OUTDIR = os.environ.get("VERIF_OUT_DIR") or os.path.join(ROOT, "out")


class Units(dict):
    pass


class StubData:
    def __init__(self):
        from astropy.time import Time
        self.t_ref = Time(55555.0, format="mjd", scale="tcb")


class StubPrior:
    poly_trend = 1
    n_offsets = 0


class StubHelper:
    """stands for the kernel helper in function-level twins: scripted likelihoods keyed by the row's first
    column (a row id), and a posterior-sample routine that copies the nonlinear columns and records its input."""

    def __init__(self, ll_by_id):
        import astropy.units as u
        self.ll_by_id = dict(ll_by_id)
        self.internal_units = {"P": u.day, "e": u.one, "omega": u.rad, "M0": u.rad, "s": u.km / u.s,
                               "K": u.km / u.s, "v0": u.km / u.s}
        self.packed_order = ["P", "e", "omega", "M0", "s"]
        self.data = StubData()
        self.prior = StubPrior()
        self.ll_calls = []
        self.post_calls = []

    def batch_marginal_ln_likelihood(self, chunk):
        chunk = np.asarray(chunk)
        self.ll_calls.append(chunk.copy())
        return np.array([self.ll_by_id[int(round(r[0]))] for r in chunk], dtype=float)

    def batch_get_posterior_samples(self, chunk, n_linear_samples_per, rng):
        chunk = np.asarray(chunk)
        self.post_calls.append((chunk.copy(), n_linear_samples_per, rng))
        n = chunk.shape[0]
        out = np.zeros((n, n_linear_samples_per, 7))
        for i in range(n):
            lin = rng.multivariate_normal(np.zeros(2), np.eye(2), size=n_linear_samples_per)
            for j in range(n_linear_samples_per):
                out[i, j, :5] = chunk[i]
                out[i, j, 5:] = lin[j]
        return out.reshape(n * n_linear_samples_per, -1), np.zeros(n * n_linear_samples_per)


class RecordingGenerator(np.random.Generator):
    """a real numpy Generator that records every draw made on it (method, size, value)."""

    def __init__(self, seed):
        super().__init__(np.random.PCG64(seed))
        self.events = []

    def uniform(self, *a, **k):
        v = super().uniform(*a, **k)
        self.events.append(("uniform", k.get("size", a[2] if len(a) > 2 else None), np.array(v)))
        return v

    def choice(self, *a, **k):
        v = super().choice(*a, **k)
        self.events.append(("choice", k.get("size"), np.array(v)))
        return v

    def multivariate_normal(self, *a, **k):
        v = super().multivariate_normal(*a, **k)
        self.events.append(("mvn", k.get("size"), (np.array(a[0]) if a else np.array(k.get("mean")),
                                                  np.array(a[1]) if len(a) > 1 else np.array(k.get("cov")), np.array(v))))
        return v


class ScriptedGenerator(RecordingGenerator):
    """uniform() returns scripted values (to hit boundary cases exactly); other draws are real."""

    def __init__(self, seed, script):
        super().__init__(seed)
        self.script = list(script)

    def uniform(self, *a, **k):
        size = k.get("size", a[2] if len(a) > 2 else None)
        n = int(size)
        v = np.array([self.script[i % len(self.script)] for i in range(n)], dtype=float)
        self.events.append(("uniform", size, v.copy()))
        return v


def library(n):
    """packed batch of n rows whose first column is a row id 0..n-1 (other columns distinct tags)."""
    b = np.zeros((n, 5))
    b[:, 0] = np.arange(n)
    for c in range(1, 5):
        b[:, c] = 100 * c + np.arange(n)
    return b


_cache = {}


def default_prior(poly_trend=1, n_offsets=0, P_unit="day", v_unit="km/s", s=None, custom_K=False, seed_name=""):
    """real JokerPrior objects (cached per configuration: building pymc models is slow)."""
    key = (poly_trend, n_offsets, P_unit, v_unit, str(s), custom_K)
    if key in _cache:
        return _cache[key]
    import astropy.units as u
    import pymc as pm
    import thejoker.units as xu
    from thejoker import JokerPrior
    vu = u.Unit(v_unit)
    pu = u.Unit(P_unit)
    f = (1 * u.km / u.s).to_value(vu)      # all prior scales are fixed physically (in km/s) and only *expressed* in vu
    with pm.Model() as model:
        pars = {}
        s_fixed = None
        if s == "fixed":
            s_fixed = (2.5 * u.km / u.s).to(u.m / u.s if vu == u.km / u.s else u.km / u.s)      # a constant jitter, declared in yet another unit
        elif s is not None:
            pars["s"] = xu.with_unit(pm.Lognormal("s", -2.0 + np.log(f), 0.5), vu)
        offs = []
        for k in range(n_offsets):
            offs.append(xu.with_unit(pm.Normal(f"dv0_{k+1}", 0.3 * (k + 1) * f, (2.0 + k) * f), vu))
        if custom_K:
            pars["K"] = xu.with_unit(pm.Normal("K", 0.7 * f, 11.0 * f), vu)
        sigma_v = [(30.0 * f / (10.0 ** i)) * vu / u.day ** i for i in range(poly_trend)]
        prior = JokerPrior.default(P_min=(2 * u.day).to(pu), P_max=(256 * u.day).to(pu),
                                   sigma_K0=(25 * u.km / u.s).to(vu), P0=(1 * u.year),
                                   sigma_v=sigma_v if poly_trend > 1 else sigma_v[0], poly_trend=poly_trend,
                                   v0_offsets=offs or None, pars=pars or None, s=s_fixed, model=model)
    _cache[key] = prior
    return prior


def make_data(n=6, seed=3, unit="km/s", with_offsets=0, t_ref=None, t_shift=0.0):
    import astropy.units as u
    from astropy.time import Time
    from thejoker import RVData
    rng = np.random.default_rng(seed)
    t = np.sort(rng.uniform(55000.0, 55400.0, size=n)) + t_shift
    rv = rng.normal(0, 20, size=n)
    err = rng.uniform(0.3, 1.5, size=n)
    vu = u.Unit(unit)
    f = (1 * u.km / u.s).to_value(vu)
    return RVData(t=Time(t, format="mjd", scale="tcb"), rv=rv * f * vu, rv_err=err * f * vu, t_ref=t_ref)


def kernel_in_sync():
    from jvc import extract
    return extract.kernel_sync_status()["in_sync"]


_kernel_state = {}


def install_kernel():
    """When the compiled extension is stale w.r.t. the .pyx (no Cython in this sandbox), substitute the executable depyx of the
    CURRENT .pyx source for CJokerHelper, so that the twins exercise the source that the contracts were proved on.
    Returns True when the compiled kernel is in sync (nothing substituted)."""
    if "in_sync" in _kernel_state:
        return _kernel_state["in_sync"]
    in_sync = kernel_in_sync()
    _kernel_state["in_sync"] = in_sync
    if not in_sync:
        import pyx_exec
        repo = os.environ.get("VERIF_REPO", "/repo")
        mod, _ = pyx_exec.build(os.path.join(repo, "thejoker/src/fast_likelihood.pyx"))
        import thejoker.src.fast_likelihood as fl
        import thejoker.thejoker as tj
        fl.CJokerHelper = mod.CJokerHelper
        tj.CJokerHelper = mod.CJokerHelper
        _kernel_state["module"] = mod
    return in_sync


def closed_form_ll(data_list_or_single, prior_cfg, row, trend_M, all_data, rv_unit=None):
    raise NotImplementedError
