#!/usr/bin/env python3
"""tools/selftest.py [neutral|seeded|all] Cxx [...]  -- run the engine self-test of the named properties outside the thorough tier"""
import json, os, sys
sys.path.insert(0, os.path.dirname(os.path.dirname(os.path.abspath(__file__))))
kind = sys.argv[1]
if kind != "all":
    os.environ["VERIF_SELFTEST_KIND"] = kind
from jvc import selftest
for prop in sys.argv[2:]:
    for r in selftest.run(prop, os.environ.get("VERIF_REPO", "/repo")):
        print(prop, r["id"], r["status"], r.get("exit"), r.get("seconds"), "|", "; ".join(r.get("lines", []))[:400], r.get("reason", ""))
