#!/usr/bin/env python3
"""Regenerate MANIFEST.json from the table below (kept valid at all times)."""
import json, os
ROOT = os.path.dirname(os.path.dirname(os.path.abspath(__file__)))
props = [json.loads(l) for l in open(os.path.join(ROOT, "properties.jsonl"))]
CLAIMS = json.load(open(os.path.join(ROOT, "tools", "claims.json")))
checks, na = [], []
for p in props:
    pid = p["id"]
    c = CLAIMS.get(pid)
    if not c or c.get("not_applicable"):
        na.append({"property_id": pid, "reason": (c or {}).get("not_applicable", "machinery for this property is not built yet (work in progress); see DESIGN.md section 3")})
        continue
    checks.append({
        "property_id": pid,
        "quick_cmd": f"bin/check {pid} --tier quick",
        "thorough_cmd": f"bin/check {pid} --tier thorough",
        "evidence_file": f"evidence/{pid}.json",
        "replay_cmd_template": f"bin/check {pid} --replay {{path}}",
        "engine": "jvc",
        "level_claimed": {"category": "proof", "text": c["text"], "design_ref": c.get("design_ref", "DESIGN.md section 3")},
        "level_note": c["note"],
        "technique": c.get("technique", "contract-based deductive verification: sidecar contracts on the real functions, VCs generated from the AST of /repo's working tree, discharged by z3/cvc5 (+Lean lemmas); counter-models replayed on the real code"),
    })
m = {
    "version": 1,
    "setup_cmd": "sh bin/setup",
    "hooks": {"guard": "THEJOKER_VERIF", "enable": "no hooks are needed: contracts are sidecar files under /verif/contracts and /repo is only read", "baseline_off_cmd": "cd /repo && /venv/bin/python -m pytest -ra -q -p no:cacheprovider --timeout=900 --continue-on-collection-errors", "source_commits": [], "add_only": True},
    "engines": [{"name": "jvc", "path": "jvc/", "serves_properties": [c["property_id"] for c in checks],
                 "kind_free_text": "AST -> verification-condition generator for a stated Python/Cython subset (jvc/symexec.py), sidecar contracts (contracts/), z3 + cvc5 back ends (jvc/smt.py), Lean 4/Mathlib lemma layer (lemmas/), native replay + executable contract twins on the real code (replay/)"}],
    "checks": checks,
    "not_applicable": na,
    "notes": "Exit codes of bin/check: 0 all obligations discharged, 1 VIOLATION, 2 undecided (never a violation), 3 checker crash. known_findings.json lists open/fixed findings.",
}
json.dump(m, open(os.path.join(ROOT, "MANIFEST.json"), "w"), indent=1)
print("checks:", [c["property_id"] for c in checks], "n/a:", len(na))
