#!/usr/bin/env python3
"""Generate the status tables of DESIGN.md (§8 from evidence/*.json, §9 from seeded/*/meta.json) and assemble DESIGN.md from tools/design_parts/."""
import glob
import json
import os
import re
import sys

ROOT = os.path.dirname(os.path.dirname(os.path.abspath(__file__)))


def status_table():
    rows = ["| id | functions (contract × case) | obligations | discharged | z3 / cvc5 / cfg / lean | solver s | wall s (quick) | twin evaluations (bounded) | "
            "known findings | kernel in sync |", "|---|---|---|---|---|---|---|---|---|---|"]
    tot_o = tot_d = 0
    for f in sorted(glob.glob(os.path.join(ROOT, "evidence", "C*.json"))):
        e = json.load(open(f))
        c = e["coverage"]
        b = c["by_backend"]
        tot_o += c["obligations"]
        tot_d += c["discharged"]
        rows.append(f"| {e['property_id']} | {len(c['functions_under_contract'])} | {c['obligations']} | {c['discharged']} | "
                    f"{b.get('z3', 0)} / {b.get('cvc5', 0)} / {b.get('cfg', 0)} / {b.get('lean', 0)} | {c['solver_seconds']} | {e['wall_s']} | "
                    f"{c.get('evaluations', 0)} | {len(c.get('known_findings_reported', []))} | {c.get('compiled_kernel_in_sync')} |")
    rows.append(f"| total | | {tot_o} | {tot_d} | | | | | | |")
    return "\n".join(rows)


def seeded_table():
    rows = ["| id | what the change does | needs | first run of the property's check | now | caught by |", "|---|---|---|---|---|---|"]
    hist = {}
    hp = os.path.join(ROOT, "seeded", "FIRST_RUN.json")
    if os.path.exists(hp):
        hist = json.load(open(hp))
    n = n1 = 0
    for d in sorted(glob.glob(os.path.join(ROOT, "seeded", "C*-*"))):
        sid = os.path.basename(d)
        m = json.load(open(os.path.join(d, "meta.json")))
        det = m.get("detection", {})
        lines = det.get("lines", [])
        by = []
        for l in lines:
            mm = re.search(r"refuted/failed: (\S+)", l)
            if mm:
                name = mm.group(1)
                name = re.sub(r"^C\d\d/", "", name)
                by.append(("twin " if name.startswith("twin:") else "VC ") + "`" + name[:110] + "`")
        und = [l for l in lines if "UNDECIDED" in l]
        if not by and und:
            by = ["(undecided only) " + und[0][:100]]
        what = (m.get("summary") or m.get("title") or m.get("description") or m.get("what") or "")
        if isinstance(what, list):
            what = " ".join(what)
        files = m.get("files") or m.get("files_changed") or []
        if isinstance(files, str):
            files = [files]
        needs = m.get("trigger") or m.get("needs") or m.get("manifests_when") or ""
        if isinstance(needs, list):
            needs = "; ".join(map(str, needs))
        first = hist.get(sid, "")
        ex = det.get("exit")
        n += 1
        n1 += 1 if ex == 1 else 0
        clean = lambda t, n: (str(t)[:n] + ("…" if len(str(t)) > n else "")).replace("|", "/").replace("\n", " ")
        rows.append(f"| {sid} | {clean(what, 200)} | {clean(needs, 130)} | {first} | exit {ex} | {'; '.join(dict.fromkeys(by[:2])).replace('|', '/')} |")
    miss = sum(1 for v in hist.values() if not v.startswith("exit 1"))
    rows.append(f"\n{n1} of {n} seeded changes end in `VIOLATION` (exit 1) with the current checks; at first run {miss} of {len(hist)} were missed (exit 0) or "
                f"undecided only (exit 2).")
    return "\n".join(rows)


def build():
    parts = os.path.join(ROOT, "tools", "design_parts")
    out = []
    for f in ("00_top.md", "30_per_property.md", "40_defects.md", "50_limits_layout_changelog.md"):
        out.append(open(os.path.join(parts, f)).read().rstrip("\n") + "\n\n")
    out.append("## 8. Status per property (generated from `evidence/*.json` by `tools/status.py`)\n\n"
               "`obligations` = VCs + effect obligations + Lean theorems, not counting obligations that are listed open findings; "
               "`discharged` must equal it. Twin evaluations are bounded evidence and are not part of either number.\n\n" + status_table() + "\n\n")
    out.append(open(os.path.join(parts, "90_seeded_intro.md")).read().rstrip("\n") + "\n\n" + seeded_table() + "\n\n")
    out.append("---------------------------------------------------------------------------\n\n" + open(os.path.join(parts, "99_appendix.md")).read())
    open(os.path.join(ROOT, "DESIGN.md"), "w").write("".join(out))
    print("DESIGN.md written,", sum(len(x) for x in out), "chars")


if __name__ == "__main__":
    if len(sys.argv) > 1 and sys.argv[1] == "tables":
        print(status_table())
        print(seeded_table())
    else:
        build()
