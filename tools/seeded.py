#!/usr/bin/env python3
"""Seeded property-breaking changes (kept under /verif/seeded/<id>/): import, confirm, and run the checks against them.

  seeded.py import <src_dir> <id>            copy patch.diff, demo.py, meta.json
  seeded.py confirm <id> [...]               scratch worktree: tests unchanged, demo passes without / fails with the patch
  seeded.py detect <id> [...]                scratch worktree + VERIF_REPO: run the property's quick check, record the verdict
Scratch worktrees live under $VERIF_SCRATCH (default /var/tmp/thejoker-verif) and are removed afterwards.
"""
import glob
import json
import os
import shutil
import subprocess
import sys
import time

ROOT = os.path.dirname(os.path.dirname(os.path.abspath(__file__)))
SEEDED = os.path.join(ROOT, "seeded")
SCRATCH = os.environ.get("VERIF_SCRATCH", "/var/tmp/thejoker-verif")
PY = "/venv/bin/python"
BASE_CMD = [PY, "-m", "pytest", "-q", "-p", "no:cacheprovider", "--timeout=900", "--continue-on-collection-errors"]


def sh(cmd, **kw):
    return subprocess.run(cmd, capture_output=True, text=True, **kw)


def worktree(tag):
    d = os.path.join(SCRATCH, tag)
    if os.path.exists(d):
        sh(["git", "-C", "/repo", "worktree", "remove", "--force", d])
        shutil.rmtree(d, ignore_errors=True)
    os.makedirs(SCRATCH, exist_ok=True)
    r = sh(["git", "-C", "/repo", "worktree", "add", "-q", "--detach", d, "HEAD"])
    assert r.returncode == 0, r.stderr
    for f in glob.glob("/repo/thejoker/src/fast_likelihood*.so") + glob.glob("/repo/thejoker/src/fast_likelihood.c"):
        shutil.copy2(f, os.path.join(d, "thejoker/src"))
    return d


def drop(d):
    sh(["git", "-C", "/repo", "worktree", "remove", "--force", d])
    shutil.rmtree(d, ignore_errors=True)
    sh(["git", "-C", "/repo", "worktree", "prune"])


def passing(d, junit):
    env = dict(os.environ, PYTHONPATH=d)
    sh(BASE_CMD + [f"--junitxml={junit}"], cwd=d, env=env)
    import xml.etree.ElementTree as ET
    ok = set()
    for tc in ET.parse(junit).iter("testcase"):
        if not any(ch.tag in ("failure", "error", "skipped") for ch in tc):
            ok.add(f"{tc.get('classname')}::{tc.get('name')}")
    return ok


def cmd_import(src, sid):
    dst = os.path.join(SEEDED, sid)
    os.makedirs(dst, exist_ok=True)
    for f in ("patch.diff", "demo.py", "meta.json"):
        shutil.copy2(os.path.join(src, f), os.path.join(dst, f))
    print("imported", sid)


def cmd_confirm(sid):
    sd = os.path.join(SEEDED, sid)
    meta = json.load(open(os.path.join(sd, "meta.json")))
    d = worktree("confirm-" + sid)
    try:
        env = dict(os.environ, PYTHONPATH=d)
        want = set(json.load(open("/root/.vp/BASELINE.json"))["stable_pass"])
        demo0 = sh([PY, os.path.join(sd, "demo.py")], cwd=d, env=env, timeout=1800)
        ap = sh(["git", "apply", os.path.join(sd, "patch.diff")], cwd=d)
        assert ap.returncode == 0, ap.stderr
        ok = passing(d, os.path.join(SCRATCH, f"junit-{sid}.xml"))
        demo1 = sh([PY, os.path.join(sd, "demo.py")], cwd=d, env=env, timeout=1800)
        res = {"tests_stable_passing_with_patch": len(want & ok), "tests_stable_total": len(want), "missing": sorted(want - ok),
               "demo_exit_without_patch": demo0.returncode, "demo_exit_with_patch": demo1.returncode,
               "demo_tail_with_patch": (demo1.stdout + demo1.stderr)[-400:]}
        res["confirmed"] = (not res["missing"]) and demo0.returncode == 0 and demo1.returncode != 0
        meta["confirmation"] = res
        meta["confirmed_by"] = "tools/seeded.py confirm (scratch worktree of /repo HEAD, full pinned test command, demo without/with patch)"
        json.dump(meta, open(os.path.join(sd, "meta.json"), "w"), indent=1)
        print(sid, "confirmed" if res["confirmed"] else "NOT CONFIRMED", {k: v for k, v in res.items() if k != "demo_tail_with_patch"})
    finally:
        drop(d)


def cmd_detect(sid, tier="quick"):
    sd = os.path.join(SEEDED, sid)
    meta = json.load(open(os.path.join(sd, "meta.json")))
    prop = meta["property"]
    d = worktree("detect-" + sid)
    try:
        ap = sh(["git", "apply", os.path.join(sd, "patch.diff")], cwd=d)
        assert ap.returncode == 0, ap.stderr
        out = os.path.join(SCRATCH, "out-" + sid)
        os.makedirs(out, exist_ok=True)
        env = dict(os.environ, VERIF_REPO=d, VERIF_OUT_DIR=out)
        t0 = time.time()
        r = sh([os.path.join(ROOT, "bin/check"), prop, "--tier", tier], cwd=ROOT, env=env, timeout=3600)
        lines = [l for l in r.stdout.split("\n") if l.startswith("VIOLATION") or "refuted/failed" in l or "UNDECIDED" in l]
        meta["detection"] = {"check": f"bin/check {prop} --tier {tier}", "exit": r.returncode, "seconds": round(time.time() - t0, 1),
                             "lines": [l[:300] for l in lines[:12]]}
        json.dump(meta, open(os.path.join(sd, "meta.json"), "w"), indent=1)
        print(sid, "exit", r.returncode, "|", "; ".join(l[:140] for l in lines[:4]))
        shutil.rmtree(out, ignore_errors=True)
    finally:
        drop(d)


if __name__ == "__main__":
    c = sys.argv[1]
    if c == "import":
        cmd_import(sys.argv[2], sys.argv[3])
    elif c == "confirm":
        for s in sys.argv[2:]:
            cmd_confirm(s)
    elif c == "detect":
        for s in sys.argv[2:]:
            cmd_detect(s)
    elif c == "detect-all":
        # every seeded change, N at a time (each in its own scratch worktree)
        from concurrent.futures import ThreadPoolExecutor
        ids = sorted(os.path.basename(os.path.dirname(p)) for p in glob.glob(os.path.join(SEEDED, "*", "patch.diff")))
        with ThreadPoolExecutor(max_workers=int(sys.argv[2]) if len(sys.argv) > 2 else 4) as ex:
            list(ex.map(cmd_detect, ids))
