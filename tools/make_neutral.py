#!/usr/bin/env python3
"""Generate the behaviour-preserving ("neutral") edits used by the engine self-test, as unified diffs under selftest/neutral/.

Each edit is a list of exact text substitutions on /repo's HEAD (made in a scratch worktree, never in /repo).  They are the kind of
harmless refactoring a maintainer might do: reorder independent statements, commute an addition, split an expression into a temporary,
rename a local that no contract mentions, write range(0, n) for range(n).  The property's check must stay green on every one of them.

  make_neutral.py            regenerate all diffs (needs a clean /repo HEAD)
"""
import os
import shutil
import subprocess
import sys

ROOT = os.path.dirname(os.path.dirname(os.path.abspath(__file__)))
SCRATCH = os.environ.get("VERIF_SCRATCH", "/var/tmp/thejoker-verif")

EDITS = {
    # id: (properties that must stay green, [(file, old, new), ...])
    "batch_tasks-reorder-commute": (["C16", "C05", "C02", "C14"], [
        ("thejoker/utils.py",
         "        base_batch_size = n_tasks // n_batches\n        rmdr = n_tasks % n_batches\n",
         "        rmdr = n_tasks % n_batches\n        base_batch_size = n_tasks // n_batches\n"),
        ("thejoker/utils.py", "        for i in range(n_batches):\n            i2 = i1 + base_batch_size\n",
         "        for i in range(0, n_batches):\n            i2 = base_batch_size + i1\n"),
        ("thejoker/utils.py", "tasks.append([(start_idx, n_tasks + start_idx), start_idx] + args)",
         "tasks.append([(start_idx, start_idx + n_tasks), start_idx] + args)"),
    ]),
    "rejection_inmem-split-and-reorder": (["C02", "C06"], [
        ("thejoker/likelihood_helpers.py",
         "    good_samples_idx = np.where(np.exp(lls - lls.max()) > uu)[0]\n    good_samples_idx = good_samples_idx[:max_posterior_samples]\n",
         "    ratio = np.exp(lls - lls.max())\n    accepted = np.where(ratio > uu)[0]\n    good_samples_idx = accepted[:max_posterior_samples]\n"),
        ("thejoker/likelihood_helpers.py",
         "        samples[\"ln_prior\"] = ln_prior[good_samples_idx]\n        samples[\"ln_likelihood\"] = lls[good_samples_idx]\n\n    if return_all_logprobs:",
         "        samples[\"ln_likelihood\"] = lls[good_samples_idx]\n        samples[\"ln_prior\"] = ln_prior[good_samples_idx]\n\n    if return_all_logprobs:"),
    ]),
    "iterative_inmem-reorder": (["C14", "C06"], [
        ("thejoker/likelihood_helpers.py",
         "        n_ll_evals = len(all_marg_lls)\n        n_need = n_requested_samples - n_good\n",
         "        n_need = n_requested_samples - n_good\n        n_ll_evals = len(all_marg_lls)\n"),
        ("thejoker/likelihood_helpers.py",
         "    maxiter = 128  # MAGIC NUMBER\n    safety_factor = 1  # MAGIC NUMBER\n",
         "    safety_factor = 1  # MAGIC NUMBER\n    maxiter = 128  # MAGIC NUMBER\n"),
        ("thejoker/likelihood_helpers.py",
         "        samples[\"ln_prior\"] = ln_prior[full_samples_idx]\n        samples[\"ln_likelihood\"] = all_marg_lls[good_samples_idx]\n",
         "        samples[\"ln_likelihood\"] = all_marg_lls[good_samples_idx]\n        samples[\"ln_prior\"] = ln_prior[full_samples_idx]\n"),
    ]),
    "diagnostics-commute-and-temporaries": (["C19"], [
        ("thejoker/samples_analysis.py",
         "    phase = np.concatenate((phase, phase + 1.0))\n    return (phase[1:] - phase[:-1]).max()\n",
         "    phase = np.concatenate((phase, 1.0 + phase))\n    gaps = phase[1:] - phase[:-1]\n    return gaps.max()\n"),
        ("thejoker/samples_analysis.py",
         "    T = data.t.jd.max() - data.t.jd.min()\n    return T / P.to_value(u.day)\n",
         "    t_jd = data.t.jd\n    P_day = P.to_value(u.day)\n    T = t_jd.max() - t_jd.min()\n    return T / P_day\n"),
    ]),
    "read_batch_idx-hoist": (["C05", "C12", "C02", "C06", "C07", "C01"], [
        ("thejoker/utils.py",
         "    batch = np.zeros((len(idx), len(columns)))\n    with tb.open_file(prior_samples_file, mode=\"r\") as f:\n        for i, name in enumerate(columns):\n            batch[:, i] = f.root[path].read_coordinates(idx, field=name)\n",
         "    n_rows = len(idx)\n    batch = np.zeros((n_rows, len(columns)))\n    with tb.open_file(prior_samples_file, mode=\"r\") as f:\n        node = f.root[path]\n        for i, name in enumerate(columns):\n            batch[:, i] = node.read_coordinates(idx, field=name)\n"),
    ]),
    "wrap_K-temporaries": (["C17", "C04"], [
        ("thejoker/samples.py",
         "            self.tbl[\"omega\"][mask] = self.tbl[\"omega\"][mask] + np.pi * u.rad\n            self.tbl[\"omega\"][mask] = self.tbl[\"omega\"][mask] % (2 * np.pi * u.rad)\n",
         "            half_turn = np.pi * u.rad\n            self.tbl[\"omega\"][mask] = half_turn + self.tbl[\"omega\"][mask]\n            self.tbl[\"omega\"][mask] = self.tbl[\"omega\"][mask] % (2 * half_turn)\n"),
    ]),
    "kernel-chi2-commute": (["C01", "C03", "C05", "C02"], [
        ("thejoker/src/fast_likelihood.pyx",
         "                chi2 += ((self.b[m] - self.rv[m])\n                         * self.Binv[n, m]\n                         * (self.b[n] - self.rv[n]))\n",
         "                chi2 += (self.Binv[n, m]\n                         * (self.b[m] - self.rv[m])\n                         * (self.b[n] - self.rv[n]))\n"),
        ("thejoker/src/fast_likelihood.pyx",
         "                    self.a[i] += self.M_T[i, n] * self.s_ivar[n] * self.rv[n]\n",
         "                    self.a[i] += self.s_ivar[n] * self.M_T[i, n] * self.rv[n]\n"),
    ]),
    "prepare_data-reorder": (["C08", "C01", "C07", "C18"], [
        ("thejoker/data_helpers.py",
         "        t.append(d.t.tcb.mjd)\n        rv.append(d.rv.to_value(rv_unit))\n        err.append(d.rv_err.to_value(rv_unit))\n        ids.append([k] * len(d))\n",
         "        n_k = len(d)\n        ids.append([k] * n_k)\n        err.append(d.rv_err.to_value(rv_unit))\n        rv.append(d.rv.to_value(rv_unit))\n        t.append(d.t.tcb.mjd)\n"),
        ("thejoker/data_helpers.py",
         "    rv = np.concatenate(rv) * rv_unit\n    err = np.concatenate(err) * rv_unit\n    ids = np.concatenate(ids)\n",
         "    ids = np.concatenate(ids)\n    err = np.concatenate(err) * rv_unit\n    rv = np.concatenate(rv) * rv_unit\n"),
    ]),
    "tempfile-rename-and-simplify": (["C13", "C05", "C02", "C01"], [
        ("thejoker/utils.py",
         "            f = NamedTemporaryFile(mode=\"r+\", suffix=\".hdf5\", delete=False)\n            f.close()\n",
         "            tmp = NamedTemporaryFile(mode=\"r+\", suffix=\".hdf5\", delete=False)\n            tmp.close()\n            f = tmp\n"),
        ("thejoker/utils.py",
         "            except Exception as e:\n                raise e\n            finally:\n",
         "            except Exception:\n                raise\n            finally:\n"),
    ]),
    "uniformlog-temporaries": (["C09", "C10"], [
        ("thejoker/distributions.py",
         "        def rng_fn(cls, rng, a, b, size):\n            _fac = np.log(b) - np.log(a)\n            uu = rng.uniform(size=size)\n            return np.exp(uu * _fac + np.log(a))\n\n    uniformlog = UniformLogRV()\n\n    class UniformLog(pm.Continuous):\n        rv_op = uniformlog\n\n        @classmethod\n        def dist(cls, a, b, **kwargs):\n            a = pt.as_tensor_variable(a)\n            b = pt.as_tensor_variable(b)\n            return super().dist([a, b], **kwargs)\n\n        def support_point(rv, size, a, b):\n            a, b = pt.broadcast_arrays(a, b)\n            return 0.5 * (a + b)\n\n        def logp(value, a, b):",
         "        def rng_fn(cls, rng, a, b, size):\n            ln_a = np.log(a)\n            _fac = np.log(b) - ln_a\n            uu = rng.uniform(size=size)\n            return np.exp(ln_a + _fac * uu)\n\n    uniformlog = UniformLogRV()\n\n    class UniformLog(pm.Continuous):\n        rv_op = uniformlog\n\n        @classmethod\n        def dist(cls, a, b, **kwargs):\n            a = pt.as_tensor_variable(a)\n            b = pt.as_tensor_variable(b)\n            return super().dist([a, b], **kwargs)\n\n        def support_point(rv, size, a, b):\n            a, b = pt.broadcast_arrays(a, b)\n            return 0.5 * (a + b)\n\n        def logp(value, a, b):"),
    ]),
    "get_orbit-reorder": (["C04", "C17"], [
        ("thejoker/samples.py",
         "        P = self[\"P\"]\n        e = self[\"e\"]\n        K = self[\"K\"]\n        omega = self[\"omega\"]\n        M0 = self[\"M0\"]\n",
         "        M0 = self[\"M0\"]\n        omega = self[\"omega\"]\n        K = self[\"K\"]\n        e = self[\"e\"]\n        P = self[\"P\"]\n"),
        ("thejoker/samples.py",
         "        orbit.elements._P = P\n        orbit.elements._e = e * u.dimensionless_unscaled\n        orbit.elements._a = a\n",
         "        orbit.elements._a = a\n        orbit.elements._e = e * u.dimensionless_unscaled\n        orbit.elements._P = P\n"),
    ]),
    "setup_mcmc-temporaries": (["C11"], [
        ("thejoker/thejoker.py",
         "        x = data._t_bmjd - data._t_ref_bmjd\n",
         "        t_ref_number = data._t_ref_bmjd\n        x = data._t_bmjd - t_ref_number\n"),
    ]),
    "copy-getitem-temporaries": (["C15"], [
        ("thejoker/data.py",
         "        return self.__class__(\n            t=self.t.copy(),\n            rv=self.rv.copy(),\n            rv_err=self.rv_err.copy(),\n            t_ref=self.t_ref if self.t_ref is not None else False,\n        )\n",
         "        keep_ref = self.t_ref if self.t_ref is not None else False\n        times = self.t.copy()\n        return self.__class__(\n            rv_err=self.rv_err.copy(),\n            rv=self.rv.copy(),\n            t=times,\n            t_ref=keep_ref,\n        )\n"),
    ]),
    "run_worker-noop": (["C16", "C10", "C05", "C03", "C14"], [
        ("thejoker/multiproc_helpers.py",
         "        sg = rng.bit_generator._seed_seq.spawn(len(tasks))\n        for i in range(len(tasks)):\n            tasks[i] = tuple(tasks[i]) + (Generator(PCG64(sg[i])),)\n",
         "        n_streams = len(tasks)\n        sg = rng.bit_generator._seed_seq.spawn(n_streams)\n        for i in range(0, n_streams):\n            child = Generator(PCG64(sg[i]))\n            tasks[i] = tuple(tasks[i]) + (child,)\n"),
    ]),
    # an optional parameter nobody passes yet (round 6: the contracts bind a parameter they do not mention to its default)
    "run_worker-unused-optional-parameter": (["C16", "C05", "C14"], [
        ("thejoker/multiproc_helpers.py", "    samples_idx=None,\n    rng=None,\n):\n    with tb.open_file(prior_samples_file, mode=\"r\") as f:\n",
         "    samples_idx=None,\n    rng=None,\n    progress=False,\n):\n    with tb.open_file(prior_samples_file, mode=\"r\") as f:\n"),
    ]),
    "batch_tasks-divmod": (["C16", "C02"], [
        ("thejoker/utils.py",
         "        base_batch_size = n_tasks // n_batches\n        rmdr = n_tasks % n_batches\n",
         "        base_batch_size, rmdr = divmod(n_tasks, n_batches)\n"),
    ]),
    # tolerating "already gone" in the clean-up itself (and only there) loses nothing (round 6: `with contextlib.suppress` is modelled)
    "tempfile-cleanup-tolerates-missing-file": (["C13"], [
        ("thejoker/utils.py", "            finally:\n                os.unlink(f.name)\n",
         "            finally:\n                with contextlib.suppress(FileNotFoundError):\n                    os.unlink(f.name)\n"),
        ("thejoker/utils.py", "import os\n", "import contextlib\nimport os\n"),
    ]),
    "dtype_compare-hoist": (["C12"], [
        ("thejoker/samples_helpers.py",
         "        for k in set(list(d1.keys()) + list(d2.keys())):\n",
         "        all_keys = set(list(d1.keys()) + list(d2.keys()))\n        for k in all_keys:\n"),
    ]),
}


def main():
    out = os.path.join(ROOT, "selftest", "neutral")
    os.makedirs(out, exist_ok=True)
    d = os.path.join(SCRATCH, "make-neutral")
    subprocess.run(["git", "-C", "/repo", "worktree", "remove", "--force", d], capture_output=True)
    shutil.rmtree(d, ignore_errors=True)
    os.makedirs(SCRATCH, exist_ok=True)
    subprocess.run(["git", "-C", "/repo", "worktree", "add", "-q", "--detach", d, "HEAD"], check=True)
    try:
        for name, (props, subs) in EDITS.items():
            subprocess.run(["git", "checkout", "-q", "--", "."], cwd=d, check=True)
            for f, old, new in subs:
                p = os.path.join(d, f)
                s = open(p).read()
                if s.count(old) != 1:
                    print(f"!! {name}: pattern occurs {s.count(old)} times in {f}: {old[:60]!r}")
                    break
                open(p, "w").write(s.replace(old, new))
            else:
                diff = subprocess.run(["git", "diff"], cwd=d, capture_output=True, text=True).stdout
                for pr in props:
                    open(os.path.join(out, f"{pr}-{name}.diff"), "w").write(diff)
                print("wrote", name, "for", props)
    finally:
        subprocess.run(["git", "-C", "/repo", "worktree", "remove", "--force", d], capture_output=True)
        shutil.rmtree(d, ignore_errors=True)
        subprocess.run(["git", "-C", "/repo", "worktree", "prune"], capture_output=True)


if __name__ == "__main__":
    main()
