#!/bin/sh
# run the repository's pinned test command (guard off) and compare with the stable-pass list
cd /repo && /venv/bin/python -m pytest -ra -q -p no:cacheprovider --timeout=900 --continue-on-collection-errors --junitxml=/tmp/baseline.junit.xml > /tmp/baseline.log 2>&1
python3 - <<'PY'
import json, xml.etree.ElementTree as ET
b = json.load(open('/root/.vp/BASELINE.json'))
want = set(b['stable_pass'])
t = ET.parse('/tmp/baseline.junit.xml')
ok = set()
for tc in t.iter('testcase'):
    name = f"{tc.get('classname')}::{tc.get('name')}"
    if not any(ch.tag in ('failure', 'error', 'skipped') for ch in tc):
        ok.add(name)
missing = sorted(want - ok)
print("baseline stable tests passing:", len(want & ok), "/", len(want))
for m in missing: print("  MISSING:", m)
PY
